"""C08 — coils are never driven beyond their configured safety limits (structural clauses).

OWN-9   who may actuate hw_driver          OWN-10  who may install hardware rules
FLOW-3  settings handed to the platform derive from the verifying getters (kind-correct)
DOM-17  validators are real (upper limit + lower bound on every path to return); limit precedence
DEAD-1  no unsatisfiable limit guard        PAIR-10 timed off / watchdog armed, not restartable
SIB-2   control events and devices go through the verifying API
"""
import ast

from sa.model import src, short, dotted, call_attr, kwarg, arg, walk_local, AnalysisError, assigned_targets, const_value
from sa.helpers import feasible_paths
from sa.index import get_index
from sa.units import Units, load_spec, MS, S

DRV = "mpf/devices/driver.py"
PC = "mpf/core/platform_controller.py"
ACTUATE = {"pulse", "enable", "timed_enable"}
HARMLESS_ATTRS = {"number", "get_board_name", "config", "disable", "has_rules", "get_successor_number", "platform_settings",
                  "set_fade", "light_sync"}

# frozen allow-list: scopes that may actuate a platform driver directly
ALLOWED_ACTUATORS = {
    (DRV, "Driver._pulse_now"): "the verified pulse path",
    (DRV, "Driver._enable_now"): "the verified enable path",
    (DRV, "Driver.timed_enable"): "verifies all four values itself",
    (PC, "SoftwareEosRepulseManager._repulse_on_eos_open"): "re-uses the DriverSettings verified when the rule was set",
    ("mpf/devices/digital_output.py", "DigitalOutput.pulse"): "not a coil: no configurable limits, fixed power 1.0",
    ("mpf/devices/digital_output.py", "DigitalOutput.enable"): "not a coil: no configurable limits, fixed power 1.0",
}

GETTERS = {
    "get_and_verify_pulse_ms": "pulse_ms",
    "get_and_verify_pulse_power": "pulse_power",
    "get_and_verify_hold_power": "hold_power",
    "get_and_verify_timed_enable_ms": "timed_enable_ms",
}
# (settings class, field) -> kind it must carry
FIELD_KIND = {
    ("PulseSettings", "power"): "pulse_power", ("PulseSettings", "duration"): "pulse_ms",
    ("HoldSettings", "power"): "hold_power", ("HoldSettings", "duration"): "timed_enable_ms",
}
FIELD_POS = {"PulseSettings": ["power", "duration"], "HoldSettings": ["power", "duration"]}


def _dead_chain(cmp):
    """Chained comparison that can never be true (or only for a negative
    'maximum'):  a > x > b  with a <= b,  a < x < b with a >= b, and the
    `0 > x > <non-negative limit>` idiom."""
    if not (isinstance(cmp, ast.Compare) and len(cmp.ops) == 2):
        return None
    a, b = const_value(cmp.left), const_value(cmp.comparators[1])
    o1, o2 = cmp.ops
    if isinstance(o1, (ast.Gt, ast.GtE)) and isinstance(o2, (ast.Gt, ast.GtE)):
        if isinstance(a, (int, float)) and isinstance(b, (int, float)) and a <= b:
            return "`%s` needs %s > x > %s" % (src(cmp), a, b)
        if isinstance(a, (int, float)) and a <= 0 and b is None:
            return "`%s` can hold only if %s is negative" % (src(cmp), src(cmp.comparators[1]))
    if isinstance(o1, (ast.Lt, ast.LtE)) and isinstance(o2, (ast.Lt, ast.LtE)):
        if isinstance(a, (int, float)) and isinstance(b, (int, float)) and a >= b:
            return "`%s` needs %s < x < %s" % (src(cmp), a, b)
    return None


def _selftest_dead():
    t = ast.parse("0 > pulse_power > 1", mode="eval").body
    u = ast.parse("0 > pulse_ms > self.platform.features['max_pulse']", mode="eval").body
    v = ast.parse("0 <= pulse_power <= 1", mode="eval").body
    return _dead_chain(t) is not None and _dead_chain(u) is not None and _dead_chain(v) is None


def _local_defs(fn, name):
    out = []
    for n in walk_local(fn):
        if isinstance(n, ast.Assign):
            for t in n.targets:
                if isinstance(t, ast.Name) and t.id == name:
                    out.append(n.value)
                if isinstance(t, ast.Tuple):
                    for e in t.elts:
                        if isinstance(e, ast.Name) and e.id == name:
                            out.append(n.value)
        elif isinstance(n, (ast.AugAssign,)) and isinstance(n.target, ast.Name) and n.target.id == name:
            out.append(n)
    return out


def _def_dominates(func, name, use):
    """Does some assignment to `name` dominate the statement containing `use`?"""
    cfg = func.cfg()
    un = [n for n in cfg.nodes if n.kind != "branch" and any(x is use for x in n.walk())]
    if not un:
        return False
    for n in cfg.nodes:
        if n.kind == "stmt" and isinstance(n.ast, ast.Assign) and n.id != un[0].id and any(
                isinstance(t, ast.Name) and t.id == name for t in n.ast.targets):
            if cfg.dominates(n.id, un[0].id):
                return True
    return False


def _kind_of_expr(repo, func, e, depth=0):
    """Set of provenance tags of expression e inside func:
    'v:<kind>' verified by the getter of that kind, 'const', 'none', 'other:<src>'."""
    if e is None:
        return {"none"}
    if isinstance(e, ast.Constant):
        return {"none"} if e.value is None else {"const"}
    if isinstance(e, ast.Call) and call_attr(e) in GETTERS:
        return {"v:" + GETTERS[call_attr(e)]}
    if isinstance(e, ast.Name):
        defs = _local_defs(func.node, e.id)
        if e.id in func.params():
            # a parameter that is re-bound by a definition dominating this use is a local from there on
            if not (defs and _def_dominates(func, e.id, e)):
                out = _param_provenance(repo, func, e.id, depth)
                for d in defs:
                    out |= {"other:aug " + e.id} if isinstance(d, ast.AugAssign) else _kind_of_expr(repo, func, d, depth)
                return out
        if not defs:
            return {"other:" + e.id}
        out = set()
        for d in defs:
            if isinstance(d, ast.AugAssign):
                out.add("other:aug " + e.id)
            else:
                out |= _kind_of_expr(repo, func, d, depth)
        return out
    if isinstance(e, ast.Attribute):
        # fields of a DriverSettings built by the verifying helpers
        t = src(e)
        if t.endswith(".pulse_settings") or t.endswith(".hold_settings"):
            return {"v:settings"}
        return {"other:" + t}
    return {"other:" + short(e, 50)}


def _param_provenance(repo, func, pname, depth):
    """Provenance of a parameter of a *private* Driver method over all its call sites."""
    if depth > 3 or func.cls is None or not func.name.startswith("_"):
        return {"param:" + pname}
    idx = get_index(repo)
    out = set()
    sites = 0
    params = func.params()
    pos = params.index(pname) - (1 if params and params[0] in ("self", "cls") else 0)
    for u in idx.uses(func.name):
        if u.store or u.func is None or u.recv_text != "self":
            continue
        if u.cls is None or u.module.classes.get(u.cls) is None:
            continue
        if not repo.is_subclass(u.module.classes[u.cls], func.cls) and u.module.classes[u.cls] is not func.cls:
            continue
        sites += 1
        if u.call is not None:
            a = None
            if 0 <= pos < len(u.call.args):
                a = u.call.args[pos]
            else:
                a = kwarg(u.call, pname)
            out |= _kind_of_expr(repo, u.func, a, depth + 1) if a is not None else {"none"}
        elif isinstance(u.parent, ast.Call):
            a = kwarg(u.parent, pname)
            out |= _kind_of_expr(repo, u.func, a, depth + 1) if a is not None else {"none"}
        else:
            out.add("other:escapes")
    if not sites:
        out.add("param:" + pname)
    return out


def check(chk):
    repo = chk.repo
    idx = get_index(repo)
    chk.explanation = ("C08: whole-repository ownership of platform-driver actuation and hardware-rule installation; "
                       "provenance (def-use through private-method parameters and delay.add) of every PulseSettings / "
                       "HoldSettings argument from the verifying getter of the matching kind; on every feasible path "
                       "to a getter's return the upper-limit and lower-bound tests were false; configured maxima take "
                       "precedence; timed-off delay and max_hold_duration watchdog armed on the enabling path with "
                       "millisecond arguments, the watchdog not restartable. PSU wait arithmetic and timer races are not decided.")
    drv = repo.cls(DRV, "Driver")
    units = Units(repo, load_spec(repo))
    chk.expect(_selftest_dead(), "C08: DEAD-1 self-test (positive/negative example) failed")

    # -------------------------------------------------------------- OWN-9
    n_act = 0
    for u in idx.uses("hw_driver"):
        if u.store or u.relpath.startswith("mpf/platforms/") or u.relpath == "mpf/core/platform.py":
            continue
        p = u.parent
        if isinstance(p, ast.Attribute) and p.value is u.node:
            if p.attr in ACTUATE:
                n_act += 1
                ok = (u.relpath, u.scope) in ALLOWED_ACTUATORS
                chk.ob("OWN-9", "platform driver actuated (`.hw_driver.%s`) in %s" % (p.attr, u.scope), ok, u.where(),
                       detail="only Driver's verified paths may actuate a coil" if not ok else ALLOWED_ACTUATORS[(u.relpath, u.scope)],
                       construct=u.ident, text="hw_driver.%s" % p.attr)
            elif p.attr in HARMLESS_ATTRS:
                chk.ob("OWN-9", "hw_driver.%s in %s is not an actuation" % (p.attr, u.scope), True, u.where(), nontrivial=False)
            else:
                chk.ob("OWN-9", "unknown use hw_driver.%s in %s" % (p.attr, u.scope), False, u.where(),
                       detail="not in the table of harmless attributes", construct=u.ident, text="hw_driver.%s" % p.attr)
        else:
            # the object itself escapes: allowed as DriverSettings(hw_driver=...) in the rule helpers, comparisons, asserts
            ok = False
            if isinstance(p, ast.keyword) and p.arg == "hw_driver" and u.relpath == PC:
                ok = True
            elif isinstance(p, (ast.Compare, ast.Assert, ast.BoolOp, ast.UnaryOp, ast.If)):
                ok = True
            elif isinstance(p, ast.Call) and call_attr(p) in ("isinstance", "hasattr", "format", "str", "repr", "id") :
                ok = True
            elif isinstance(p, (ast.Tuple, ast.FormattedValue, ast.JoinedStr)):
                ok = True
            chk.ob("OWN-9", "hw_driver object does not escape to code that could actuate it (%s)" % u.scope, ok, u.where(),
                   detail="value use: %s" % short(p, 70), construct=u.ident, text="hw_driver escapes via " + type(p).__name__)
    chk.expect(n_act >= 6, "C08: fewer actuation sites than confirmed by hand (%d)" % n_act)
    # private actuation paths of Driver are reachable only from Driver itself
    for name in ("_pulse_now", "_enable_now"):
        for u in idx.uses(name):
            if u.store:
                continue
            ok = u.relpath == DRV and u.cls == "Driver" and u.recv_text == "self"
            chk.ob("OWN-9", "%s is used only inside Driver (%s)" % (name, u.scope), ok, u.where(), construct=u.ident,
                   text="use of " + name)

    # ------------------------------------------------------------- OWN-10
    RULES = ["set_pulse_on_hit_rule", "set_delayed_pulse_on_hit_rule", "set_pulse_on_hit_and_release_rule",
             "set_pulse_on_hit_and_enable_and_release_rule", "set_pulse_on_hit_and_release_and_disable_rule",
             "set_pulse_on_hit_and_enable_and_release_and_disable_rule"]
    n_rule = 0
    for r in RULES:
        for u in idx.uses(r):
            if u.call is None:
                continue
            rt = u.recv_text or ""
            if rt.endswith("platform_controller"):
                continue        # device -> controller (verifying) edge, see C10
            if u.relpath.startswith("mpf/platforms/"):
                continue        # a platform delegating to its own base / an overlaid sub-platform with the settings it was given
            n_rule += 1
            ok = u.relpath == PC and u.scope == "PlatformController." + r
            chk.ob("OWN-10", "platform.%s is called only by the verifying controller method of the same name" % r, ok,
                   u.where(), detail="receiver %s in %s" % (rt, u.scope), construct=u.ident, text="platform rule call " + r)
            if ok:
                f = u.func
                chk.analysed(f)
                # driver settings argument: produced by the verifying helpers in this function
                ds = [a for a in u.call.args if isinstance(a, ast.Name) and "driver" in a.id]
                good = False
                for a in ds:
                    defs = _local_defs(f.node, a.id)
                    good = bool(defs) and all(isinstance(d, ast.Call) and call_attr(d) in (
                        "_get_configured_driver_no_hold", "_get_configured_driver_with_hold") for d in defs)
                chk.ob("FLOW-3", "%s hands the platform DriverSettings from the verifying helpers" % r, good and len(ds) == 1,
                       u.where(), construct=u.ident, text="driver settings provenance in " + r)
                # hold rules use the with-hold helper
                needs_hold = "enable" in r
                defs = _local_defs(f.node, ds[0].id) if ds else []
                helper = call_attr(defs[0]) if defs and isinstance(defs[0], ast.Call) else None
                chk.ob("FLOW-3", "%s uses the %s helper" % (r, "with-hold" if needs_hold else "no-hold"),
                       helper == ("_get_configured_driver_with_hold" if needs_hold else "_get_configured_driver_no_hold"),
                       u.where(), construct=u.ident, text="helper kind in " + r)
    chk.expect(n_rule >= 4, "C08: platform rule call sites lost (%d)" % n_rule)

    # ------------------------------------------------------------- FLOW-3
    n_set = 0
    scopes = [drv.methods[m] for m in ("_pulse_now", "_enable_now", "timed_enable") if m in drv.methods]
    scopes += [repo.func(PC, "PlatformController._get_configured_driver_with_hold"),
               repo.func(PC, "PlatformController._get_configured_driver_no_hold")]
    chk.require(len(scopes) == 5, "C08: settings construction scopes vanished")
    for f in scopes:
        chk.analysed(f)
        for c in f.calls():
            cn = call_attr(c)
            if cn not in FIELD_POS:
                continue
            fields = {}
            for i, a in enumerate(c.args):
                if i < len(FIELD_POS[cn]):
                    fields[FIELD_POS[cn][i]] = a
            for k in c.keywords:
                if k.arg:
                    fields[k.arg] = k.value
            for fld, e in fields.items():
                want = FIELD_KIND.get((cn, fld))
                tags = _kind_of_expr(repo, f, e)
                n_set += 1
                ok = tags <= {"v:" + want, "const", "none"} and ("const" not in tags or const_value(e) in (0, 0.0))
                exempt = ""
                if not ok and f.name == "_pulse_now" and cn == "HoldSettings" and fld == "power" and tags == {"v:pulse_power"}:
                    # software-timed pulse: held at the verified *pulse* power until the timed_disable delay fires (PAIR-10)
                    ok = True
                    exempt = " (tabled: software-timed pulse, tied to PAIR-10)"
                chk.ob("FLOW-3", "%s.%s in %s comes from the verifying getter for %s%s" % (cn, fld, f.qualname, want, exempt), ok,
                       f.where(c), detail="provenance %s of `%s`" % (sorted(tags), short(e, 60)), construct=f.ident,
                       text="%s.%s <- %s" % (cn, fld, ",".join(sorted(tags))))
    chk.expect(n_set >= 12, "C08: fewer settings fields than confirmed by hand (%d)" % n_set)
    # getters are applied to the caller's value (not to None/default) in the public API
    for meth, pairs in (("pulse", [("get_and_verify_pulse_ms", "pulse_ms"), ("get_and_verify_pulse_power", "pulse_power")]),
                        ("enable", [("get_and_verify_pulse_ms", "pulse_ms"), ("get_and_verify_pulse_power", "pulse_power"),
                                    ("get_and_verify_hold_power", "hold_power")]),
                        ("timed_enable", [("get_and_verify_pulse_ms", "pulse_ms"), ("get_and_verify_pulse_power", "pulse_power"),
                                          ("get_and_verify_hold_power", "hold_power"),
                                          ("get_and_verify_timed_enable_ms", "timed_enable_ms")])):
        f = drv.methods.get(meth)
        chk.require(f is not None, "C08: Driver.%s vanished" % meth)
        chk.analysed(f)
        for g, p in pairs:
            cs = [c for c in f.calls() if call_attr(c) == g]
            ok = bool(cs) and all(len(c.args) == 1 and src(c.args[0]) == p for c in cs)
            chk.ob("FLOW-3", "Driver.%s verifies the requested %s" % (meth, p), ok, f.where(), detail="%s(%s)" % (
                g, ", ".join(src(a) for c in cs for a in c.args)), construct=f.ident, text="%s(%s)" % (g, p))

    # ------------------------------------------------------------- DOM-17 / DEAD-1
    LIMITS = {
        "get_and_verify_pulse_power": dict(v="pulse_power", upper=("max_pulse_power",), optional=False, cfg="max_pulse_power"),
        "get_and_verify_hold_power": dict(v="hold_power", upper=("max_hold_power",), optional=False, cfg="max_hold_power"),
        "get_and_verify_pulse_ms": dict(v="pulse_ms", upper=("self.config['max_pulse_ms']",), optional=True, cfg="max_pulse_ms"),
        "get_and_verify_timed_enable_ms": dict(v="timed_enable_ms", upper=("self.config['max_hold_duration']",), optional=True,
                                               cfg="max_hold_duration"),
    }
    for name, L in LIMITS.items():
        f = drv.methods.get(name)
        chk.require(f is not None, "C08: validator %s vanished" % name)
        chk.analysed(f)
        cfg = f.cfg()
        v = L["v"]
        rets = [n for n in cfg.nodes_where(lambda n: n.kind == "stmt" and isinstance(n.ast, ast.Return))]
        chk.ob("DOM-17", "%s returns the verified value" % name, bool(rets) and all(
            n.ast.value is not None and src(n.ast.value) == v for n in rets), f.where(), construct=f.ident, text="return " + v)
        up_tests = ["%s > %s" % (v, u_) for u_ in L["upper"]]
        for r in rets:
            paths = feasible_paths(cfg, cfg.entry.id, [r.id])
            chk.ob("DOM-17", "%s: a return is reachable" % name, bool(paths), f.where(r.ast), construct=f.ident, text="reachable return")
            bad_up = bad_low = None
            for path, fx in paths:
                up_ok = any(fx.get(t) is False for t in up_tests) or any(fx.get("%s <= %s" % (v, u_)) is True for u_ in L["upper"])
                if L["optional"] and fx.get("self.config['%s']" % L["cfg"]) is False:
                    up_ok = True
                if not up_ok and bad_up is None:
                    bad_up = path
                low_ok = fx.get("%s < 0" % v) is False or fx.get(v) is False or fx.get("%s >= 0" % v) is True or \
                    fx.get("0 <= %s" % v) is True or fx.get("0 > %s" % v) is False
                if not low_ok and bad_low is None:
                    bad_low = path
            chk.ob("DOM-17", "%s: every path to return has passed the upper-limit test (`%s`)" % (name, " / ".join(up_tests)),
                   bad_up is None, f.where(r.ast), path=cfg.fmt_path(bad_up, DRV) if bad_up else None,
                   detail="a value above the configured limit is returned", construct=f.ident, text="upper limit bypass")
            chk.ob("DOM-17", "%s: every path to return has refused a negative value" % name, bad_low is None, f.where(r.ast),
                   path=cfg.fmt_path(bad_low, DRV) if bad_low else None, detail="negative values are passed through",
                   construct=f.ident, text="lower bound bypass")
        # the true side of the upper-limit test raises DriverLimitsError
        for t in cfg.nodes:
            if t.kind == "branch" and t.value is True and src(t.ast) in up_tests:
                reach = cfg.reachable([t.id])
                raises = [n for n in cfg.nodes_where(lambda n: n.kind == "stmt" and isinstance(n.ast, ast.Raise)) if n.id in reach]
                ok = bool(raises) and cfg.exit.id not in reach and all("DriverLimitsError" in src(n.ast) for n in raises)
                chk.ob("DOM-17", "%s: exceeding the limit raises DriverLimitsError (no clamp, no pass-through)" % name, ok,
                       f.where(t.ast), construct=f.ident, text="upper limit raises")
        # power values: also refused above 1
        if "power" in v:
            ok = True
            for r in rets:
                for path, fx in feasible_paths(cfg, cfg.entry.id, [r.id]):
                    if not (fx.get("%s > 1" % v) is False or fx.get(v) is False or fx.get("%s <= 1" % v) is True):
                        ok = False
            chk.ob("DOM-17", "%s: a power above 1 is refused" % name, ok, f.where(), construct=f.ident, text="power above one")
        # limit precedence: a fallback limit only when the configured maximum is unset
        for n in cfg.nodes_where(lambda n: n.kind == "stmt" and isinstance(n.ast, ast.Assign)):
            t = dotted(n.ast.targets[0])
            if t in L["upper"] and not (isinstance(n.ast.value, ast.Constant) and n.ast.value.value == 0):
                rhs = src(n.ast.value)
                g = cfg.guards_at(n.id)
                cfg_key = "self.config['%s']" % L["cfg"]
                if rhs == cfg_key:
                    ok = g.get(cfg_key) is True
                    what = "the configured %s is used when set" % L["cfg"]
                else:
                    ok = g.get(cfg_key) is False
                    what = "fallback limit `%s` applies only when %s is not configured" % (rhs, L["cfg"])
                    if isinstance(n.ast.value, ast.Constant):
                        # an unconditional full-power fallback is the permission to hold: only with allow_enable
                        ok = ok and g.get("self.config['allow_enable']") is True
                        what = "the constant fallback limit %s is granted only by allow_enable (and only without a configured %s)" % (rhs, L["cfg"])
                    elif rhs.startswith("self.config["):
                        ok = ok and g.get(rhs) is True
                chk.ob("DOM-17", "%s: %s" % (name, what), ok, f.where(n.ast), detail="guards %s" % sorted(g.items()),
                       construct=f.ident, text="limit source %s" % rhs)
        # type check for the two duration getters
        if v.endswith("_ms"):
            ok = any(isinstance(x, ast.Call) and call_attr(x) == "isinstance" and src(x.args[0]) == v for x in ast.walk(f.node))
            chk.ob("DOM-17", "%s checks the type of the value" % name, ok, f.where(), construct=f.ident, text="isinstance check")
        # DEAD-1
        for x in ast.walk(f.node):
            if isinstance(x, ast.Compare) and len(x.ops) >= 2:
                why = _dead_chain(x)
                chk.ob("DEAD-1", "limit guard `%s` in %s can fire" % (short(x, 60), name), why is None, f.where(x),
                       detail=why or "", construct=f.ident, text="dead guard " + short(x, 60))
    chk.floor("DOM-17", 20)
    # DEAD-1 over the whole driver module (chained comparisons are rare; each is checked)
    for f in drv.methods.values():
        for x in ast.walk(f.node):
            if isinstance(x, ast.Compare) and len(x.ops) >= 2 and f.name not in LIMITS:
                why = _dead_chain(x)
                chk.ob("DEAD-1", "chained comparison `%s` in %s is satisfiable" % (short(x, 60), f.qualname), why is None,
                       f.where(x), detail=why or "", construct=f.ident, text="dead guard " + short(x, 60))

    # the watchdog that enforces max_hold_duration is forgotten only after the coil has been switched off: disable() calls the platform first -
    # if that call fails the coil is still energised and the watchdog is its last line of defence
    dsf = drv.methods["disable"]
    dcf = dsf.cfg()
    hw_off = [n for n, c in dcf.calls_named("disable") if src(c.func.value) == "self.hw_driver"]
    wd_rm = [n for n, c in dcf.calls_named("remove") if "delay" in src(c.func.value) and c.args and const_value(c.args[0]) == "enable_limit_reached"]
    ok_ = bool(hw_off) and bool(wd_rm) and all(dcf.dominates(h.id, r.id) for h in hw_off for r in wd_rm)
    chk.ob("PAIR-10", "disable() switches the coil off before it forgets the max_hold_duration watchdog", ok_, dsf.where(), construct=dsf.ident,
           detail="removed first, a failing platform call leaves the coil on with nothing left to switch it off", text="watchdog removed before switch-off")
    # ------------------------------------------------------------- DOM-17 (refused, never clamped)
    # a request beyond a configured limit is refused (DriverLimitsError in the verifying getters), never quietly reduced to the limit: no
    # device that drives coils (drivers, flippers, autofires, kickbacks, the platform controller) bounds a value with min()/max() against a
    # max_* setting of a coil on its way to the getters - a clamp hides the misconfiguration the limit exists to report
    LIM = ("max_pulse_ms", "max_pulse_power", "max_hold_power", "max_hold_duration")
    n_cl = 0
    for rel_ in ("mpf/devices/driver.py", "mpf/devices/flipper.py", "mpf/devices/autofire.py", "mpf/devices/kickback.py", "mpf/core/platform_controller.py",
                 "mpf/platforms/driver_light_platform.py", "mpf/devices/dual_wound_coil.py"):
        if rel_ not in repo.modules:
            continue
        for fn_ in repo.modules[rel_].all_funcs():
            n_cl += 1
            for c_ in fn_.calls():
                if isinstance(c_.func, ast.Name) and c_.func.id in ("min", "max") and any(l_ in src(c_) for l_ in LIM):
                    chk.ob("DOM-17", "a value beyond a coil's configured limit is refused, not clamped to the limit", False, fn_.where(c_),
                           detail="%s bounds a value with %s: the verifying getter downstream never sees the excess" % (fn_.qualname, short(c_, 70)),
                           construct=fn_.ident, text="clamp against a coil limit in " + fn_.name)
    chk.ob("DOM-17", "functions of the coil-driving devices examined for clamps against max_* limits (%d)" % n_cl, n_cl >= 50, "mpf/devices/driver.py:1", nontrivial=False)
    # ------------------------------------------------------------- PAIR-10
    from sa.helpers import delay_add_only_schedules
    delay_add_only_schedules(chk, "PAIR-10")
    f = drv.methods["_pulse_now"]
    cfg = f.cfg()
    en = [(n, c) for n, c in cfg.calls_named("enable") if src(c.func.value) == "self.hw_driver"]
    chk.expect(bool(en), "C08: software-timed enable vanished from _pulse_now")
    offs = [(n, c) for n, c in cfg.calls_named("add", "reset") if src(c.func.value) == "self.delay" and
            kwarg(c, "callback") is not None and src(kwarg(c, "callback")) == "self.disable"]
    for n, c in en:
        ok = any(cfg.dominates(o.id, n.id) for o, _ in offs) or (
            offs and cfg.must_pass(n.id, [o.id for o, _ in offs], ends=[cfg.exit.id, cfg.raise_.id], ignore_exc=False) is None)
        chk.ob("PAIR-10", "a software-timed pulse arms its switch-off delay on the same path", ok, f.where(c),
               detail="hw_driver.enable without a delay calling self.disable: the coil stays on", construct=f.ident,
               text="timed off armed")
        chk.ob("PAIR-10", "the switch-off is armed before the coil is switched on (nothing that happens in between can leave it on)",
               any(cfg.dominates(o.id, n.id) for o, _ in offs), f.where(c), construct=f.ident, text="timed off armed after switching on")
    for o, c in offs:
        ms = kwarg(c, "ms") or (c.args[0] if c.args else None)
        ok = ms is not None and src(ms) == "pulse_ms"
        chk.ob("PAIR-10", "the switch-off delay lasts exactly the verified pulse_ms (milliseconds)", ok, f.where(c),
               detail="ms=%s" % src(ms), construct=f.ident, text="timed off duration " + src(ms))
    pl = [(n, c) for n, c in cfg.calls_named("pulse") if src(c.func.value) == "self.hw_driver"]
    for n, c in pl:
        g = cfg.guards_at(n.id)
        ok = any("max_pulse" in k and v is True and "pulse_ms" in k for k, v in g.items())
        chk.ob("PAIR-10", "a hardware pulse is used only within the platform's max_pulse", ok, f.where(c),
               detail="guards %s" % sorted(g.items()), construct=f.ident, text="hardware pulse guard")
    f = drv.methods["_enable_now"]
    cfg = f.cfg()
    en = [(n, c) for n, c in cfg.calls_named("enable") if src(c.func.value) == "self.hw_driver"]
    wd = [(n, c) for n, c in cfg.calls_named("add", "reset", "add_if_doesnt_exist") if src(c.func.value) == "self.delay"
          and "_enable_limit_reached" in src(c)]
    chk.ob("PAIR-10", "max_hold_duration watchdog exists", bool(wd), f.where(), construct=f.ident, text="watchdog present")
    for n, c in en:
        nolimit = [b.id for b in cfg.nodes if b.kind == "branch" and src(b.ast) == "self.config['max_hold_duration']" and b.value is False]
        # `if not self.delay.check(name): add(...)`: the other side means the watchdog is already running
        nolimit += [b.id for b in cfg.nodes if b.kind == "branch" and "delay.check(" in src(b.ast) and b.value is True]
        w = cfg.must_pass(n.id, [x.id for x, _ in wd] + nolimit) if not any(cfg.dominates(x.id, n.id) for x, _ in wd) else None
        chk.ob("PAIR-10", "enabling a coil with max_hold_duration arms the watchdog on every path", w is None, f.where(c),
               path=cfg.fmt_path(w, DRV) if w else None, construct=f.ident, text="watchdog armed")
    # ... and at once: between switching the coil on and arming its watchdog nothing runs that can fail (a notification that raises would leave
    # the coil on with no limit).  Only the test of the configured limit may lie between the two.
    for n, c in en:
        for x, _ in wd:
            if cfg.dominates(x.id, n.id):
                continue
            between = [b for b in cfg.nodes if b.id not in (n.id, x.id) and b.kind in ("stmt", "test", "with", "loop") and
                       cfg.path_avoiding(n.id, [b.id], [x.id]) is not None and cfg.path_avoiding(b.id, [x.id], [n.id]) is not None]
            # (queries of the delay manager itself - `if not self.delay.check(name)` - belong to the arming)
            risky = [b for b in between if [c_ for c_ in b.calls() if not (isinstance(c_.func, ast.Attribute) and src(c_.func.value) == "self.delay")]
                     and not cfg._only_logs(b)]
            chk.ob("PAIR-10", "nothing that can fail runs between switching the coil on and arming its max_hold_duration watchdog", not risky,
                   f.where(risky[0].ast) if risky else f.where(c), detail="`%s` runs first: if it raises the coil stays on without a limit"
                   % (short(risky[0].ast, 80) if risky else ""), construct=f.ident, text="call between enable and watchdog")
    for n, c in wd:
        ms = kwarg(c, "ms") or (c.args[0] if c.args else None)
        d = units.dim(ms, f, units.env_for(f))
        chk.ob("UNIT-2", "watchdog delay is given in milliseconds (max_hold_duration is seconds)", d == MS, f.where(c),
               detail="%s : %s" % (src(ms), d), construct=f.ident, text="watchdog unit " + src(ms))
        restartable = call_attr(c) in ("add", "reset")
        if restartable:
            g = cfg.guards_at(n.id)
            restartable = not any("delay.check" in k and v is False for k, v in g.items())
        chk.ob("PAIR-10", "the watchdog is not restarted by a repeated enable (limit counts from the first enable)",
               not restartable, f.where(c), detail="`%s` re-arms on every enable: periodic enables hold the coil forever" % call_attr(c),
               construct=f.ident, text="watchdog restartable via " + call_attr(c))
        nm = kwarg(c, "name") or (c.args[2] if len(c.args) > 2 else None)
        rm = [x for x in drv.methods["disable"].calls() if call_attr(x) == "remove" and nm is not None and src(nm) in src(x)]
        chk.ob("PAIR-10", "disable() forgets the watchdog (a later enable gets a full period)", bool(rm), f.where(c),
               construct=f.ident, text="watchdog removed on disable")
    g_ = drv.methods.get("_enable_limit_reached")
    chk.require(g_ is not None, "C08: _enable_limit_reached vanished")
    ok = any(call_attr(c) == "disable" and src(c.func.value) == "self" for c in g_.calls())
    chk.ob("PAIR-10", "the watchdog switches the coil off", ok, g_.where(), construct=g_.ident, text="watchdog disables")
    # who may cancel a safety timer: the delays that switch the coil off ('timed_disable' of a software-timed pulse, the
    # max_hold_duration watchdog) are cancelled only on a path that itself switches the coil off, or by the code that re-arms
    # them together with a new actuation
    safety_names = set()
    for m_ in drv.methods.values():
        for c in m_.calls():
            if call_attr(c) in ("add", "reset", "add_if_doesnt_exist") and src(c.func.value) == "self.delay":
                cb = kwarg(c, "callback") or (c.args[1] if len(c.args) > 1 else None)
                nm = kwarg(c, "name") or (c.args[2] if len(c.args) > 2 else None)
                if cb is not None and src(cb) in ("self.disable", "self._enable_limit_reached") and nm is not None and isinstance(const_value(nm), str):
                    safety_names.add(const_value(nm))
    chk.ob("PAIR-10", "the coil's switch-off timers are named (so that only disable() can cancel them)", len(safety_names) >= 2, drv.where(),
           detail=str(sorted(safety_names)), construct=drv.ident, text="safety timer names", nontrivial=False)
    n_cancel = 0
    for c_ in repo.all_classes("mpf/devices/"):
        if not repo.is_subclass(c_, drv) and c_ is not drv:
            continue
        for m_ in c_.methods.values():
            mcfg = m_.cfg()
            for n, c in [(n, c) for n, c in mcfg.calls_named("remove", "clear", "run_now") if src(c.func.value) == "self.delay"]:
                tgt = const_value(c.args[0]) if c.args else (const_value(kwarg(c, "name")) if kwarg(c, "name") is not None else None)
                if call_attr(c) != "clear" and tgt not in safety_names:
                    continue
                n_cancel += 1
                offs_ = [x.id for x, cc in mcfg.calls_named("disable") if src(cc.func.value) == "self.hw_driver"]
                ok = bool(offs_) and (any(mcfg.dominates(o, n.id) for o in offs_) or mcfg.must_pass(n.id, offs_, ignore_exc=True) is None)
                chk.ob("PAIR-10", "%s cancels the switch-off timer `%s` only together with switching the coil off" % (m_.qualname, tgt or "*"),
                       ok, m_.where(c), detail="a cancelled timer with the coil still on leaves it energised for ever (e.g. when a later check refuses the request)",
                       construct=m_.ident, text="safety timer %s cancelled in %s without hw disable" % (tgt or "*", m_.name))
    chk.ob("PAIR-10", "cancellation sites of the switch-off timers examined", n_cancel >= 1, drv.where(), detail="%d" % n_cancel, nontrivial=False)
    f = drv.methods["disable"]
    cfg = f.cfg()
    off = [n.id for n, c in cfg.calls_named("disable") if src(c.func.value) == "self.hw_driver"]
    w = cfg.must_pass(cfg.entry.id, off, ignore_exc=True)
    chk.ob("PAIR-10", "disable() always reaches hw_driver.disable()", bool(off) and w is None, f.where(), construct=f.ident,
           text="disable reaches hardware")
    # enable refuses a coil that may not be held
    f = drv.methods["enable"]
    cfg = f.cfg()
    outs = [(n, c) for n, c in cfg.calls_named("_enable_now")] + [(n, c) for n, c in cfg.calls_named("add") if "_enable_now" in src(c)]
    chk.expect(len(outs) >= 1, "C08: enable() hand-off sites lost")
    for n, c in outs:
        g = cfg.guards_at(n.id)
        ok = g.get("hold_power == 0.0") is False or g.get("hold_power == 0") is False or g.get("not hold_power") is False or \
            g.get("hold_power") is True
        chk.ob("PAIR-10", "a coil whose configuration does not allow holding (hold power 0) is never enabled", ok, f.where(c),
               detail="guards %s" % sorted(g.items()), construct=f.ident, text="hold 0 refused")
    f = repo.func(PC, "PlatformController._get_configured_driver_with_hold")
    cfg = f.cfg()
    for n in cfg.nodes_where(lambda n: n.kind == "stmt" and isinstance(n.ast, ast.Return)):
        g = cfg.guards_at(n.id)
        chk.ob("PAIR-10", "a hold rule is refused for a coil that may not be held", g.get("hold_power == 0.0") is False, f.where(n.ast),
               construct=f.ident, text="hold rule 0 refused")
    chk.floor("PAIR-10", 8)

    # -------------------------------------------------------------- SIB-2
    for ev, target, params in (("event_enable", "enable", ["pulse_ms", "pulse_power", "hold_power"]),
                               ("event_pulse", "pulse", ["pulse_ms", "pulse_power", "max_wait_ms"]),
                               ("event_timed_enable", "timed_enable", ["timed_enable_ms", "hold_power", "pulse_ms", "pulse_power", "max_wait_ms"]),
                               ("event_disable", "disable", [])):
        f = drv.methods.get(ev)
        chk.require(f is not None, "C08: Driver.%s vanished" % ev)
        calls = [c for c in f.calls() if isinstance(c.func, ast.Attribute) and dotted(c.func.value) == "self"]
        ok = len(calls) == 1 and call_attr(calls[0]) == target
        chk.ob("SIB-2", "control event %s goes through the verifying %s()" % (ev, target), ok, f.where(), construct=f.ident,
               text="%s -> %s" % (ev, ",".join(call_attr(c) for c in calls)))
        if ok and params:
            tparams = [p for p in drv.methods[target].params() if p != "self"]
            good = True
            for i, a in enumerate(calls[0].args):
                if i < len(tparams) and isinstance(a, ast.Name) and a.id in params and a.id != tparams[i]:
                    good = False
            for k in calls[0].keywords:
                if k.arg and isinstance(k.value, ast.Name) and k.value.id in params and k.value.id != k.arg:
                    good = False
            chk.ob("SIB-2", "%s forwards each parameter to the parameter of the same name" % ev, good, f.where(calls[0]),
                   detail="call %s vs %s(%s)" % (short(calls[0]), target, ", ".join(tparams)), construct=f.ident,
                   text="param mapping " + short(calls[0], 90))
    chk.floor("SIB-2", 5)


def battery():
    from sa.battery import M
    D = DRV
    return [
        M("watchdog armed after the BCP notification", DRV, "        if self.config['max_hold_duration']:\n            self.delay.add_if_doesnt_exist(self.config['max_hold_duration'] * 1000, self._enable_limit_reached,\n                                           \"enable_limit_reached\")\n\n        # inform bcp clients\n        self.machine.bcp.interface.send_driver_event(action=\"enable\", name=self.name, number=self.config['number'],\n                                                     pulse_ms=pulse_ms, pulse_power=pulse_power, hold_power=hold_power)\n", "        # inform bcp clients\n        self.machine.bcp.interface.send_driver_event(action=\"enable\", name=self.name, number=self.config['number'],\n                                                     pulse_ms=pulse_ms, pulse_power=pulse_power, hold_power=hold_power)\n\n        if self.config['max_hold_duration']:\n            self.delay.add_if_doesnt_exist(self.config['max_hold_duration'] * 1000, self._enable_limit_reached,\n                                           \"enable_limit_reached\")\n", "PAIR-10"),
        M("watchdog forgotten before the coil is switched off", "mpf/devices/driver.py", "        self.hw_driver.disable()\n        self.delay.remove(\"enable_limit_reached\")", "        self.delay.remove(\"enable_limit_reached\")\n        self.hw_driver.disable()", "PAIR-10"),
        M("flipper pulse clamped to the coil's limit", "mpf/devices/flipper.py", "            return int(pulse_ms * settings_factor)\n", "            pulse_ms = int(pulse_ms * settings_factor)\n            if self.config['main_coil'].config['max_pulse_ms']:\n                pulse_ms = min(pulse_ms, self.config['main_coil'].config['max_pulse_ms'])\n", "DOM-17"),
        M("zero-length delay runs at once", "mpf/core/delays.py", "        self.delays[name] = (self.machine.clock.schedule_once(\n            partial(self._process_delay_callback, name, callback, **kwargs),", "        if ms <= 0:\n            self._process_delay_callback(name, callback, **kwargs)\n            return name\n        self.delays[name] = (self.machine.clock.schedule_once(\n            partial(self._process_delay_callback, name, callback, **kwargs),", "PAIR-10"),
        M("zero-length delay calls the callback", "mpf/core/delays.py", "        self.delays[name] = (self.machine.clock.schedule_once(\n            partial(self._process_delay_callback, name, callback, **kwargs),", "        if not ms:\n            callback(**kwargs)\n        self.delays[name] = (self.machine.clock.schedule_once(\n            partial(self._process_delay_callback, name, callback, **kwargs),", "PAIR-10"),
        M("dead guard pulse_power", D, "if pulse_power and (pulse_power < 0 or pulse_power > 1):", "if pulse_power and 0 > pulse_power > 1:", ("DEAD-1", "DOM-17")),
        M("negative pulse_ms accepted", D, "        if pulse_ms < 0:\n            raise AssertionError(\"Pulse_ms {} is not valid.\".format(pulse_ms))\n", "", "DOM-17"),
        M("negative timed_enable accepted", D, "        if timed_enable_ms < 0:\n            raise AssertionError(\"Timed_enable_ms {} is not valid.\".format(timed_enable_ms))\n", "", "DOM-17"),
        M("pulse power limit compares >=1 only", D, "        if pulse_power > max_pulse_power:\n            raise DriverLimitsError", "        if pulse_power > max_pulse_power and pulse_power > 1:\n            raise DriverLimitsError", "DOM-17"),
        M("limit clamped instead of refused", D, "        if hold_power > max_hold_power:\n            raise DriverLimitsError(\"Driver {} may not be enabled with hold_power {} because max_hold_power is {}\".\n                                    format(self.name, hold_power, max_hold_power))\n        return hold_power", "        if hold_power > max_hold_power:\n            hold_power = max_hold_power\n        return hold_power", "DOM-17"),
        M("allow_enable overrides max_hold_power", D, "        if self.config['max_hold_power']:\n            max_hold_power = self.config['max_hold_power']\n        elif self.config['allow_enable']:\n            max_hold_power = 1.0\n", "        if self.config['allow_enable']:\n            max_hold_power = 1.0\n        elif self.config['max_hold_power']:\n            max_hold_power = self.config['max_hold_power']\n", "DOM-17"),
        M("max_pulse_ms check skipped for explicit values", D, "        if self.config['max_pulse_ms'] and pulse_ms > self.config['max_pulse_ms']:", "        if self.config['max_pulse_ms'] and pulse_ms is None and pulse_ms > self.config['max_pulse_ms']:", "DOM-17"),
        M("enable uses unverified pulse power", D, "        pulse_power = self.get_and_verify_pulse_power(pulse_power)\n        hold_power = self.get_and_verify_hold_power(hold_power)\n\n        if hold_power == 0.0:", "        hold_power = self.get_and_verify_hold_power(hold_power)\n\n        if hold_power == 0.0:", "FLOW-3"),
        M("hold verified as pulse power", D, "        hold_power = self.get_and_verify_hold_power(hold_power)\n\n        if hold_power == 0.0:", "        hold_power = self.get_and_verify_pulse_power(hold_power)\n\n        if hold_power == 0.0:", "FLOW-3"),
        M("timed_enable verifies default not request", D, "hold_duration = self.get_and_verify_timed_enable_ms(timed_enable_ms)", "hold_duration = self.get_and_verify_timed_enable_ms(None)", "FLOW-3"),
        M("delayed pulse passes raw value", D, "self.delay.add(wait_ms, self._pulse_now, pulse_ms=pulse_ms, pulse_power=pulse_power)", "self.delay.add(wait_ms, self._pulse_now, pulse_ms=pulse_ms + wait_ms, pulse_power=pulse_power)", "FLOW-3"),
        M("rule helper skips verification", PC, "pulse_power = driver.driver.get_and_verify_pulse_power(pulse_setting.power if pulse_setting else None)\n        hold_power", "pulse_power = pulse_setting.power if pulse_setting else 1.0\n        hold_power", "FLOW-3"),
        M("hold rule via no-hold helper", PC, "        driver_settings = self._get_configured_driver_with_hold(driver, pulse_setting, hold_settings)\n        repulse_settings, software_eos_handler", "        driver_settings = self._get_configured_driver_no_hold(driver, pulse_setting)\n        repulse_settings, software_eos_handler", "FLOW-3"),
        M("ejector actuates hardware directly", "mpf/devices/ball_device/pulse_coil_ejector.py", "    async def eject_one_ball(", "    def _kick(self):\n        self.config['eject_coil'].hw_driver.pulse(None)\n\n    async def eject_one_ball(", "OWN-9"),
        M("device calls private pulse", "mpf/devices/flipper.py", "    def sw_release(self):", "    def _sw_kick(self):\n        self.config['main_coil']._pulse_now(10, 1.0)\n\n    def sw_release(self):", "OWN-9"),
        M("device installs platform rule directly", "mpf/devices/autofire.py", "    def disable(self):", "    def _raw_rule(self, a, b):\n        self._platform.set_pulse_on_hit_rule(a, b)\n\n    def disable(self):", "OWN-10"),
        M("software pulse without off delay", D, "            self.delay.reset(name='timed_disable',\n                             ms=pulse_ms,\n                             callback=self.disable)\n", "", "PAIR-10"),
        M("off delay in seconds", D, "            self.delay.reset(name='timed_disable',\n                             ms=pulse_ms,", "            self.delay.reset(name='timed_disable',\n                             ms=pulse_ms / 1000,", "PAIR-10"),
        M("watchdog restarts on every enable", D, "self.delay.add_if_doesnt_exist(self.config['max_hold_duration'] * 1000, self._enable_limit_reached,\n                                           \"enable_limit_reached\")", "self.delay.reset(name=\"enable_limit_reached\", ms=self.config['max_hold_duration'] * 1000,\n                             callback=self._enable_limit_reached)", "PAIR-10"),
        M("watchdog in seconds", D, "self.delay.add_if_doesnt_exist(self.config['max_hold_duration'] * 1000,", "self.delay.add_if_doesnt_exist(self.config['max_hold_duration'],", "UNIT-2"),
        M("watchdog only logs", D, "        self.disable()\n        self.machine.service.add_technical_alert(self, \"Reached max_hold_duration", "        self.machine.service.add_technical_alert(self, \"Reached max_hold_duration", "PAIR-10"),
        M("hold 0 check dropped", D, "        if hold_power == 0.0:\n            raise DriverLimitsError(\"Cannot enable driver with hold_power 0.0\")\n", "", "PAIR-10"),
        M("event_pulse bypasses verification", D, "        self.pulse(pulse_ms, pulse_power, max_wait_ms)", "        self._pulse_now(pulse_ms, pulse_power)", ("SIB-2", "FLOW-3")),
        M("event_enable swaps powers", D, "        self.enable(pulse_ms, pulse_power, hold_power)", "        self.enable(pulse_ms, hold_power, pulse_power)", "SIB-2"),
        # twins
        M("enable() cancels a running software pulse's switch-off before it has verified anything", DRV, "        assert self.hw_driver is not None\n        pulse_ms = self.get_and_verify_pulse_ms(pulse_ms)\n        wait_ms = self._notify_psu_and_get_wait_ms(pulse_ms, max_wait_ms)\n\n        pulse_power = self.get_and_verify_pulse_power(pulse_power)\n        hold_power", "        assert self.hw_driver is not None\n        self.delay.remove('timed_disable')\n        pulse_ms = self.get_and_verify_pulse_ms(pulse_ms)\n        wait_ms = self._notify_psu_and_get_wait_ms(pulse_ms, max_wait_ms)\n\n        pulse_power = self.get_and_verify_pulse_power(pulse_power)\n        hold_power", "PAIR-10"),
        M("pulse clears all delays", DRV, "        assert self.hw_driver is not None\n        assert self.platform is not None\n        # If this driver pulses via timed_enable, call that instead", "        assert self.hw_driver is not None\n        assert self.platform is not None\n        self.delay.clear()\n        # If this driver pulses via timed_enable, call that instead", "PAIR-10"),
        M("hold limit 1.0 without allow_enable", DRV, "        elif self.config['allow_enable']:\n            max_hold_power = 1.0", "        elif self.config['allow_enable'] or not self.config['default_hold_power']:\n            max_hold_power = 1.0", "DOM-17"),
        M("twin: 0 <= x <= 1 style guard", D, "if pulse_power and (pulse_power < 0 or pulse_power > 1):", "if pulse_power and (pulse_power > 1 or pulse_power < 0):", None),
        M("twin: keyword construction", D, "self.hw_driver.timed_enable(PulseSettings(pulse_power, pulse_duration),\n                                    HoldSettings(hold_power, hold_duration))", "self.hw_driver.timed_enable(PulseSettings(power=pulse_power, duration=pulse_duration),\n                                    HoldSettings(power=hold_power, duration=hold_duration))", None),
        M("twin: delay before enable already", D, "self.info_log(\"Enabling Driver for %sms (%s pulse_power)\", pulse_ms, pulse_power)", "self.debug_log(\"Enabling Driver for %sms (%s pulse_power)\", pulse_ms, pulse_power)", None),
        M("twin: guarded add for watchdog", D, "            self.delay.add_if_doesnt_exist(self.config['max_hold_duration'] * 1000, self._enable_limit_reached,\n                                           \"enable_limit_reached\")", "            if not self.delay.check(\"enable_limit_reached\"):\n                self.delay.add(self.config['max_hold_duration'] * 1000, self._enable_limit_reached,\n                               \"enable_limit_reached\")", None),
        M("software-timed pulse switches the coil on before arming the switch-off", DRV, "            self.delay.reset(name='timed_disable',\n                             ms=pulse_ms,\n                             callback=self.disable)\n            self.hw_driver.enable(PulseSettings(power=pulse_power, duration=0),\n                                  HoldSettings(power=pulse_power))", "            self.hw_driver.enable(PulseSettings(power=pulse_power, duration=0),\n                                  HoldSettings(power=pulse_power))\n            self.delay.reset(name='timed_disable',\n                             ms=pulse_ms,\n                             callback=self.disable)", "PAIR-10"),
    ]


def thorough(chk):
    from sa.battery import run_battery
    run_battery(chk, battery())
