"""C11 — player state isolation (structural clauses).

OWN-13  Player.vars is written only inside player.py (everything else goes through the change event)
DOM-21  payload of the player-variable change event
PAIR-12 every per-player reference a mode device takes when it is loaded is dropped, on every path, when the mode unloads it
        (or, for the tabled Timer, everything that could use it is stopped on every path)
FLOW-4  state put into a player by a device is a fresh object / immutable
DOM-22  a new game builds new players; turn start/end set and clear mode.player
"""
import ast

from sa.model import src, short, dotted, call_attr, kwarg, walk_local, AnalysisError, const_value, assigned_targets
from sa.index import get_index

PL = "mpf/core/player.py"
MC = "mpf/core/mode_controller.py"

# classes whose per-player reference is *not* reset on unload, with the reason that makes it harmless and the
# steps that reason depends on (checked as must-pass on every path of device_removed_from_mode)
TABLED = {
    ("mpf/devices/timer.py", "Timer", "player"): ("the timer is stopped (tick task and pending pause delay cancelled) and its control events are "
                                                  "removed, so nothing can read self.player afterwards", ["stop", "_remove_control_events"]),
}
FRESH_CALLS = {"dict", "list", "set", "LogicBlockState", "deque", "OrderedDict", "defaultdict", "deepcopy", "copy"}


def check(chk):
    repo = chk.repo
    idx = get_index(repo)
    chk.explanation = ("C11: who-may-write for Player.vars; event payload of Player.__setattr__; every attribute a mode device binds "
                       "to the player in device_loaded_in_mode is reset on every path of device_removed_from_mode (whole repository, "
                       "discovered, plus tabled exception with its preconditions); freshness of device state stored in players; new "
                       "players per game. Value equality across turns for arbitrary devices is not decided.")
    # ------------------------------------------------------------ OWN-13
    n_v = 0
    for u in idx.uses("vars"):
        rt = u.recv_text or ""
        if not (rt.endswith("player") or rt == "self" and u.relpath == PL and u.cls == "Player"):
            continue
        p = u.parent
        mut = u.store
        if isinstance(p, ast.Subscript) and isinstance(p.ctx, (ast.Store, ast.Del)):
            mut = True
        if isinstance(p, ast.Attribute) and p.attr in ("update", "pop", "clear", "setdefault", "popitem", "__setitem__"):
            mut = True
        n_v += 1
        if mut:
            chk.ob("OWN-13", "player variables are written only through the Player API (%s)" % u.scope, u.relpath == PL and u.cls == "Player",
                   u.where(), detail="a direct write to player.vars skips the player_<var> change event", construct=u.ident,
                   text="player.vars store in " + u.scope)
    chk.expect(n_v >= 8, "C11: uses of player.vars lost")
    chk.ob("OWN-13", "uses of Player.vars examined", True, PL + ":1", nontrivial=False)

    # ------------------------------------------------------------ DOM-21
    f = repo.func(PL, "Player.__setattr__")
    chk.analysed(f)
    cfg = f.cfg()
    allprev = [n for n in cfg.nodes_where(lambda n: n.kind == "stmt" and isinstance(n.ast, ast.Assign) and src(n.ast.targets[0]) == "prev_value")]
    store = [n for n in cfg.nodes_where(lambda n: n.kind == "stmt" and isinstance(n.ast, ast.Assign) and src(n.ast.targets[0]) == "self.vars[name]")]
    chk.need(allprev and store, "DOM-21", "Player.__setattr__ reads the previous value and stores the new one", f)
    # the previous value is the stored value itself whenever one is stored ('' and 0.0 are values), and 0 only for a variable that is new
    exact = [n for n in allprev if src(n.ast.value) == "self.vars[name]" and cfg.guards_at(n.id).get("name in self.vars") is True] + \
            [n for n in allprev if src(n.ast.value).replace(" ", "") == "self.vars.get(name,0)"]
    other = [n for n in allprev if n not in exact and not (isinstance(n.ast.value, ast.Constant) and n.ast.value.value == 0)]
    chk.ob("DOM-21", "the previous value handed to the event is the stored value itself (0 only for a variable that did not exist)", bool(exact) and not other,
           f.where(other[0].ast) if other else f.where(), detail="; ".join(short(n.ast, 60) for n in other), construct=f.ident, text="previous value source")
    ne = [n for n in cfg.nodes_where(lambda n: n.kind == "stmt" and isinstance(n.ast, ast.Assign) and src(n.ast.targets[0]) == "new_entry")]
    ok_ne = any((src(n.ast.value) == "True" and cfg.guards_at(n.id).get("name in self.vars") is False) or src(n.ast.value).replace(" ", "") == "namenotinself.vars" for n in ne)
    chk.ob("DOM-21", "a variable counts as new exactly when it was not stored before", ok_ne, f.where(), construct=f.ident, text="new entry test")
    prev = exact or allprev
    ok = not any(cfg.path_avoiding(store[0].id, [p_.id], []) for p_ in prev)
    chk.ob("DOM-21", "the previous value is read before the new one is stored", ok, f.where(), construct=f.ident, text="prev before store")
    chk.ob("DOM-21", "the new value is stored under its own name", src(store[0].ast.value) == "value", f.where(store[0].ast), construct=f.ident,
           text="store value")
    ev = [(n, c) for n, c in cfg.calls_named("_send_variable_event")]
    chk.need(ev, "DOM-21", "Player.__setattr__ posts the change event", f)
    for n, c in ev:
        args = [src(a) for a in c.args]
        ok = args == ["name", "self.vars[name]", "prev_value", "change", "self.vars['number']"]
        chk.ob("DOM-21", "the change event carries (name, new value, previous value, change, player number)", ok, f.where(c), detail=str(args),
               construct=f.ident, text="event args " + ",".join(args))
        chk.ob("DOM-21", "the event is posted after the store", cfg.dominates(store[0].id, n.id), f.where(c), construct=f.ident, text="event after store")
        g = cfg.guards_at(n.id)
        ok = g.get("self._events_enabled") is True and g.get("isinstance(value, (int, str, float))") is True
        chk.ob("DOM-21", "the event is posted for simple values once events are enabled", ok, f.where(c), detail="guards %s" % sorted(g.items()),
               construct=f.ident, text="event guards")
    ch = [n for n in cfg.nodes_where(lambda n: n.kind == "stmt" and isinstance(n.ast, ast.Assign) and src(n.ast.targets[0]) == "change")]
    vals = sorted(src(n.ast.value).replace(" ", "") for n in ch)
    chk.ob("DOM-21", "change = value - previous value (or 'differs' for non-numeric values)", vals == ["prev_value!=value", "value-prev_value"], f.where(),
           detail=str(vals), construct=f.ident, text="change expr " + ";".join(vals))
    g_ = repo.func(PL, "Player._send_variable_event")
    posts = [c for c in g_.calls() if call_attr(c) == "post"]
    ok = bool(posts) and src(posts[0].args[0]).replace(" ", "") == "'player_'+name" and \
        {k.arg: src(k.value) for k in posts[0].keywords if k.arg} == {"value": "value", "prev_value": "prev_value", "change": "change", "player_num": "player_num"}
    chk.ob("DOM-21", "player_<name> is posted with value / prev_value / change / player_num mapped one to one", ok, g_.where(), construct=g_.ident,
           text="event post")
    si = repo.func(PL, "Player.__setitem__")
    ok = any(call_attr(c) == "__setattr__" and [src(a) for a in c.args] == ["name", "value"] for c in si.calls())
    chk.ob("DOM-21", "player[name] = value goes through the same path", ok, si.where(), construct=si.ident, text="setitem")

    # ------------------------------------------------------------ PAIR-12
    md = repo.cls("mpf/core/mode_device.py", "ModeDevice")

    def super_chain(c, hook):
        """Methods executed by c's effective `hook`, following unconditional super().hook(...) calls."""
        m = repo.lookup_method(c, hook)
        if m is None or m.cls is md:
            return []
        chain = [m]
        cur = m
        for _ in range(6):
            sup = [x for x in ast.walk(cur.node) if isinstance(x, ast.Call) and isinstance(x.func, ast.Attribute) and
                   x.func.attr == hook and isinstance(x.func.value, ast.Call) and call_attr(x.func.value) == "super"]
            if not sup or cur.cls is None:
                break
            nxt = repo.lookup_method(cur.cls, hook, skip_self=True)
            if nxt is None or nxt in chain or nxt.cls is md:
                break
            ccfg = cur.cfg()
            sn = [n for n in ccfg.nodes if n.kind != "branch" and any(y is sup[0] for y in n.calls())]
            if not (sn and ccfg.must_pass(ccfg.entry.id, [sn[0].id]) is None):
                break
            chain.append(nxt)
            cur = nxt
        return chain

    def bindings(dl):
        out = []
        for x in walk_local(dl.node):
            if isinstance(x, ast.Assign) and isinstance(x.targets[0], ast.Attribute) and dotted(x.targets[0].value) == "self":
                v = x.value
                from_player = (isinstance(v, ast.Name) and v.id == "player") or \
                              (isinstance(v, ast.Subscript) and isinstance(v.value, ast.Name) and v.value.id == "player")
                if from_player:
                    out.append((x.targets[0].attr, x))
        return out
    n_ref = 0
    for c in repo.subclasses(md, strict=False):
        dls = super_chain(c, "device_loaded_in_mode")
        bound = [(attr, stmt, dl) for dl in dls for attr, stmt in bindings(dl)]
        if not bound:
            continue
        chain = super_chain(c, "device_removed_from_mode")
        dr = chain[0] if chain else None
        chk.analysed(*(dls + chain))
        for attr, stmt, dl in bound:
            n_ref += 1
            key = (dl.cls.relpath if dl.cls else c.relpath, dl.cls.name if dl.cls else c.name, attr)
            inherited = "" if dl.cls is c else " (bound by %s.device_loaded_in_mode)" % dl.cls.name
            if dr is None:
                chk.ob("PAIR-12", "%s binds self.%s to the player%s and drops it when the mode unloads the device" % (c.name, attr, inherited),
                       False, dl.where(stmt), detail="no device_removed_from_mode resets it", construct=c.ident, text="self.%s never reset" % attr)
                continue
            done = False
            for m in chain:
                mcfg = m.cfg()
                resets = [n.id for n in mcfg.nodes_where(lambda n: n.kind == "stmt" and isinstance(n.ast, ast.Assign) and
                                                         any(src(t) == "self." + attr for t in n.ast.targets) and src(n.ast.value) == "None")]
                if resets and mcfg.must_pass(mcfg.entry.id, resets) is None:
                    done = True
            if key in TABLED and not done:
                reason, steps = TABLED[key]
                mcfg = dr.cfg()
                ok = True
                missing = []
                for st in steps:
                    nodes = [n.id for n, cc in mcfg.calls_named(st) if dotted(cc.func.value) == "self"]
                    if not nodes or mcfg.must_pass(mcfg.entry.id, nodes) is not None:
                        ok = False
                        missing.append(st)
                chk.ob("PAIR-12", "%s keeps self.%s after unload (tabled) and therefore always runs %s" % (c.name, attr, "/".join(steps)), ok,
                       dr.where(), detail="tabled reason: %s; not on every path: %s" % (reason, missing), construct=c.ident,
                       text="tabled %s.%s preconditions %s" % (c.name, attr, ",".join(missing)))
            else:
                chk.ob("PAIR-12", "%s drops self.%s (bound to the player on load%s) on every path of device_removed_from_mode" % (c.name, attr, inherited),
                       done, dl.where(stmt),
                       detail="handlers that stay registered after the mode stopped would keep changing that player's state during "
                              "another player's turn; unload chain: %s" % [m.qualname for m in chain], construct=c.ident,
                       text="self.%s not reset on every path in %s" % (attr, c.name))
    chk.expect(n_ref >= 6, "C11: per-player references lost (%d)" % n_ref)

    _deferred_writes(chk, repo)
    _player_addressing(chk, repo)
    _events_switched_on(chk, repo)
    _send_all(chk, repo)
    _player_objects_not_shared(chk, repo)
    _bonus_starts_from_zero(chk, repo)
    # achievement groups: the selection logic lives on the device and serves every player; a rotation that finds nothing to rotate to must not
    # leave the group's "rotation in progress" mark set (generic BRACKET-0 looks at every analysed function: name it)
    chk.analysed(repo.func("mpf/devices/achievement_group.py", "AchievementGroup.rotate_right"))
    # a counter's hit window is device state shared by all players (ignore_hits lives on the device): only its own exit delay ends it, so no
    # method of a logic block wipes all delays (a player's disable inside the window would otherwise leave every later player's hits ignored)
    LBC = "mpf/devices/logic_blocks.py"
    n_w = 0
    for cn_ in ("LogicBlock", "Counter", "Accrual", "Sequence"):
        for m_ in repo.cls(LBC, cn_).methods.values():
            for c_ in m_.calls():
                if call_attr(c_) in ("clear", "remove", "reset", "add") and isinstance(c_.func, ast.Attribute) and src(c_.func.value) == "self.delay":
                    n_w += 1
                    chk.ob("PAIR-12", "%s.%s does not wipe all delays of the block" % (cn_, m_.name), call_attr(c_) != "clear", m_.where(c_), construct=m_.ident,
                           detail="ignore_hits is reset only by the hit window's exit delay", text="logic block delays wiped in " + m_.name)
    chk.ob("PAIR-12", "delay operations of the logic blocks examined (%d)" % n_w, n_w >= 4, LBC + ":1", nontrivial=False)
    _player_numbered_and_listed_in_one_step(chk, repo)
    _score_queue_adds(chk, repo)
    _remembered_selection(chk, repo, md, super_chain)
    _restart_list(chk, repo)
    # what a player accumulated over the game is reset only when the player is created; a new turn resets the per-turn figure only
    EBG = "mpf/devices/extra_ball_group.py"
    ebg = repo.cls(EBG, "ExtraBallGroup")
    pa_ = ebg.methods["_player_added"] if "_player_added" in ebg.methods else None
    ts_ = ebg.methods["_player_turn_starting"]
    chk.analysed(ts_, pa_)

    def zeroed(m):
        return sorted(src(x.targets[0].slice) for x in walk_local(m.node) if isinstance(x, ast.Assign) and isinstance(x.targets[0], ast.Subscript) and
                      src(x.targets[0].value) == "player" and src(x.value) == "0")
    chk.ob("DOM-22", "a new turn resets the extra-ball group's per-ball count only (the per-game count is what the player accumulated)",
           zeroed(ts_) == ["self._player_var_per_ball"], ts_.where(), detail=str(zeroed(ts_)), construct=ts_.ident, text="extra ball group turn reset")
    if pa_ is not None:
        chk.ob("DOM-22", "a new player starts with both extra-ball counts at zero", set(zeroed(pa_)) >= {"self._player_var_per_ball", "self._player_var_per_game"},
               pa_.where(), detail=str(zeroed(pa_)), construct=pa_.ident, text="extra ball group player init")
    # the timer's per-run values come from its configuration at every load (shared with C13 LOAD-13): one player's changed tick interval
    # must not set the pace of the next player's timer
    from sa.rules.c13 import _timer_reloaded_from_config
    _timer_reloaded_from_config(chk, repo)
    # the player a mode hands to its devices is the mode's own (set per turn for game modes, None for the others): never whoever is up
    amd = repo.func("mpf/core/mode.py", "Mode._add_mode_devices")
    chk.analysed(amd)
    dl_ = [c for c in amd.calls() if call_attr(c) == "device_loaded_in_mode"]
    from sa.helpers import bind_call
    ok = len(dl_) == 1
    if ok:
        b_ = bind_call(dl_[0], md.methods["device_loaded_in_mode"].node)
        ok = b_ is not None and src(b_.get("mode")) == "self" and src(b_.get("player")) == "self.player"
    chk.ob("DOM-22", "a mode loads its devices with its own player (self.player): a mode outside the game binds its devices to no player", ok, amd.where(),
           detail=src(dl_[0]) if dl_ else "", construct=amd.ident, text="device loaded with the mode's player")
    from sa.helpers import unload_cleanup_unconditional
    unload_cleanup_unconditional(chk, "PAIR-12")
    # a delayed control event of the turn that ends never reaches the devices of the next turn: stopping a mode clears its delays
    from sa.helpers import mode_stop_clears_delays
    mode_stop_clears_delays(chk, "PAIR-12")
    # a shot group caches the state its shots have in common on the device object; the cache is refreshed for the incoming player whenever the
    # group is loaded - unconditionally, also when that player's shots have nothing in common (otherwise the previous player's value stays)
    sg = repo.func("mpf/devices/shot_group.py", "ShotGroup.device_loaded_in_mode")
    chk.analysed(sg)
    sgc = sg.cfg()
    ref = [n.id for n, c in sgc.calls_named("_check_for_complete")]
    ok = bool(ref) and sgc.must_pass(sgc.entry.id, ref) is None
    chk.ob("PAIR-12", "ShotGroup refreshes its cached common state on every path of device_loaded_in_mode", ok, sg.where(), construct=sg.ident,
           text="common state refreshed at load")
    # reading a player variable never creates it: existence (is_player_var, `in player.vars`) is what decides whether a device restores or
    # initialises, and a first assignment posts the creation event - a read from another player's turn must not pre-empt either
    for nm_ in ("__getattr__", "__getitem__"):
        rd = repo.func(PL, "Player." + nm_)
        chk.analysed(rd)
        wr = [x for x in walk_local(rd.node) if (isinstance(x, ast.Call) and isinstance(x.func, ast.Attribute) and "vars" in src(x.func.value)
              and x.func.attr in ("setdefault", "update", "pop", "popitem", "clear", "__setitem__")) or
              (isinstance(x, ast.Subscript) and isinstance(x.ctx, (ast.Store, ast.Del)) and "vars" in src(x.value)) or
              (isinstance(x, ast.Call) and call_attr(x) in ("setattr", "__setattr__", "__setitem__"))]
        chk.ob("OWN-7", "Player.%s only reads: a variable that does not exist is answered with 0 and stays non-existent" % nm_, not wr,
               rd.where(wr[0]) if wr else rd.where(), detail="`%s` creates the variable on a read" % (short(wr[0], 60) if wr else ""), construct=rd.ident,
               text="player read creates the variable in " + nm_)
    # progress that lives on the device object (not in the player) goes when the mode unloads: a sequence shot forgets its half-finished
    # sequences on every path of the unload, so the next player's run of the mode starts from nothing (shared with C07)
    ss_ = repo.func("mpf/devices/sequence_shot.py", "SequenceShot.device_removed_from_mode")
    chk.analysed(ss_)
    scfg_ = ss_.cfg()
    rs_ = [n.id for n, c in scfg_.calls_named("reset_all_sequences")]
    w_ = scfg_.must_pass(scfg_.entry.id, rs_) if rs_ else [scfg_.entry.id]
    chk.ob("PAIR-12", "SequenceShot: unloading the device drops its sequences in progress on every path (the next player starts from nothing)", w_ is None,
           ss_.where(), construct=ss_.ident, text="sequences in progress survive unload")
    # a timer mirrors its tick count into the current player's variable: every normal path of the `ticks` setter stores the device value and then
    # the player's copy - also when the new value equals what the device object still holds from the previous player
    tk = [m for m in repo.cls("mpf/devices/timer.py", "Timer").node.body if isinstance(m, ast.FunctionDef) and m.name == "ticks"
          and any(src(d) == "ticks.setter" for d in m.decorator_list)]
    chk.need(len(tk) == 1, "PAIR-12", "Timer.ticks has a setter", repo.func("mpf/devices/timer.py", "Timer.start"))
    from sa.cfg import CFG
    tcfg = CFG(tk[0])
    st_dev = [n.id for n in tcfg.nodes if n.kind == "stmt" and isinstance(n.ast, ast.Assign) and src(n.ast.targets[0]) == "self._ticks" and src(n.ast.value) == "value"]
    st_pl = [n.id for n in tcfg.nodes if n.kind == "stmt" and isinstance(n.ast, ast.Assign) and src(n.ast.targets[0]).startswith("self.player[") and src(n.ast.value) == "value"]
    ok = bool(st_dev) and bool(st_pl) and tcfg.must_pass(tcfg.entry.id, st_dev) is None and tcfg.must_pass(tcfg.entry.id, st_pl) is None
    chk.ob("PAIR-12", "Timer.ticks = v stores v on the device and in the current player's tick variable on every path (no shortcut for an unchanged "
           "device value: the device object outlives the player)", ok, "mpf/devices/timer.py:%d" % tk[0].lineno,
           construct="mpf/devices/timer.py::Timer.ticks[setter]", text="tick mirror per assignment")

    # ------------------------------------------------------------ FLOW-4
    n_f = 0
    for c in repo.subclasses(md, strict=False):
        for m in c.methods.values():
            for x in walk_local(m.node):
                if not isinstance(x, ast.Assign):
                    continue
                t = x.targets[0]
                into_player = isinstance(t, ast.Subscript) and dotted(t.value) in ("player", "self.player", "self._player") or \
                    isinstance(t, ast.Attribute) and dotted(t.value) in ("self._player", "self.player", "player") and t.attr not in ("ball",)
                if not into_player:
                    continue
                v = x.value
                fresh = isinstance(v, (ast.Constant, ast.Dict, ast.List, ast.Set, ast.Tuple, ast.BinOp, ast.Compare, ast.UnaryOp, ast.JoinedStr)) or \
                    (isinstance(v, ast.Call) and call_attr(v) in FRESH_CALLS) or isinstance(v, ast.Name) or \
                    (isinstance(v, ast.Call)) or isinstance(v, (ast.Subscript, ast.Attribute, ast.IfExp))
                alias_cfg = isinstance(v, ast.Subscript) and dotted(v.value) == "self.config" or (isinstance(v, ast.Attribute) and dotted(v.value) == "self.config")
                mutable_cfg = alias_cfg and _maybe_mutable_config(repo, c, v)
                n_f += 1
                chk.ob("FLOW-4", "%s.%s stores a fresh / immutable value into the player" % (c.name, m.name), not mutable_cfg, m.where(x),
                       detail="a container from self.config would be shared by all players" if mutable_cfg else "", construct=m.ident,
                       text="player store aliases config: " + short(x, 70))
    chk.expect(n_f >= 5, "C11: stores into players lost (%d)" % n_f)
    lb = repo.func("mpf/devices/logic_blocks.py", "LogicBlock.device_loaded_in_mode")
    st = [x for x in walk_local(lb.node) if isinstance(x, ast.Assign) and src(x.targets[0]) == "player[self.player_state_variable]"]
    ok = bool(st) and all(isinstance(x.value, ast.Call) and call_attr(x.value) == "LogicBlockState" and not x.value.args for x in st)
    chk.ob("FLOW-4", "a logic block's per-player state is a new LogicBlockState object", ok, lb.where(), construct=lb.ident, text="fresh logic block state")
    cfg = lb.cfg()
    for n in cfg.nodes_where(lambda n: n.kind == "stmt" and isinstance(n.ast, ast.Assign) and src(n.ast.targets[0]) == "player[self.player_state_variable]"):
        g = cfg.guards_at(n.id)
        ok = g.get("self.config['persist_state']") is True and g.get("player.is_player_var(self.player_state_variable)") is False
        chk.ob("FLOW-4", "the state is created only when this player has none yet (restored otherwise)", ok, lb.where(n.ast), construct=lb.ident,
               text="create only if absent")
    sv = [x for x in walk_local(lb.node) if isinstance(x, ast.Assign) and src(x.targets[0]) == "self._state"]
    vals = sorted({src(x.value) for x in sv})
    chk.ob("FLOW-4", "the block works on the current player's state object (or a private one when not persisted)",
           vals == ["LogicBlockState()", "player[self.player_state_variable]"], lb.where(), detail=str(vals), construct=lb.ident,
           text="state binding " + ";".join(vals))

    # ------------------------------------------------------------ DOM-22
    g = repo.func("mpf/modes/game/code/game.py", "Game._run")
    ok = any(isinstance(x, ast.Assign) and src(x.targets[0]) == "self.player_list" and src(x.value) in ("list()", "[]") for x in walk_local(g.node)) and \
        any(isinstance(x, ast.Assign) and src(x.targets[0]) == "self.player" and src(x.value) == "None" for x in walk_local(g.node))
    chk.ob("DOM-22", "a new game starts without players (all are created anew from the configured initial values)", ok, g.where(), construct=g.ident,
           text="fresh players per game")
    pinit = repo.func(PL, "Player.__init__")
    ok = any(isinstance(x, ast.Assign) and src(x.targets[0]) in ("self.__dict__['vars']", "self.vars") and src(x.value) in ("dict()", "{}")
             for x in ast.walk(pinit.node))
    chk.ob("DOM-22", "each Player owns a new variable dict", ok, pinit.where(), construct=pinit.ident, text="own vars dict")
    for fn, val in (("_player_turn_start", "player"), ("_player_turn_ended", "None")):
        h = repo.try_func(MC, "ModeController." + fn)
        if h is None:
            continue
        chk.analysed(h)
        sets = [x for x in ast.walk(h.node) if isinstance(x, ast.Assign) and src(x.targets[0]) == "mode.player"]
        ok = bool(sets) and all(src(x.value) == val for x in sets)
        chk.ob("DOM-22", "ModeController.%s sets mode.player = %s for every mode" % (fn, val), ok, h.where(), construct=h.ident, text="mode.player " + fn)
        # ... for *every* game mode: the only thing that exempts a mode is that it is not a game mode (a mode left bound to the
        # previous game's player after an aborted game must be re-bound too), and the loop ranges over all modes
        hcfg = h.cfg()
        from sa.cfg import canon_set
        from sa.helpers import positive, inloop_guards
        for x in sets:
            node = [n_ for n_ in hcfg.nodes if n_.kind == "stmt" and n_.ast is x][0]
            g = set(positive(canon_set(hcfg.guards_at(node.id))))
            chk.ob("DOM-22", "ModeController.%s rebinds every game mode - nothing but `is_game_mode` selects" % fn, g == {("mode.is_game_mode", True)},
                   h.where(x), detail="selection %s" % sorted(g), construct=h.ident, text="mode.player selection " + fn)
        loops = [lp for lp in ast.walk(h.node) if isinstance(lp, ast.For) and any(y is sets[0] for y in ast.walk(lp))] if sets else []
        ok = bool(loops) and src(loops[-1].iter) == "self.machine.modes.values()" and not any(isinstance(y, (ast.Break, ast.Return)) for y in ast.walk(loops[-1]))
        chk.ob("DOM-22", "ModeController.%s visits all modes of the machine" % fn, ok, h.where(), construct=h.ident, text="mode.player loop " + fn)
    # the ball-end barrier that separates two players' turns waits for every game mode that stops at ball end (shared with C02 PAIR-2)
    be = repo.func(MC, "ModeController._ball_ending")
    chk.analysed(be)
    bcfg = be.cfg()
    st = [(n_, c_) for n_, c_ in bcfg.calls_named("stop") if src(c_.func.value) == "mode" and kwarg(c_, "callback") is not None]
    chk.need(len(st) == 1, "DOM-22", "_ball_ending stops the game modes with a completion callback", be)
    from sa.cfg import canon_set
    from sa.helpers import positive, inloop_guards
    blh = [h_ for h_ in bcfg.nodes if h_.kind == "loop" and any(y is st[0][1] for y in ast.walk(h_.ast))]
    chk.need(blh, "DOM-22", "_ball_ending stops the game modes in a loop", be)
    g = positive(inloop_guards(bcfg, st[0][0].id, blh[-1].id))
    chk.ob("DOM-22", "the turn does not change before every game mode that stops at ball end has stopped (none is exempted, e.g. one already stopping)",
           g == {("mode.is_game_mode", True), ("mode.auto_stop_on_ball_end", True)}, be.where(st[0][1]), detail="selection %s" % sorted(g), construct=be.ident,
           text="ball end waits for selection")
    cnt = [n_ for n_ in bcfg.nodes if n_.kind == "stmt" and isinstance(n_.ast, ast.AugAssign) and src(n_.ast.target) == "self.mode_stop_count"]
    ok = len(cnt) == 1 and canon_set(bcfg.guards_at(cnt[0].id)) == canon_set(bcfg.guards_at(st[0][0].id)) and bcfg.dominates(cnt[0].id, st[0][0].id)
    chk.ob("DOM-22", "each awaited mode stop is counted (before it is requested)", ok, be.where(), construct=be.ident, text="ball end count")


def _maybe_mutable_config(repo, cls, expr):
    """Is self.config[<key>] a list/dict/set-typed entry of the class' config section?"""
    from sa import yamlmini
    key = None
    if isinstance(expr, ast.Subscript) and isinstance(expr.slice, ast.Constant):
        key = expr.slice.value
    if key is None:
        return False
    sect = None
    for k in repo.mro(cls):
        v = k.attrs.get("config_section")
        if isinstance(v, ast.Constant):
            sect = v.value
            break
    if sect is None:
        return False
    spec = getattr(repo, "_spec_cache", None)
    if spec is None:
        spec = yamlmini.load(repo.read_text("mpf/config_spec.yaml"), "mpf/config_spec.yaml")
        repo._spec_cache = spec
    ent = spec.get(sect, {}).get(key)
    return isinstance(ent, str) and ent.split("|")[0] in ("list", "dict", "set")


def _deferred_writes(chk, repo):
    """BARRIER-1: a coroutine that writes to the *current* player after awaiting (a write deferred past the event that
    caused it) must keep the ball from ending while work is pending, otherwise the write lands in the next player:
    the class blocks `ball_ending` on an asyncio.Event that is cleared before work is queued and set only when the
    queue is empty.  BLOCK-1: a config player that keeps per-context state of its own (VariablePlayer.blocks) removes
    every entry of a context when that context is cleared -- not just the newest."""
    n = 0
    for c in repo.all_classes("mpf/devices/"):
        for m in c.methods.values():
            if not m.is_async:
                continue
            writes = [x for x in ast.walk(m.node) if isinstance(x, (ast.Assign, ast.AugAssign)) and
                      "game.player" in src(x.targets[0] if isinstance(x, ast.Assign) else x.target)]
            awaits = [x for x in ast.walk(m.node) if isinstance(x, ast.Await)]
            if not writes or not awaits:
                continue
            n += 1
            chk.analysed(m)
            # the barrier: an async ball_ending handler of this class awaiting an Event field
            barrier = None
            for m2 in c.methods.values():
                for call in m2.calls():
                    if call_attr(call) in ("add_async_handler", "add_handler") and call.args and const_value(call.args[0]) == "ball_ending" and len(call.args) > 1:
                        hname = src(call.args[1]).split(".")[-1]
                        h = c.methods.get(hname)
                        if h is not None:
                            for w in ast.walk(h.node):
                                if isinstance(w, ast.Await) and isinstance(w.value, ast.Call) and call_attr(w.value) == "wait":
                                    barrier = src(w.value.func.value)
            chk.ob("BARRIER-1", "%s writes to the current player after awaiting, so its class holds back ball_ending while work is pending" % m.qualname,
                   barrier is not None, m.where(), detail="no async ball_ending handler waiting on an Event of the class", construct=m.ident,
                   text="deferred player write without barrier")
            if barrier is None:
                continue
            queues = {src(x.value.func.value) for x in ast.walk(m.node) if isinstance(x, ast.Await) and isinstance(x.value, ast.Call) and call_attr(x.value) == "get"}
            for m2 in c.methods.values():
                cfg = m2.cfg()
                for nset, cs in [(n_, cc) for n_, cc in cfg.calls_named("set") if src(cc.func.value) == barrier]:
                    if m2.name == "__init__":
                        continue
                    g = cfg.guards_at(nset.id)
                    ok = any(g.get("%s.empty()" % q) is True for q in queues)
                    chk.ob("BARRIER-1", "the ball-end barrier of %s is released only when no work is left (queue empty)" % c.name, ok, m2.where(cs),
                           detail="guards %s; queues %s" % (sorted(g.items()), sorted(queues)), construct=m2.ident, text="barrier released with work pending")
                for nput, cp in [(n_, cc) for n_, cc in cfg.calls_named("put_nowait", "put") if src(cc.func.value) in queues]:
                    clears = [x.id for x, cc in cfg.calls_named("clear") if src(cc.func.value) == barrier]
                    ok = bool(clears) and any(cfg.dominates(x, nput.id) for x in clears)
                    chk.ob("BARRIER-1", "%s closes the barrier before it queues work" % m2.qualname, ok, m2.where(cp), construct=m2.ident,
                           text="work queued with the barrier open")
    chk.ob("BARRIER-1", "coroutines writing to the current player after an await examined", n >= 1, "mpf/devices:1", detail="%d" % n, nontrivial=False)
    vp = repo.cls("mpf/config_players/variable_player.py", "VariablePlayer")
    cc = vp.methods.get("clear_context")
    if cc is None:
        chk.missing("BLOCK-1", "VariablePlayer clears its blocks when a context ends", vp.methods.get("play") or list(vp.methods.values())[0])
        return
    chk.analysed(cc)
    # every block list is visited, and within it every entry is compared with the context
    outer = [x for x in ast.walk(cc.node) if isinstance(x, ast.For) and "self.blocks" in src(x.iter)]
    visits_entries = False
    cond_ok = False
    for o in outer:
        bl = [t.id for t in ast.walk(o.target) if isinstance(t, ast.Name) and t.id != "_"]
        for x in ast.walk(o):
            it = None
            if isinstance(x, ast.For) and x is not o:
                it = x.iter
            if isinstance(x, ast.comprehension):
                it = x.iter
            if it is not None and any(isinstance(y, ast.Name) and y.id in bl for y in ast.walk(it)):
                visits_entries = True
        for x in ast.walk(o):
            if isinstance(x, ast.Compare) and len(x.ops) == 1 and isinstance(x.ops[0], (ast.Eq, ast.NotEq)) and \
                    {src(x.left).split(".")[-1], src(x.comparators[0]).split(".")[-1]} == {"context"}:
                cond_ok = not any(isinstance(y, ast.Subscript) for y in ast.walk(x))
    chk.ob("BLOCK-1", "VariablePlayer.clear_context visits every block list", bool(outer), cc.where(), construct=cc.ident, text="block lists visited")
    chk.ob("BLOCK-1", "VariablePlayer.clear_context looks at every entry of a block list (a stopping mode's block may lie under a newer one)",
           visits_entries and cond_ok, cc.where(), detail="a block of the stopped context that is not the newest entry stays and keeps swallowing scores",
           construct=cc.ident, text="only part of a block list examined")


def _remembered_selection(chk, repo, md, super_chain):
    """MEMO-11: a mode device that remembers a choice made from its members' per-player state in a lazily filled attribute
    (`if not self.A: <fill A>` ... use self.A) forgets it when the mode unloads: the next player's turn starts with the device's
    code object unchanged, and a filled memo would answer for the previous player.
    RESTORE-11: the generic "enable at mode start unless enable_events are configured" of ModeDevice is never in effect for a
    device whose enable() writes persisted per-player enable flags (its own, through EnableDisableMixin, or those of its members
    by forwarding enable()): the flags the player accumulated decide, not the mode start."""
    def plain_store(m, attr):
        return [x for x in walk_local(m.node) if isinstance(x, ast.Assign) and any(src(t) == "self." + attr for t in x.targets) and
                not (isinstance(x.value, ast.Constant))]
    n_memo = 0
    for c in repo.subclasses(md, strict=False):
        for name, m in sorted(c.methods.items()):
            for x in walk_local(m.node):
                if not isinstance(x, ast.If):
                    continue
                t = x.test
                a = None
                if isinstance(t, ast.UnaryOp) and isinstance(t.op, ast.Not) and isinstance(t.operand, ast.Attribute) and dotted(t.operand.value) == "self":
                    a = t.operand.attr
                elif isinstance(t, ast.Compare) and len(t.ops) == 1 and isinstance(t.ops[0], ast.Is) and src(t.comparators[0]) == "None" and \
                        isinstance(t.left, ast.Attribute) and dotted(t.left.value) == "self":
                    a = t.left.attr
                if a is None or a in c.methods:        # properties have their own storage rules (PAIR-12 / FLOW-4)
                    continue
                fill = False
                for y in x.body:
                    for z in ast.walk(y):
                        if isinstance(z, ast.Assign) and any(src(tt) == "self." + a for tt in z.targets) and not isinstance(z.value, ast.Constant):
                            fill = True
                        if isinstance(z, ast.Call) and isinstance(z.func, ast.Attribute) and dotted(z.func.value) == "self":
                            cal = repo.lookup_method(c, z.func.attr)
                            if cal is not None and plain_store(cal, a):
                                fill = True
                if not fill:
                    continue
                n_memo += 1
                chain = super_chain(c, "device_removed_from_mode") + super_chain(c, "device_loaded_in_mode")
                chk.analysed(m, *chain)
                done = False
                for mm in chain:
                    mcfg = mm.cfg()
                    resets = [n.id for n in mcfg.nodes_where(lambda n: n.kind == "stmt" and isinstance(n.ast, ast.Assign) and
                                                             any(src(tt) == "self." + a for tt in n.ast.targets) and src(n.ast.value) == "None")]
                    if resets and mcfg.must_pass(mcfg.entry.id, resets) is None:
                        done = True
                chk.ob("MEMO-11", "%s forgets the lazily remembered self.%s (filled in %s when empty) on every path when the mode unloads or loads it" %
                       (c.name, a, name), done, m.where(x), detail="a filled memo answers for the previous player: the next player's first use skips the fill",
                       construct=c.ident, text="memo self.%s not reset" % a)
    chk.expect(n_memo >= 1, "C11: lazily filled selection of AchievementGroup not found")

    auto = repo.func("mpf/core/mode_device.py", "ModeDevice.add_control_events_in_mode")
    chk.analysed(auto)
    reg = [c for c in auto.calls() if call_attr(c) == "add_mode_event_handler" and len(c.args) >= 2 and src(c.args[1]) == "self.event_enable"]
    chk.need(len(reg) == 1, "RESTORE-11", "ModeDevice's default registers event_enable for the mode start", auto)
    edm = repo.cls("mpf/core/enable_disable_mixin.py", "EnableDisableMixin")
    n_w = 0
    for c in repo.subclasses(md, strict=True):
        en = repo.lookup_method(c, "enable")
        if en is None:
            continue
        forwards = [z for z in en.calls() if call_attr(z) == "enable" and not (isinstance(z.func.value, ast.Call) and call_attr(z.func.value) == "super") and
                    dotted(z.func.value) != "self"]
        own = en.cls is edm
        if not (forwards or own):
            continue
        n_w += 1
        eff = repo.lookup_method(c, "add_control_events_in_mode")
        chk.analysed(en, eff)
        regs = [z for z in ast.walk(eff.node) if isinstance(z, ast.Call) and (call_attr(z) in ("add_mode_event_handler", "add_handler") or
                                                                               (call_attr(z) == "add_control_events_in_mode"))]
        chk.ob("RESTORE-11", "%s (enable() writes %s persisted enable flag%s) is not enabled by the mode start itself" %
               (c.name, "its own" if own else "its members\'", "" if own else "s"), eff is not auto and not regs, eff.where(),
               detail="effective add_control_events_in_mode: %s" % eff.qualname, construct=c.ident, text="auto enable at mode start in effect")
    chk.expect(n_w >= 3, "C11: devices whose enable() writes persisted flags lost (%d)" % n_w)


def _restart_list(chk, repo):
    """RESTART-11: modes to restart on a player's next ball are remembered in that player (appended at ball end for every active game mode
    that asks for it, whatever else the loop decides), started - all of them - when that player's next ball starts, and then
    forgotten: the list is replaced by a new empty one, so a mode the player stops during that ball does not come back on the ball
    after.  A new player starts with an empty list of their own."""
    from sa.cfg import canon_set, canon_fact
    from sa.helpers import inloop_guards, positive
    bs = repo.func(MC, "ModeController._ball_starting")
    be = repo.func(MC, "ModeController._ball_ending")
    pa = repo.func(MC, "ModeController._player_added")
    chk.analysed(bs, be, pa)
    cfg = bs.cfg()
    lps = [h for h in cfg.nodes if h.kind == "loop"]
    st = [(n, c) for n, c in cfg.calls_named("start")]
    chk.need(len(lps) == 1 and len(st) == 1, "RESTART-11", "_ball_starting restarts the remembered modes", bs)
    ok = src(lps[0].ast.iter).endswith("player.restart_modes_on_next_ball") and not inloop_guards(cfg, st[0][0].id, lps[0].id) and \
        src(st[0][1].func.value) == src(lps[0].ast.target) and not [y for y in ast.walk(lps[0].ast) if isinstance(y, (ast.Break, ast.Return, ast.Continue))]
    chk.ob("RESTART-11", "every mode remembered for the player's next ball is started", ok, bs.where(lps[0].ast), construct=bs.ident, text="restart loop")
    rs = [n for n in cfg.nodes if n.kind == "stmt" and isinstance(n.ast, ast.Assign) and src(n.ast.targets[0]).endswith("player.restart_modes_on_next_ball")]
    ok = len(rs) == 1 and src(rs[0].ast.value).replace(" ", "") in ("list()", "[]") and not cfg.guards_at(rs[0].id) and \
        cfg.must_pass(cfg.entry.id, [rs[0].id], ends=[cfg.exit.id]) is None and rs[0].lineno > lps[0].lineno
    chk.ob("RESTART-11", "after the restart the list is replaced by a new empty one on every path (nothing is carried to the ball after)", ok, bs.where(), construct=bs.ident,
           text="restart list emptied")
    ecfg = be.cfg()
    ap = [(n, c) for n, c in ecfg.calls_named("append") if src(c.func.value).endswith("player.restart_modes_on_next_ball")]
    elp = [h for h in ecfg.nodes if h.kind == "loop"]
    chk.need(len(ap) == 1 and len(elp) == 1, "RESTART-11", "_ball_ending remembers the modes to restart", be)
    got = positive(inloop_guards(ecfg, ap[0][0].id, elp[0].id))
    want = positive({canon_fact("mode.is_game_mode", True), canon_fact("mode.restart_on_next_ball", True)})
    ok = got == want and [src(a) for a in ap[0][1].args] == [src(elp[0].ast.target)] and src(elp[0].ast.iter) == "self.active_modes"
    chk.ob("RESTART-11", "at ball end exactly the active game modes that ask for it are remembered in the current player", ok, be.where(ap[0][1]),
           detail="selected by %s" % sorted(got), construct=be.ident, text="restart list filled")
    ini = [x for x in walk_local(pa.node) if isinstance(x, ast.Assign) and src(x.targets[0]) == "player.restart_modes_on_next_ball"]
    ok = len(ini) == 1 and src(ini[0].value).replace(" ", "") in ("list()", "[]")
    chk.ob("RESTART-11", "a new player starts with an empty restart list of their own", ok, pa.where(), construct=pa.ident, text="restart list initial")


def _score_queue_adds(chk, repo):
    """BARRIER-1 (conservation): the score queue *adds* each digit to the player's variable and takes the same amount off the remaining
    score -- it never overwrites what the player has accumulated."""
    f = repo.func("mpf/devices/score_queue.py", "ScoreQueue._handle_score_queue")
    chk.analysed(f)
    ups = [x for x in walk_local(f.node) if isinstance(x, ast.AugAssign) and "game.player[" in src(x.target)]
    downs = [x for x in walk_local(f.node) if isinstance(x, ast.AugAssign) and isinstance(x.target, ast.Name) and isinstance(x.op, ast.Sub)]
    stores = [x for x in walk_local(f.node) if isinstance(x, ast.Assign) and any("game.player[" in src(t) for t in x.targets)]
    ok = len(ups) == 1 and isinstance(ups[0].op, ast.Add) and len(downs) == 1 and src(ups[0].value) == src(downs[0].value) and not stores and \
        src(ups[0].target).replace(" ", "") == "self.machine.game.player[self.name]"
    chk.ob("BARRIER-1", "the score queue adds each digit to the player's own variable and takes exactly that off the remaining score", ok, f.where(),
           detail="%s / %s" % ([src(x) for x in ups + stores], [src(x) for x in downs]), construct=f.ident, text="score queue conservation")


def _events_switched_on(chk, repo):
    """DOM-21 (arming): a new player's variable events are switched on -- with all current values sent -- as soon as player_added
    has been posted: Game posts player_added with a completion callback that enables the events; enable_events stores the flag and
    sends the values exactly when asked to."""
    GMF = "mpf/modes/game/code/game.py"
    pa = repo.func(GMF, "Game._player_added")
    chk.analysed(pa)
    en = [c for c in pa.calls() if call_attr(c) == "enable_events" and src(c.func.value) == "player"]
    ok = len(en) == 1 and [src(a) for a in en[0].args] == ["True", "True"] and not en[0].keywords
    chk.ob("DOM-21", "Game._player_added switches the new player's variable events on and sends all current values", ok, pa.where(), construct=pa.ident,
           text="player events switched on")
    pc = repo.func(GMF, "Game._player_adding_complete")
    posts = [c for c in pc.calls() if call_attr(c) == "post" and c.args and const_value(c.args[0]) == "player_added"]
    ok = len(posts) == 1 and kwarg(posts[0], "callback") is not None and src(kwarg(posts[0], "callback")) == "self._player_added" and \
        kwarg(posts[0], "player") is not None and src(kwarg(posts[0], "player")) == "player"
    chk.ob("DOM-21", "player_added is posted for the new player with the enabling callback", ok, pc.where(), construct=pc.ident, text="player_added callback")
    ee = repo.func("mpf/core/player.py", "Player.enable_events")
    chk.analysed(ee)
    ec = ee.cfg()
    st = [x for x in walk_local(ee.node) if isinstance(x, ast.Assign) and src(x.targets[0]) == "self._events_enabled" and src(x.value) == "enable"]
    sn = [n for n, c in ec.calls_named("send_all_variable_events")]
    from sa.cfg import canon_set, canon_fact
    ok = len(st) == 1 and len(sn) == 1 and set(canon_set(ec.guards_at(sn[0].id))) == {canon_fact("enable", True), canon_fact("send_all_variables", True)}
    chk.ob("DOM-21", "enable_events stores the flag and sends all values exactly when enabling with send_all_variables", ok, ee.where(), construct=ee.ident,
           text="enable_events body")


def _send_all(chk, repo):
    """DOM-21 (arming, continued): send_all_variable_events posts one event for every simple variable (isinstance test: bools are ints), carrying
    the current value as new and previous value, no change, and the player's number."""
    from sa.helpers import inloop_guards, positive
    from sa.cfg import canon_fact
    f = repo.func(PL, "Player.send_all_variable_events")
    chk.analysed(f)
    cfg = f.cfg()
    lps = [h for h in cfg.nodes if h.kind == "loop"]
    sv = [(n, c) for n, c in cfg.calls_named("_send_variable_event")]
    chk.need(len(lps) == 1 and sv, "DOM-21", "send_all_variable_events posts events for the variables", f)
    ok = src(lps[0].ast.iter) == "self.vars.items()" and not [y for y in ast.walk(lps[0].ast) if isinstance(y, (ast.Break, ast.Return))]
    for n, c in sv:
        g = positive(inloop_guards(cfg, n.id, lps[0].id))
        base = canon_fact("isinstance(value, (int, str, float))", True)
        extra = {x for x in g if x != base and x[0] != "isinstance(value, str)"}
        args = [src(a) for a in c.args]
        ok = ok and base in g and not extra and args[:3] == ["name", "value", "value"] and args[3] in ("0", "False") and args[4].replace('"', "'") == "self.vars['number']"
    chk.ob("DOM-21", "send_all_variable_events posts (name, value, value, no change, player number) for every simple variable, all of them", ok, f.where(),
           construct=f.ident, text="send all variable events")


def _player_objects_not_shared(chk, repo):
    """FRESH-11: an object placed in a player variable belongs to that player alone.  Every store `<...>player[<name>] = V` in the
    framework has a V that is not a shallow copy (copy.copy(x) / x.copy()) of, nor an element or attribute of, an object that outlives
    the player (a container on `self`): a shallow copy shares the mutable parts (a Randomizer's position and sent items), so one
    player's draws advance every player's list and a new game continues where the last one stopped."""
    n = 0
    for rel, m in sorted(repo.modules.items()):
        if not rel.startswith("mpf/") or "/tests/" in rel:
            continue
        for f in m.all_funcs():
            for x in walk_local(f.node):
                if not (isinstance(x, ast.Assign) and len(x.targets) == 1 and isinstance(x.targets[0], ast.Subscript)):
                    continue
                recv = src(x.targets[0].value)
                if not (recv == "player" or recv.endswith(".player")):
                    continue
                n += 1
                v = x.value
                shared = None
                for y in ast.walk(v):
                    if isinstance(y, ast.Call):
                        nm = y.func.id if isinstance(y.func, ast.Name) else (y.func.attr if isinstance(y.func, ast.Attribute) else None)
                        if nm == "copy":
                            shared = "shallow copy " + short(y, 50)
                if shared is None and isinstance(v, ast.Subscript) and src(v.value).startswith("self._"):
                    shared = "element of " + src(v.value)
                chk.ob("FRESH-11", "what %s stores in a player variable is not shared with other players" % f.qualname, shared is None, f.where(x),
                       detail=shared or "", construct=f.ident, text="player variable store " + short(x.targets[0], 50))
    chk.floor("FRESH-11", 3)


def _bonus_starts_from_zero(chk, repo):
    """BONUS-11: a player's end-of-ball bonus counts his own entries only: every bonus run starts its running total from zero - in
    mode_start, on every path that goes on to count (posts bonus_start / arms the first item).  The Bonus object lives from ball to ball and
    from player to player: a total zeroed only when a run *finishes* hands the subtotal of an interrupted run (mode stopped from outside)
    to the next player, multiplied by his multiplier."""
    BN = "mpf/modes/bonus/code/bonus.py"
    f = repo.func(BN, "Bonus.mode_start")
    chk.analysed(f)
    cfg = f.cfg()
    zero = [n.id for n in cfg.nodes if n.kind == "stmt" and isinstance(n.ast, ast.Assign) and src(n.ast.targets[0]) == "self.bonus_score" and const_value(n.ast.value) == 0]
    runs = [n for n, c in cfg.calls_named("post") if c.args and const_value(c.args[0]) == "bonus_start"] + \
           [n for n, c in cfg.calls_named("add", "reset") if "delay" in src(c.func.value) and "_bonus_next_item" in src(c)]
    chk.need(runs, "BONUS-11", "Bonus.mode_start starts the count (bonus_start / first item)", f)
    for n in runs:
        w = cfg.path_avoiding(cfg.entry.id, [n.id], zero, ignore_exc=True) if zero else [cfg.entry.id, n.id]
        chk.ob("BONUS-11", "every bonus run starts its total from zero before it counts", w is None, f.where(n.ast), construct=f.ident,
               detail="the total is carried in the mode object across balls and players", text="bonus total zeroed at start",
               path=cfg.fmt_path(w, f) if w and len(w) > 1 else None, nontrivial=True)


def _player_numbered_and_listed_in_one_step(chk, repo):
    """NUM-11: every player has a number of his own (his events and his persisted state are addressed by it).  The number is the length of
    the player list, and the new player joins the list in the same synchronous step that read the length - before the player_adding queue
    event, which other handlers may hold while a second add request is processed."""
    GMF = "mpf/modes/game/code/game.py"
    f = repo.func(GMF, "Game._player_add_request_complete")
    chk.analysed(f)
    cfg = f.cfg()
    mk = [n for n in cfg.nodes if n.kind == "stmt" and isinstance(n.ast, ast.Assign) and isinstance(n.ast.value, ast.Call) and call_attr(n.ast.value) == "Player"]
    ap = [n for n, c in cfg.calls_named("append") if src(c.func.value) == "self.player_list"]
    chk.need(mk, "NUM-11", "Game._player_add_request_complete creates the player", f)
    c = mk[0].ast.value
    chk.ob("NUM-11", "the new player's index is the current length of the player list", len(c.args) == 2 and src(c.args[1]).replace(" ", "") == "len(self.player_list)", f.where(c),
           detail=src(c), construct=f.ident, text="player index source")
    waits = [n.id for n, c_ in cfg.calls_named("post_queue", "post_queue_async")] + [n.id for n in cfg.nodes if n.kind in ("stmt", "test") and n.has_await()]
    ok = bool(ap) and cfg.must_pass(mk[0].id, [n.id for n in ap] ) is None and \
        all(cfg.path_avoiding(mk[0].id, [w], [n.id for n in ap], ignore_exc=True) is None for w in waits)
    chk.ob("NUM-11", "the player joins the list in the step that numbered him (before any queue event or await)", ok, f.where(mk[0].ast), construct=f.ident,
           detail="a second request processed while player_adding is held reads the same length: two players with one number", text="player listed with his number")


def _player_addressing(chk, repo):
    """IDX-1: which player a write or a read addresses.  Config player numbers are 1-based, player_list is 0-based; without a
    number the current player is meant; machine actions never touch a player; both player-placeholder access paths agree."""
    VP = "mpf/config_players/variable_player.py"
    f = repo.func(VP, "VariablePlayer._set_variable")
    chk.analysed(f)
    cfg = f.cfg()
    n_w = 0
    for meth, act in (("add_with_kwargs", "add"), ("set_with_kwargs", "set")):
        ws = [(n, c) for n, c in cfg.calls_named(meth)]
        chk.need(len(ws) == 1, "IDX-1", "variable_player action `%s` writes through Player.%s" % (act, meth), f)
        n, c = ws[0]
        n_w += 1
        g = cfg.guards_at(n.id)
        ok = any(k.replace('"', "'") == "entry['action'] == '%s'" % act and v is True for k, v in g.items())
        chk.ob("IDX-1", "Player.%s is used exactly for action `%s`" % (meth, act), ok, f.where(c), detail=str(sorted(g.items())), construct=f.ident,
               text="action " + act)
        ok = src(c.func.value) == "player" and [src(a) for a in c.args[:2]] == ["var", "value"]
        chk.ob("IDX-1", "action `%s` writes (var, value) to the addressed player" % act, ok, f.where(c), detail=src(c), construct=f.ident, text="write " + act)
        # reaching definitions of `player` at the write
        defs = [x for x in cfg.nodes if x.kind == "stmt" and isinstance(x.ast, ast.Assign) and src(x.ast.targets[0]) == "player" and
                n.id in cfg.reachable([x.id], include_start=False)]
        vals = {}
        for x in defs:
            gx = cfg.guards_at(x.id)
            if any(k.replace('"', "'") == "entry['action'] == '%s'" % act and v is True for k, v in gx.items()):
                vals[src(x.ast.value)] = gx
        import re
        cur = [k for k in vals if re.fullmatch(r"(self\.machine\.)?game\.player", k)]
        idx = [k for k in vals if re.fullmatch(r"(self\.machine\.)?game\.player_list\[entry\['player'\] - 1\]", k)]
        ok = len(vals) == 2 and len(cur) == 1 and len(idx) == 1 and vals[idx[0]].get("entry['player']") is True and \
            vals[cur[0]].get("entry['player']") is None
        chk.ob("IDX-1", "action `%s`: the current player unless a player number is configured; number N addresses player_list[N - 1]" % act, ok,
               f.where(c), detail=str(sorted(vals)), construct=f.ident, text="addressed player " + act)
    for n, c in cfg.calls_named("set_machine_var"):
        g = cfg.guards_at(n.id)
        acts = [k for k, v in g.items() if v is True and "entry['action'] ==" in k.replace('"', "'")]
        ok = bool(acts) and all("machine" in k for k in acts)
        chk.ob("IDX-1", "machine variables are written only by the *_machine actions", ok, f.where(c), detail=str(acts), construct=f.ident,
               text="machine action " + ",".join(acts))
        n_w += 1
    chk.expect(n_w >= 4, "C11: variable_player writes lost (%d)" % n_w)
    PM = "mpf/core/placeholder_manager.py"
    pp = repo.cls(PM, "PlayerPlaceholder")
    forms = {}
    for nm in ("__getitem__", "__getattr__"):
        m = pp.methods[nm]
        chk.analysed(m)
        mc = m.cfg()
        subs = [x for x in ast.walk(m.node) if isinstance(x, ast.Subscript) and src(x.value).endswith("game.player_list")]
        ok = len(subs) == 1 and src(subs[0].slice) == "self._number"
        if ok:
            node = [x for x in mc.nodes if x.kind == "stmt" and any(y is subs[0] for y in x.walk())][0]
            g = mc.guards_at(node.id)
            ok = g.get("self._number is not None") is True and g.get("len(self._machine.game.player_list) <= self._number") is False
        chk.ob("IDX-1", "PlayerPlaceholder.%s addresses players[N] as player_list[N] after checking that the player exists" % nm, ok, m.where(),
               construct=m.ident, text="placeholder index " + nm)
        cur = [x for x in mc.nodes if x.kind == "stmt" and isinstance(x.ast, ast.Return) and src(x.ast.value).replace(" ", "") in
               ("self._machine.game.player[item]", "getattr(self._machine.game.player,item)")]
        ok = len(cur) == 1 and mc.guards_at(cur[0].id).get("self._number is not None") is False
        chk.ob("IDX-1", "PlayerPlaceholder.%s without a number reads the current player" % nm, ok, m.where(), construct=m.ident, text="placeholder current " + nm)
        forms[nm] = (len(subs), len(cur))
    chk.ob("IDX-1", "item and attribute access of the player placeholder address players the same way", len(set(forms.values())) == 1, pp.methods["__getitem__"].where(),
           detail=str(forms), construct=pp.methods["__getitem__"].ident, text="placeholder siblings")


def battery():
    from sa.battery import M
    LBF = "mpf/devices/logic_blocks.py"
    return [
        M("shot group refreshes its cached state only when there is one", "mpf/devices/shot_group.py", "        super().device_loaded_in_mode(mode, player)\n        self._check_for_complete()", "        super().device_loaded_in_mode(mode, player)\n        if self.get_common_state():\n            self._check_for_complete()", "PAIR-12"),
        M("reading a player variable creates it", PL, "        if name in self.vars:\n            return self.vars[name]\n\n        return 0\n\n    def __setattr__", "        return self.vars.setdefault(name, 0)\n\n    def __setattr__", "OWN-7"),
        M("timer tick mirror skipped for an unchanged device value", "mpf/devices/timer.py", "    def ticks(self, value):\n        self._ticks = value\n", "    def ticks(self, value):\n        if value == self._ticks:\n            return\n\n        self._ticks = value\n", "PAIR-12"),
        M("sequence shot keeps its half-finished sequences on unload", "mpf/devices/sequence_shot.py", "        self._remove_handlers()\n        self.reset_all_sequences()\n        self.delay.clear()", "        self._remove_handlers()\n        self.delay.clear()", "PAIR-12"),
        M("empty rotation leaves the group marked as rotating (F25 reverted)", "mpf/devices/achievement_group.py", "            self._rotation_in_progress = False\n            return\n", "            return\n", "BRACKET-0"),
        M("disable wipes the hit window's exit delay", "mpf/devices/logic_blocks.py", "        self.post_update_event()\n        self.delay.remove(\"timeout\")\n", "        self.post_update_event()\n        self.delay.clear()\n", "PAIR-12"),
        M("player listed only after player_adding has cleared", "mpf/modes/game/code/game.py", "        self.player_list.append(player)\n", "", "NUM-11"),
        M("bonus total zeroed only when a run finishes", "mpf/modes/bonus/code/bonus.py", "        self.bonus_score = 0\n        self.bonus_iterator = iter(self.bonus_entries)", "        self.bonus_iterator = iter(self.bonus_entries)", "BONUS-11"),
        M("per-player randomizer is a shallow copy of a shared one", "mpf/config_players/random_event_player.py", "                self.machine.game.player[key] = Randomizer(\n                    settings['events'], self.machine, template_type=\"event\")", "                import copy\n                self.machine.game.player[key] = copy.copy(self._machine_wide_dict.setdefault(key, Randomizer(\n                    settings['events'], self.machine, template_type=\"event\")))", "FRESH-11"),
        M("mode delays survive the stop", "mpf/core/mode.py", "        self._remove_mode_switch_handlers()\n\n        self.delay.clear()\n", "        self._remove_mode_switch_handlers()\n", "PAIR-12"),
        M("bonus writes vars directly", "mpf/modes/bonus/code/bonus.py", "                self.player[entry['player_score_entry']] = 0", "                self.player.vars[entry['player_score_entry']] = 0", "OWN-13"),
        M("event carries stale value", PL, "self._send_variable_event(name, self.vars[name], prev_value, change, self.vars['number'], **kwargs)", "self._send_variable_event(name, prev_value, prev_value, change, self.vars['number'], **kwargs)", "DOM-21"),
        M("prev read after store", PL, "        self.vars[name] = value\n\n        try:\n            change = value - prev_value", "        self.vars[name] = value\n        prev_value = self.vars[name]\n\n        try:\n            change = value - prev_value", "DOM-21"),
        M("change sign flipped", PL, "            change = value - prev_value", "            change = prev_value - value", "DOM-21"),
        M("player_num from index", PL, "self._send_variable_event(name, self.vars[name], prev_value, change, self.vars['number'], **kwargs)", "self._send_variable_event(name, self.vars[name], prev_value, change, self.vars['index'], **kwargs)", "DOM-21"),
        M("persisted block keeps state ref", LBF, "        self.delay.remove(\"timeout\")\n        self._state = None", "        self.delay.remove(\"timeout\")\n        if not self.config['persist_state']:\n            self._state = None", "PAIR-12"),
        M("mixin keeps player", "mpf/core/enable_disable_mixin.py", "        self._disable()\n        self.player = None\n        self._enabled = None", "        self._disable()\n        self._enabled = None", "PAIR-12"),
        M("extra ball keeps player", "mpf/devices/extra_ball.py", "        del mode\n        self.player = None", "        del mode", "PAIR-12"),
        M("timer stop only when running", "mpf/devices/timer.py", "        \"\"\"Stop this timer and also removes all the control events.\"\"\"\n        self.stop()", "        \"\"\"Stop this timer and also removes all the control events.\"\"\"\n        if self.running:\n            self.stop()", "PAIR-12"),
        M("shared state object", LBF, "                player[self.player_state_variable] = LogicBlockState()", "                player[self.player_state_variable] = self._state or LogicBlockState()", "FLOW-4"),
        M("state recreated every load", LBF, "            if not player.is_player_var(self.player_state_variable):\n                player[self.player_state_variable] = LogicBlockState()", "            if True:\n                player[self.player_state_variable] = LogicBlockState()", "FLOW-4"),
        M("players survive games", "mpf/modes/game/code/game.py", "        self.player_list = list()\n        self.machine.game = self", "        self.machine.game = self", "DOM-22"),
        # twins
        M("twin: reset order", "mpf/devices/state_machine.py", "        self._state = None\n        self.player = None", "        self.player = None\n        self._state = None", None),
        M("twin: explicit else", PL, "        if name in self.vars:\n            prev_value = self.vars[name]\n        else:\n            new_entry = True", "        if name not in self.vars:\n            new_entry = True\n        else:\n            prev_value = self.vars[name]", None),
        M("score queue opens the ball-end barrier after every entry", "mpf/devices/score_queue.py", "            if self._score_queue.empty():\n                self._score_queue_empty.set()", "            self._score_queue_empty.set()", "BARRIER-1"),
        M("score queued with the barrier open", "mpf/devices/score_queue.py", "        self._score_queue_empty.clear()\n        self._score_queue.put_nowait(value)", "        self._score_queue.put_nowait(value)", "BARRIER-1"),
        M("only the newest block of a context is removed", "mpf/config_players/variable_player.py", "        for _, block in self.blocks.items():  # Unused variable \"var\"\n            for entry, s in enumerate(block):\n                if s.context == context:\n                    del block[entry]", "        for block in self.blocks.values():\n            if block and block[-1].context == context:\n                block.pop()", "BLOCK-1"),
        M("twin: blocks rebuilt by filtering", "mpf/config_players/variable_player.py", "        for _, block in self.blocks.items():  # Unused variable \"var\"\n            for entry, s in enumerate(block):\n                if s.context == context:\n                    del block[entry]", "        for var, block in self.blocks.items():\n            self.blocks[var] = [s for s in block if s.context != context]", None),
        M("configured player number used as list index", "mpf/config_players/variable_player.py", "                    player = self.machine.game.player_list[entry['player'] - 1]\n                except IndexError:\n                    self.warning_log(\"Failed to set player var %s for player %s. There are only %s players.\",\n                                     var, entry['player'] - 1, self.machine.game.num_players)\n            player.set_with_kwargs", "                    player = self.machine.game.player_list[entry['player']]\n                except IndexError:\n                    self.warning_log(\"Failed to set player var %s for player %s. There are only %s players.\",\n                                     var, entry['player'] - 1, self.machine.game.num_players)\n            player.set_with_kwargs", "IDX-1"),
        M("action add overwrites", "mpf/config_players/variable_player.py", "            player.add_with_kwargs(var, value, source=context)", "            player.set_with_kwargs(var, value, source=context)", "IDX-1"),
        M("specific player ignored for add", "mpf/config_players/variable_player.py", "            player.add_with_kwargs(var, value, source=context)", "            self.machine.game.player.add_with_kwargs(var, value, source=context)", "IDX-1"),
        M("players[N] existence check off by one", "mpf/core/placeholder_manager.py", "                if len(self._machine.game.player_list) <= self._number:\n                    raise ValueError(\"Player not in game\")\n                return getattr(", "                if len(self._machine.game.player_list) < self._number:\n                    raise ValueError(\"Player not in game\")\n                return getattr(", "IDX-1"),
        M("players[N] attribute access one-based", "mpf/core/placeholder_manager.py", "                return getattr(self._machine.game.player_list[self._number], item)", "                return getattr(self._machine.game.player_list[self._number - 1], item)", "IDX-1"),
        M("twin: game aliased in variable_player", "mpf/config_players/variable_player.py", "            # default to current player\n            player = self.machine.game.player\n            if entry['player']:\n                # specific player\n                try:\n                    player = self.machine.game.player_list[entry['player'] - 1]\n                except IndexError:\n                    self.warning_log(\"Failed to set player var %s for player %s. There are only %s players.\",\n                                     var, entry['player'] - 1, self.machine.game.num_players)\n            player.add_with_kwargs", "            # default to current player\n            game = self.machine.game\n            player = game.player\n            if entry['player']:\n                # specific player\n                try:\n                    player = game.player_list[entry['player'] - 1]\n                except IndexError:\n                    self.warning_log(\"Failed to set player var %s for player %s. There are only %s players.\",\n                                     var, entry['player'] - 1, self.machine.game.num_players)\n            player.add_with_kwargs", None),
        M("modes still bound to an old player are not re-bound at turn start", MC, "            if not mode.is_game_mode:\n                continue\n            mode.player = player", "            if not mode.is_game_mode or mode.player:\n                continue\n            mode.player = player", "DOM-22"),
        M("turn changes while a stopping mode is still bound", MC, "            if mode.auto_stop_on_ball_end:\n", "            if mode.auto_stop_on_ball_end and not mode.stopping:\n", "DOM-22"),
        M("twin: turn start loop with a positive test", MC, "            if not mode.is_game_mode:\n                continue\n            mode.player = player", "            if mode.is_game_mode:\n                mode.player = player", None),
        M("score queue overwrites the player's score with the digit", "mpf/devices/score_queue.py", "                self.machine.game.player[self.name] += digit_score", "                self.machine.game.player[self.name] = digit_score", "BARRIER-1"),
        M("new player's variable events never switched on", "mpf/modes/game/code/game.py", "        player.enable_events(True, True)", "        pass", "DOM-21"),
        M("achievement group keeps its remembered selection over unload", "mpf/devices/achievement_group.py", "        self._loaded = False\n        self._selected_member = None\n", "        self._loaded = False\n", "MEMO-11"),
        M("shot group auto-enabled at mode start", "mpf/devices/shot_group.py", "    def add_control_events_in_mode(self, mode) -> None:\n        \"\"\"Remove enable here.\"\"\"\n\n", "", "RESTORE-11"),
        M("persisted state machine keeps its handlers on unload", "mpf/devices/state_machine.py", "        self._remove_handlers()\n        self.notify_virtual_change(\"state\", self.state, None)\n        self._state = None", "        self.notify_virtual_change(\"state\", self.state, None)\n        if not self.config['persist_state']:\n            self._remove_handlers()\n            self._state = None", "PAIR-12"),
        M("restart list keeps the modes that have not finished starting", MC, "        self.machine.game.player.restart_modes_on_next_ball = list()\n\n    def _ball_ending", "        self.machine.game.player.restart_modes_on_next_ball = [m for m in self.machine.game.player.restart_modes_on_next_ball if not m.active]\n\n    def _ball_ending", "RESTART-11"),
        M("restart only remembered for modes that stop at ball end", MC, "            if mode.restart_on_next_ball:", "            if mode.restart_on_next_ball and mode.auto_stop_on_ball_end:", "RESTART-11"),
        M("falsy previous value reported as 0", PL, "        new_entry = False\n        prev_value = 0\n        if name in self.vars:\n            prev_value = self.vars[name]\n        else:\n            new_entry = True\n", "        new_entry = name not in self.vars\n        prev_value = self.vars.get(name) or 0\n", "DOM-21"),
        M("twin: previous value by get with default", PL, "        new_entry = False\n        prev_value = 0\n        if name in self.vars:\n            prev_value = self.vars[name]\n        else:\n            new_entry = True\n", "        new_entry = name not in self.vars\n        prev_value = self.vars.get(name, 0)\n", None),
        M("non-game mode devices bound to whoever is up", "mpf/core/mode.py", "                device.device_loaded_in_mode(mode=self, player=self.player)", "                device.device_loaded_in_mode(mode=self, player=self.player or (self.machine.game and self.machine.game.player))", "DOM-22"),
        M("turn start wipes the per-game extra ball count", "mpf/devices/extra_ball_group.py", "        self.player = player\n        player[self._player_var_per_ball] = 0\n\n    def _ball_started", "        self.player = player\n        player[self._player_var_per_game] = 0\n\n    def _ball_started", "DOM-22"),
        M("timer tick interval evaluated once at initialisation", "mpf/devices/timer.py", "        self.tick_secs = self.config['tick_interval'].evaluate([])\n\n        try:", "        try:", "LOAD-13"),
        M("initial events skip bool variables", PL, "            if isinstance(value, (int, str, float)):\n                if isinstance(value, str):", "            if type(value) in (int, str, float):\n                if isinstance(value, str):", "DOM-21"),
    ]


def thorough(chk):
    from sa.battery import run_battery
    run_battery(chk, battery())
