"""C04 — ball counts (narrow structural clauses).

DOM-10  a ball is fired only after the target said it is ready to receive, in the same attempt;
        "ready" requires free space beyond the balls already on their way
OWN-4   who may fire an ejector        OWN-5  who may write the device ball count
DELTA-1 paired count updates: every transfer adds on one side what it removes on the other, under the
        same guard; per-ball loops run exactly `difference` times
"""
import ast

from sa.model import src, short, dotted, call_attr, kwarg, walk_local, AnalysisError, const_value, assigned_targets
from sa.index import get_index

OB = "mpf/devices/ball_device/outgoing_balls_handler.py"
BC = "mpf/devices/ball_device/ball_count_handler.py"
BD = "mpf/devices/ball_device/ball_device.py"
PF = "mpf/devices/playfield.py"


def _loop_heads(cfg):
    return [n.id for n in cfg.nodes if (n.kind == "join" and isinstance(n.ast, ast.While)) or n.kind == "loop"]


def n_awaited(node, call):
    """the call is the operand of an await evaluated at this CFG node"""
    return any(isinstance(x, ast.Await) and x.value is call for x in node.walk())


def canon_guard(g):
    from sa.cfg import canon_set
    return canon_set(g)


def _deltas(fn, attr_suffix):
    """[(stmt, target_text, sign, amount_text)] for `<x>.<attr> += / -= amount`."""
    out = []
    for n in walk_local(fn):
        if isinstance(n, ast.AugAssign) and isinstance(n.op, (ast.Add, ast.Sub)) and src(n.target).endswith(attr_suffix):
            out.append((n, src(n.target), 1 if isinstance(n.op, ast.Add) else -1, src(n.value)))
    return out


def check(chk):
    repo = chk.repo
    idx = get_index(repo)
    chk.explanation = ("C04 (narrow): the ready-to-receive gate dominates every physical eject in the same attempt and itself "
                       "requires free space beyond incoming balls; only the eject coroutine fires ejectors; only the count "
                       "handler writes the device count; count transfers are paired under the same guard. Equality of counts "
                       "with the physical world, conservation over schedules and capacity bounds as such are NOT decided.")
    # ------------------------------------------------------------- DOM-10
    f = repo.func(OB, "OutgoingBallsHandler._ejecting")
    chk.analysed(f)
    cfg = f.cfg()
    ej = [(n, c) for n, c in cfg.calls_named("_eject_ball")]
    gates = [n for n in cfg.nodes_where(lambda n: n.kind == "stmt" and n.has_await() and "wait_for_ready_to_receive" in n.text(200))]
    chk.need(ej, "DOM-10", "_ejecting fires the ball through _eject_ball", f)
    chk.ob("DOM-10", "the eject loop asks the target whether it is ready to receive", bool(gates), f.where(), construct=f.ident, text="gate present")
    heads = _loop_heads(cfg)
    for n, c in ej:
        w = cfg.path_avoiding(heads[0], [n.id], [g.id for g in gates], ignore_exc=True) if heads else cfg.path_avoiding(cfg.entry.id, [n.id], [g.id for g in gates])
        chk.ob("DOM-10", "every attempt waits for the target to be ready before the ball is fired", w is None and bool(gates), f.where(c),
               path=cfg.fmt_path(w, OB) if w else None, detail="a ball would be fired towards a device that has no room for it",
               construct=f.ident, text="eject without ready gate")
    for g in gates:
        call = [c for c in g.calls() if call_attr(c) == "wait_for_ready_to_receive"][0]
        ok = src(call.func.value) == "eject_request.target" and [src(a) for a in call.args] == ["self.ball_device"]
        chk.ob("DOM-10", "the gate asks the *target of this eject request*", ok, f.where(call), detail=src(call), construct=f.ident,
               text="gate target " + src(call.func.value))
        # nothing that can take long (another await on other devices) between gate and firing except setting the state
        between = [x for x in cfg.nodes_where(lambda x: x.kind == "stmt" and x.has_await()) if cfg.dominates(g.id, x.id) and
                   any(cfg.dominates(x.id, e.id) for e, _ in ej) and x.id != g.id and x.id not in [e.id for e, _ in ej]]
        chk.ob("DOM-10", "no other wait lies between the gate and the eject (the answer is not stale)", not between, f.where(call),
               detail="awaits in between: %s" % [b.text(60) for b in between], construct=f.ident, text="await between gate and eject")
    g_ = repo.func(BC, "BallCountHandler.wait_for_ready_to_receive")
    chk.analysed(g_)
    cfg = g_.cfg()
    rets = [n for n in cfg.nodes_where(lambda n: n.kind == "stmt" and isinstance(n.ast, ast.Return) and src(n.ast.value) == "True")]
    chk.ob("DOM-10", "wait_for_ready_to_receive has a positive answer", bool(rets), g_.where(), construct=g_.ident, text="return True present")
    for r in rets:
        gd = cfg.guards_at(r.id)
        ok = gd.get("free_space <= incoming_balls") is False or gd.get("free_space > incoming_balls") is True
        chk.ob("DOM-10", "ready only when free space exceeds the balls already on their way", ok, g_.where(r.ast), detail="guards %s" % sorted(gd.items()),
               construct=g_.ident, text="free space guard")
        ok = gd.get("self.counter.is_ready_to_receive") is True and gd.get("self.ball_device.outgoing_balls_handler.is_ready_to_receive") is True
        chk.ob("DOM-10", "ready only when counter and outgoing handler can take a ball", ok, g_.where(r.ast), construct=g_.ident, text="ready guards")
    fs = [n for n in cfg.nodes_where(lambda n: n.kind == "stmt" and isinstance(n.ast, ast.Assign) and src(n.ast.targets[0]) == "free_space")]
    ib = [n for n in cfg.nodes_where(lambda n: n.kind == "stmt" and isinstance(n.ast, ast.Assign) and src(n.ast.targets[0]) == "incoming_balls")]
    wl = [x for x in ast.walk(g_.node) if isinstance(x, ast.While)]
    inloop = bool(wl) and all(any(y is n.ast for st in wl[0].body for y in ast.walk(st)) for n in fs + ib)
    ok = bool(fs) and src(fs[0].ast.value).replace(" ", "") == "self.counter.capacity-self._ball_count" and bool(ib) and \
        "get_num_incoming_balls()" in src(ib[0].ast.value)
    chk.ob("DOM-10", "free space = capacity - counted balls, incoming = balls announced; both re-read in every round", ok and inloop, g_.where(),
           construct=g_.ident, text="free space definition")
    # waiting branches loop again (continue) instead of answering
    for b in cfg.nodes:
        if b.kind == "branch" and src(b.ast) == "free_space <= incoming_balls" and b.value is True:
            chk.ob("DOM-10", "a full device makes the caller wait, it never answers ready on that round", not any(
                r.id in cfg.reachable([b.id], avoid=_loop_heads(cfg)) for r in rets), g_.where(b.ast), construct=g_.ident, text="full -> wait")
    chk.floor("DOM-10", 6)

    # ------------------------------------------------------------- OWN-4 / OWN-5
    n_e = 0
    for u in idx.uses("eject_one_ball"):
        if u.call is None:
            continue
        n_e += 1
        chk.ob("OWN-4", "an ejector is fired only by the eject coroutine (%s)" % u.scope, (u.relpath, u.scope) == (OB, "OutgoingBallsHandler._eject_ball"),
               u.where(), construct=u.ident, text="eject_one_ball in " + u.scope)
    chk.expect(n_e >= 2, "C04: eject_one_ball call sites lost")
    for u in idx.uses("_ball_count"):
        if u.store or (isinstance(u.parent, ast.AugAssign) and u.parent.target is u.node):
            chk.ob("OWN-5", "the device ball count is written only inside BallCountHandler (%s)" % u.scope,
                   u.relpath == BC and u.cls == "BallCountHandler", u.where(), construct=u.ident, text="_ball_count store in " + u.scope)
    SETTERS_OUTSIDE = {(OB, "OutgoingBallsHandler._eject_ball"): "recount after a multi-ball eject (documented in the source)"}
    for u in idx.uses("_set_ball_count"):
        if u.call is None:
            continue
        inside = u.relpath == BC and u.cls == "BallCountHandler"
        chk.ob("OWN-5", "_set_ball_count is used by the count handler (or the tabled recount) (%s)" % u.scope,
               inside or (u.relpath, u.scope) in SETTERS_OUTSIDE, u.where(), construct=u.ident, text="_set_ball_count in " + u.scope)
    s = repo.func(BC, "BallCountHandler._set_ball_count")
    chk.analysed(s)
    cfg = s.cfg()
    st = [n for n in cfg.nodes_where(lambda n: n.kind == "stmt" and isinstance(n.ast, ast.Assign) and src(n.ast.targets[0]) == "self._ball_count")]
    mir = [n for n in cfg.nodes_where(lambda n: n.kind == "stmt" and isinstance(n.ast, ast.Assign) and src(n.ast.targets[0]) == "self.ball_device.counted_balls")]
    ok = bool(st) and bool(mir) and src(st[0].ast.value) == "count" and src(mir[0].ast.value) == "count"
    chk.ob("OWN-5", "the count and its mirror at the device are set together to the same value", ok, s.where(), construct=s.ident, text="mirror")
    hs = [(n, c) for n, c in cfg.calls_named("set", "clear") if src(c.func.value) == "self._has_balls"]
    ok = len(hs) == 2 and all((call_attr(c) == "set") == (cfg.guards_at(n.id).get("self._ball_count > 0") is True) for n, c in hs)
    chk.ob("OWN-5", "the has-balls event mirrors count > 0", ok, s.where(), construct=s.ident, text="has_balls mirror")

    # ------------------------------------------------------------- DELTA-1
    bch = repo.cls(BC, "BallCountHandler")
    f = bch.methods["start_eject"]
    cfg = f.cfg()
    inc = [(n, c) for n, c in cfg.calls_named("_set_ball_count")]
    ok = len(inc) == 1 and src(inc[0][1].args[0]).replace(" ", "") == "self._ball_count+1" and cfg.guards_at(inc[0][0].id).get("already_left") is True
    chk.ob("DELTA-1", "an already-left eject first re-adds the ball (+1, only for already_left) that end_eject will remove", ok, f.where(),
           construct=f.ident, text="start_eject +1")
    f = bch.methods["end_eject"]
    cfg = f.cfg()
    dec = [(n, c) for n, c in cfg.calls_named("_set_ball_count")]
    ok = len(dec) == 1 and src(dec[0][1].args[0]).replace(" ", "") == "self._ball_count-1" and cfg.guards_at(dec[0][0].id).get("ball_left") is True
    chk.ob("DELTA-1", "a confirmed eject removes exactly one ball from the count", ok, f.where(), construct=f.ident, text="end_eject -1")
    f = bch.methods["entrance_during_eject"]
    calls = [call_attr(c) for c in f.calls()]
    ok = "ball_arrived" in calls and any(call_attr(c) == "_set_ball_count" and src(c.args[0]).replace(" ", "") == "self._ball_count+1" for c in f.calls())
    chk.ob("DELTA-1", "a ball entering during an eject is announced and counted (+1)", ok, f.where(), construct=f.ident, text="entrance +1")
    # ... on every path: the arrival is announced (the playfield gives the ball up) and counted together; an arrival that is announced but not
    # counted is found again by the next recount and taken from the playfield a second time
    chk.analysed(f)
    ecf = f.cfg()
    ann = [n.id for n, c in ecf.calls_named("ball_arrived")]
    cnt = [n.id for n, c in ecf.calls_named("_set_ball_count") if c.args and src(c.args[0]).replace(" ", "") == "self._ball_count+1"]
    for a_ in ann:
        w_ = ecf.must_pass(a_, cnt) if cnt else [a_]
        chk.ob("DELTA-1", "every ball announced as arrived during an eject is counted on every path (no further condition)", w_ is None, f.where(), construct=f.ident,
               detail="during an eject the handled count still includes the ball that is leaving: `is_full` says nothing about room",
               text="entrance during eject counted on every path", path=ecf.fmt_path(w_, f) if w_ and len(w_) > 1 else None, nontrivial=True)
    for name in ("_run", "wait_for_ball"):
        f = bch.methods[name]
        chk.analysed(f)
        cfg = f.cfg()
        loops = [h for h in cfg.nodes if h.kind == "loop" and any(call_attr(c) == "ball_arrived" for st in h.ast.body for c in ast.walk(st) if isinstance(c, ast.Call))]
        chk.ob("DELTA-1", "%s announces newly counted balls" % name, bool(loops), f.where(), construct=f.ident, text="arrival loop in " + name)
        for h in loops:
            ok = src(h.ast.iter).replace(" ", "") == "range(new_balls-old_ball_count)"
            gd = cfg.guards_at(h.id)
            ok = ok and gd.get("new_balls > old_ball_count") is True
            chk.ob("DELTA-1", "%s announces exactly (new - old) arrived balls, only when the count grew" % name, ok, f.where(h.ast),
                   detail="%s under %s" % (src(h.ast.iter), sorted(gd.items())), construct=f.ident, text="arrival loop range")
        sc = [(n, c) for n, c in cfg.calls_named("_set_ball_count") if src(c.args[0]) == "new_balls"]
        ok = bool(sc) and all(cfg.guards_at(n.id).get("new_balls > old_ball_count") is True or "missing" in f.name for n, c in sc)
        chk.ob("DELTA-1", "%s stores the newly counted number when it grew" % name, ok, f.where(), construct=f.ident, text="store new count")
    f = bch.methods["_run"]
    cfg = f.cfg()
    mb = [(n, c) for n, c in cfg.calls_named("_handle_missing_balls")]
    ok = bool(mb) and all(cfg.guards_at(n.id).get("new_balls < old_ball_count") is True and
                          [src(a).replace(" ", "") for a in c.args] == ["new_balls", "old_ball_count-new_balls"] for n, c in mb)
    chk.ob("DELTA-1", "missing balls are handled only when the count shrank, with the exact difference", ok, f.where(), construct=f.ident,
           text="missing balls diff")
    # a count that dropped by N while idle is accounted for ball by ball: the single-ball report runs N times
    f = bch.methods["_handle_missing_balls"]
    chk.analysed(f)
    cfg = f.cfg()
    lost = [(n, c) for n, c in cfg.calls_named("lost_idle_ball")]
    if not lost:
        chk.missing("DELTA-1", "balls that vanished from an idle device are reported (lost_idle_ball)", f)
    lid = repo.func(BD, "BallDevice.lost_idle_ball")
    per_ball = any(isinstance(x, ast.AugAssign) and src(x.target) == "self.available_balls" and isinstance(x.op, ast.Sub) and src(x.value) == "1"
                   for x in ast.walk(lid.node)) and len([p_ for p_ in lid.params() if p_ != "self"]) == 0
    for n, c in lost:
        loops = [h for h in cfg.nodes if h.kind == "loop" and any(x is c for st in h.ast.body for x in ast.walk(st))]
        ok = (not per_ball) or (bool(loops) and src(loops[-1].ast.iter).replace(" ", "") == "range(missing_balls)")
        chk.ob("DELTA-1", "each of the `missing_balls` balls lost while idle is reported (lost_idle_ball accounts for exactly one)", ok, f.where(c),
               detail="one report for N missing balls: the playfield gains one ball although N are loose", construct=f.ident,
               text="lost_idle_ball per missing ball")
        st = [x.id for x, cc in cfg.calls_named("_set_ball_count") if cc.args and src(cc.args[0]) == "new_balls"]
        chk.ob("DELTA-1", "the device's own count is set to the recount before the losses are reported", bool(st) and any(cfg.dominates(s_, n.id) for s_ in st),
               f.where(c), construct=f.ident, text="recount stored before loss report")
    # the other reporter of vanished balls: the check after an eject (the kick threw out more than one ball).  What it reports it also books:
    # every path from the loss report to the end of the eject stores the recount; otherwise the idle recount sees the same ball missing and
    # reports it a second time (the playfield gains two balls for one)
    ej = repo.func(OB, "OutgoingBallsHandler._eject_ball")
    chk.analysed(ej)
    ecfg = ej.cfg()
    rep = [(n, c) for n, c in ecfg.calls_named("lost_idle_ball")]
    chk.need(rep, "DELTA-1", "the eject checks for balls that left with the ejected one (lost_idle_ball after the recount)", ej)
    stores = [n.id for n, c in ecfg.calls_named("_set_ball_count") if c.args and src(c.args[0]) == "new_balls"]
    for n, c in rep:
        w = ecfg.path_avoiding(n.id, [ecfg.exit.id], stores, ignore_exc=True) if stores else [n.id]
        chk.ob("DELTA-1", "a ball reported lost after an eject is also taken off the device's count on every path (stored recount)", w is None, ej.where(c),
               detail="without the stored recount the counting loop finds the same ball missing once the device is idle and reports it again",
               construct=ej.ident, text="double-eject loss booked", path=ecfg.fmt_path(w, ej) if w and len(w) > 1 else None, nontrivial=True)
        from sa.helpers import inloop_guards as _ilg
        loops_ = [h for h in ecfg.nodes if h.kind == "loop" and any(x is c for st in h.ast.body for x in ast.walk(st))]
        ok = (not per_ball) or (bool(loops_) and src(loops_[-1].ast.iter).replace(" ", "") in ("range(0,old_balls-new_balls)", "range(old_balls-new_balls)") and
                                not _ilg(ecfg, n.id, loops_[-1].id))
        chk.ob("DELTA-1", "each of the (expected - recounted) balls that left with the ejected one is reported (lost_idle_ball accounts for exactly one)", ok, ej.where(c),
               detail="one report for N extra balls: N-1 balls are loose that no count knows about", construct=ej.ident, text="double-eject loss per ball")
        g = ecfg.guards_at(n.id)
        chk.ob("DELTA-1", "the loss after an eject is reported only when the recount is below the expected count", g.get("new_balls < old_balls") is True or g.get("old_balls > new_balls") is True,
               ej.where(c), detail=str(sorted(g.items())), construct=ej.ident, text="double-eject loss condition")
    # a switch counter whose count is unreliable (a ball switch was active when the eject began: the stack may still settle) does not guess:
    # the ball-left timer lowers the count exactly when the count is reliable; otherwise only the recount decides
    SCF = "mpf/devices/ball_device/switch_counter.py"
    bl = repo.func(SCF, "SwitchCounter._ball_left")
    chk.analysed(bl)
    bcfg = bl.cfg()
    decs = [n for n in bcfg.nodes if n.kind == "stmt" and isinstance(n.ast, ast.AugAssign) and src(n.ast.target) == "self._last_count" and isinstance(n.ast.op, ast.Sub)]
    chk.need(decs, "DELTA-1", "SwitchCounter._ball_left lowers the count when the ball has left", bl)
    from sa.cfg import canon_set as _csb, canon_fact as _cfb
    from sa.helpers import positive as _posb
    for n in decs:
        got = _posb(set(_csb(bcfg.guards_at(n.id))))
        want = _posb({_cfb("self._is_unreliable", False), _cfb("future.cancelled()", False)})
        chk.ob("DELTA-1", "the ball-left timer lowers the switch counter's count exactly when the count is reliable", got == want, bl.where(n.ast),
               detail="lowered under %s" % sorted(got), construct=bl.ident, text="ball left decrement condition")
    rc_ = [n.id for n, c in bcfg.calls_named("trigger_recount")]
    w_ = bcfg.path_avoiding(bcfg.entry.id, [bcfg.exit.id], rc_ + [b.id for b in bcfg.nodes if b.kind == "branch" and src(b.ast) == "future.cancelled()" and b.value is True], ignore_exc=True) if rc_ else [0]
    chk.ob("DELTA-1", "every ball-left timer that was not cancelled asks for a recount", w_ is None, bl.where(), construct=bl.ident, text="ball left recount")
    # the switches that are counted are the switches that are watched: every loop of the switch counter that counts or registers handlers walks
    # the same collection (`self._switches`: the ball switches plus a separate jam switch); a ball that comes to rest on a switch that is
    # counted but not watched is never noticed
    scc = repo.cls(SCF, "SwitchCounter")
    init_ = scc.methods["__init__"]
    chk.analysed(init_)
    reg_loops = [x for x in walk_local(init_.node) if isinstance(x, ast.For) and any(isinstance(c, ast.Call) and call_attr(c) == "add_switch_handler_obj" for c in ast.walk(x))]
    cnt_loops = [(m_, x) for m_ in scc.methods.values() if m_ is not init_ for x in walk_local(m_.node) if isinstance(x, ast.For) and "switch" in src(x.target) and
                 src(x.iter).startswith("self.")]
    chk.need(reg_loops and cnt_loops, "WINDOW-4", "the switch counter registers handlers per switch and counts per switch", init_)
    watched = {src(x.iter) for x in reg_loops}
    counted = {src(x.iter) for _, x in cnt_loops}
    chk.ob("WINDOW-4", "the switch counter watches exactly the switches it counts (one collection for handlers and for counting)", watched == counted == {"self._switches"},
           init_.where(reg_loops[0]), detail="handlers for %s, counting over %s" % (sorted(watched), sorted(counted)), construct=init_.ident, text="watched vs counted switches")
    cbs_ = sorted({(const_value(kwarg(c, "state")), src(kwarg(c, "callback"))) for x in reg_loops for c in ast.walk(x) if isinstance(c, ast.Call) and
                   call_attr(c) == "add_switch_handler_obj" and kwarg(c, "callback") is not None and kwarg(c, "state") is not None})
    chk.ob("WINDOW-4", "each watched switch invalidates the count at once and asks for a recount after the debounce, on both edges",
           cbs_ == [(0, "self.invalidate_count"), (0, "self.trigger_recount"), (1, "self.invalidate_count"), (1, "self.trigger_recount")], init_.where(reg_loops[0]),
           detail=str(cbs_), construct=init_.ident, text="switch counter handler set")
    # a ball that skips the device (plunged before the device saw it) is booked on the target once: the queued route has claimed the target's
    # ball already when the chain was set up (setup_eject_chain: target.available_balls += 1), so only the unqueued route (_run, no request)
    # tells _skipping_ball to add it
    sk_calls = [(m_, c) for m_ in repo.cls(OB, "OutgoingBallsHandler").methods.values() for c in m_.calls() if call_attr(c) == "_skipping_ball"]
    want_flag = {"_run": True, "_ejecting": False}
    got_flag = {m_.name: (const_value(c.args[1]) if len(c.args) > 1 else (const_value(kwarg(c, "add_ball_to_target")) if kwarg(c, "add_ball_to_target") is not None else None))
                for m_, c in sk_calls}
    chk.ob("CLAIM-4", "a skipping ball is added to the target's claim only on the unqueued route (the queued route claimed it when the chain was set up)", got_flag == want_flag,
           "%s:%d" % (OB, sk_calls[0][1].lineno if sk_calls else 1), detail="add_ball_to_target per caller: %s" % got_flag, construct=OB + "::OutgoingBallsHandler._skipping_ball",
           text="skipping ball claim flag")
    # hold-coil devices: a release in progress suspends holding (hold() returns early while the flag is set); the release's completion
    # always ends that state - also when the device ran empty - or the coil is never energised again and the next ball that is counted in
    # rolls straight out (count 1, device physically empty)
    HC = "mpf/devices/ball_device/hold_coil_ejector.py"
    hd = repo.func(HC, "HoldCoilEjector._hold_release_done")
    ho = repo.func(HC, "HoldCoilEjector.hold")
    ej1 = repo.func(HC, "HoldCoilEjector.eject_one_ball")
    chk.analysed(hd, ho, ej1)
    hcfg = hd.cfg()
    clr = [n.id for n in hcfg.nodes if n.kind == "stmt" and isinstance(n.ast, ast.Assign) and src(n.ast.targets[0]) == "self.hold_release_in_progress" and src(n.ast.value) == "False"]
    w = hcfg.must_pass(hcfg.entry.id, clr) if clr else [hcfg.entry.id]
    chk.ob("HOLD-4", "every returning path of the hold release's completion ends the release state (also when no ball is left)", w is None, hd.where(), construct=hd.ident,
           detail="hold() does nothing while hold_release_in_progress is set", text="hold release state ended", path=hcfg.fmt_path(w, hd) if w and len(w) > 1 else None, nontrivial=True)
    sets_ = [x for x in walk_local(ej1.node) if isinstance(x, ast.Assign) and src(x.targets[0]) == "self.hold_release_in_progress" and src(x.value) == "True"]
    arm_ = [c for c in ej1.calls() if call_attr(c) in ("add", "reset") and "delay" in src(c.func.value) and "_hold_release_done" in src(c)]
    chk.ob("HOLD-4", "a release marks the state and arms its completion", bool(sets_) and bool(arm_), ej1.where(), construct=ej1.ident, text="hold release armed")
    ocfg = ho.cfg()
    en_ = [n for n, c in ocfg.calls_named("_enable_hold_coil")]
    ok = bool(en_) and all(ocfg.guards_at(n.id).get("self.hold_release_in_progress") is False or ocfg.guards_at(n.id).get("not self.hold_release_in_progress") is True for n in en_)
    chk.ob("HOLD-4", "the hold coil is not re-energised while a release is in progress", ok, ho.where(), construct=ho.ident, text="hold suspended during release", nontrivial=False)
    # available_balls transfer in setup_eject_chain
    f = repo.func(BD, "BallDevice.setup_eject_chain")
    chk.analysed(f)
    cfg = f.cfg()
    ds = _deltas(f.node, ".available_balls")
    minus = [d for d in ds if d[1] == "self.available_balls" and d[2] == -1 and d[3] == "1"]
    plus = [d for d in ds if d[1] == "target.available_balls" and d[2] == 1 and d[3] == "1"]
    ok = len(minus) == 1 and len(plus) == 1 and len(ds) == 2
    chk.ob("DELTA-1", "an eject chain moves exactly one available ball from the source to the final target", ok, f.where(),
           detail="deltas %s" % [(d[1], d[2], d[3]) for d in ds], construct=f.ident, text="chain transfer")
    if ok:
        mn = [n for n in cfg.nodes if n.kind == "stmt" and n.ast is minus[0][0]][0]
        pn = [n for n in cfg.nodes if n.kind == "stmt" and n.ast is plus[0][0]][0]
        w1 = cfg.must_pass(cfg.entry.id, [mn.id])
        w2 = cfg.must_pass(mn.id, [pn.id])
        chk.ob("DELTA-1", "both halves of the transfer happen on every completed path", w1 is None and w2 is None, f.where(), construct=f.ident,
               text="chain transfer paths")
        gd = cfg.guards_at(mn.id)
        chk.ob("DELTA-1", "a chain is never set up without an available ball (count cannot go negative)", gd.get("self.available_balls <= 0") is False,
               f.where(minus[0][0]), construct=f.ident, text="available guard")
        tg = [x for x in walk_local(f.node) if isinstance(x, ast.Assign) and src(x.targets[0]) == "target"]
        ok = bool(tg) and src(tg[0].value).replace(" ", "") in ("path[len(path)-1]", "path[-1]")
        chk.ob("DELTA-1", "the credited target is the last hop of the path", ok, f.where(), construct=f.ident, text="target last hop")
    f = repo.func(BD, "BallDevice._balls_added_callback")
    ds = _deltas(f.node, ".available_balls")
    ok = len(ds) == 1 and ds[0][1:] == ("self.available_balls", 1, "new_balls")
    chk.ob("DELTA-1", "newly entered balls become available balls one to one", ok, f.where(), construct=f.ident, text="added balls")
    # playfield
    pf = repo.cls(PF, "Playfield")
    f = pf.methods["_source_device_eject_success"]
    cfg = f.cfg()
    ds = _deltas(f.node, "balls") + _deltas(f.node, "num_balls_requested")
    got = sorted({(d[1], d[2], d[3]) for d in ds})
    ok = got == sorted({("self.balls", 1, "balls"), ("self.num_balls_requested", -1, "balls")})
    chk.ob("DELTA-1", "a confirmed eject to the playfield adds the balls and settles the same number of requests", ok, f.where(),
           detail=str(got), construct=f.ident, text="pf eject success")
    for n in cfg.nodes_where(lambda n: n.kind == "stmt" and isinstance(n.ast, ast.AugAssign)):
        chk.ob("DELTA-1", "playfield counts change only for ejects aimed at this playfield", cfg.guards_at(n.id).get("target == self") is True,
               f.where(n.ast), construct=f.ident, text="pf target guard")
    for name, attr, sign in (("_source_device_ejecting_ball", "self.num_balls_requested", 1), ("_source_device_eject_failed", "self.num_balls_requested", -1)):
        f = pf.methods[name]
        cfg = f.cfg()
        ds = _deltas(f.node, "num_balls_requested")
        ok = len(ds) == 1 and ds[0][1:] == (attr, sign, "balls")
        ok = ok and all(cfg.guards_at(n.id).get("target == self") is True for n in cfg.nodes_where(lambda n: n.kind == "stmt" and isinstance(n.ast, ast.AugAssign)))
        chk.ob("DELTA-1", "%s %s the expected balls of this playfield by `balls`" % (name, "raises" if sign > 0 else "lowers"), ok, f.where(),
               construct=f.ident, text="pf requested " + name)
    f = pf.methods["_ball_removed_handler2"]
    ds = _deltas(f.node, "balls")
    got = sorted({(d[1], d[2], d[3]) for d in ds})
    ok = got == sorted({("self.balls", -1, "balls"), ("self.available_balls", -1, "balls")})
    loops = [x for x in walk_local(f.node) if isinstance(x, ast.For) and src(x.iter) == "range(balls)" and
             any(call_attr(c) == "add_captured_ball" for c in ast.walk(x) if isinstance(c, ast.Call))]
    chk.ob("DELTA-1", "balls captured from the playfield leave both playfield counts and are reported once each", ok and bool(loops), f.where(),
           detail=str(got), construct=f.ident, text="pf ball removed")
    f = pf.methods.get("add_missing_balls") or pf.methods.get("add_ball")
    g = repo.func(PF, "Playfield.add_missing_balls")
    ds = _deltas(g.node, "balls")
    got = sorted({(d[1], d[2], d[3]) for d in ds})
    chk.ob("DELTA-1", "a ball assumed to have jumped to the playfield is added to both playfield counts", got == sorted({("self.balls", 1, "balls"), ("self.available_balls", 1, "balls")}),
           g.where(), detail=str(got), construct=g.ident, text="pf missing balls")
    chk.floor("DELTA-1", 13)

    # ------------------------------------------------------------- DELTA-1: balancing the books between playfields
    BCT = "mpf/core/ball_controller.py"
    f = repo.func(BCT, "BallController._balance_playfields")
    chk.analysed(f)
    cfg = f.cfg()
    ds = _deltas(f.node, "balls")
    got = sorted((d[1], d[2], d[3]) for d in ds)
    want = sorted([("playfield_source.balls", -1, "1"), ("playfield_source.available_balls", -1, "1"), ("playfield_target.balls", 1, "1"),
                   ("playfield_target.available_balls", 1, "1")])
    chk.ob("DELTA-1", "a ball assumed to have jumped between playfields leaves both counts of the source and enters both counts of the target", got == want,
           f.where(), detail=str(got), construct=f.ident, text="playfield jump transfer")
    if got == want:
        nodes = [n for n in cfg.nodes if n.kind == "stmt" and any(n.ast is d[0] for d in ds)]
        inner = [h for h in cfg.nodes if h.kind == "loop" and any(y is ds[0][0] for y in ast.walk(h.ast))]
        inner = inner[-1] if inner else None
        from sa.helpers import inloop_guards
        from sa.cfg import canon_fact
        gs = [inloop_guards(cfg, n.id, inner.id) if inner else set() for n in nodes]
        ok = inner is not None and all(g == gs[0] for g in gs) and gs[0] == {canon_fact("playfield_source.balls > 0", True)}
        chk.ob("DELTA-1", "all four halves of the transfer happen together, exactly for a source playfield that has a ball", ok, f.where(ds[0][0]),
               detail=str([sorted(g) for g in gs][:1]), construct=f.ident, text="playfield jump selection")
        outer = [h for h in cfg.nodes if h.kind == "loop" and h is not inner and any(y is ds[0][0] for y in ast.walk(h.ast))]
        if outer and inner is not None:
            og = inloop_guards(cfg, inner.id, outer[0].id)
            chk.ob("DELTA-1", "balls are moved only to a playfield whose count is negative", og == {canon_fact("playfield_target.balls < 0", True)}, f.where(inner.ast),
                   detail=str(sorted(og)), construct=f.ident, text="playfield jump target selection")
            # exactly one ball per deficient playfield per pass: after a transfer the search for a source ends
            last = max(nodes, key=lambda n: n.lineno)
            again = inner.id in cfg.reachable([last.id], avoid=[outer[0].id], include_start=False)
            chk.ob("DELTA-1", "one deficit is settled with one ball: the search for a source ends after a transfer", not again, f.where(last.ast),
                   detail="without leaving the loop every playfield that has a ball gives one: balls appear on the books that are nowhere", construct=f.ident,
                   text="playfield jump takes from every source")

    # ------------------------------------------------------------- LOST-1: a lost ball is handed over exactly once, on every path
    bd = repo.cls(BD, "BallDevice")
    MT = "self.config['ball_missing_target']"
    for name, who, ask in (("lost_idle_ball", "self", None), ("lost_ejected_ball", "target", "eject"), ("lost_incoming_ball", "self", "request_ball")):
        f = bd.methods[name]
        chk.analysed(f)
        cfg = f.cfg()
        adds = [(n, c) for n, c in cfg.calls_named("add_missing_balls")]
        ok = len(adds) == 1 and src(adds[0][1].func.value) == MT and [src(a) for a in adds[0][1].args] == ["1"]
        chk.ob("LOST-1", "%s hands exactly one ball to the ball_missing_target" % name, ok, f.where(), detail=str([src(c) for _, c in adds]),
               construct=f.ident, text=name + " hand-over")
        rep = [(n, c) for n, c in cfg.calls_named("_balls_missing")]
        ok2 = len(rep) == 1 and [src(a) for a in rep[0][1].args] == ["1"] and n_awaited(rep[0][0], rep[0][1])
        chk.ob("LOST-1", "%s reports exactly one missing ball (awaited)" % name, ok2, f.where(), construct=f.ident, text=name + " report")
        if ok and ok2:
            exits = [n.id for n in cfg.nodes if n.kind == "exit"]
            w = cfg.path_avoiding(cfg.entry.id, exits, [adds[0][0].id]) or cfg.path_avoiding(cfg.entry.id, exits, [rep[0][0].id])
            chk.ob("LOST-1", "every path of %s that does not raise hands the ball over and reports it" % name, w is None, f.where(),
                   path=cfg.fmt_path(w, BD) if w else None, construct=f.ident, text=name + " all paths")
        ds = _deltas(f.node, ".available_balls")
        want = ("%s.available_balls" % who, -1, "1")
        ok = len(ds) == 1 and ds[0][1:] == want
        chk.ob("LOST-1", "%s takes exactly one available ball from %s" % (name, who), ok, f.where(), detail=str([d[1:] for d in ds]), construct=f.ident,
               text=name + " available delta")
        if not ok:
            continue
        dn = [n for n in cfg.nodes if n.kind == "stmt" and n.ast is ds[0][0]][0]
        if ask is None:
            w = cfg.path_avoiding(cfg.entry.id, [n.id for n in cfg.nodes if n.kind == "exit"], [dn.id])
            chk.ob("LOST-1", "%s lowers the available balls on every path" % name, w is None, f.where(), construct=f.ident, text=name + " unconditional")
            continue
        # path restoring: the ball is taken off exactly when a replacement is requested, and only when one was found on the path
        rq = [(n, c) for n, c in cfg.calls_named(ask) if src(c.func.value) == "self"]
        ok = len(rq) == 1
        if ok:
            g1, g2 = cfg.guards_at(dn.id), cfg.guards_at(rq[0][0].id)
            found = [k for k, v in g1.items() if "find_available_ball_in_path" in k and v is True]
            cancelled = [k for k, v in g1.items() if "cancel_path_if_target_is" in k and v is False]
            ok = bool(found) and bool(cancelled) and canon_guard(g1) == canon_guard(g2) and cfg.must_pass(dn.id, [rq[0][0].id]) is None
        chk.ob("LOST-1", "%s: one available ball is taken off exactly when a replacement was found on the path and is requested (path not cancelled)" % name,
               ok, f.where(ds[0][0]), construct=f.ident, text=name + " restore pairing")
        if ask == "eject":
            t = kwarg(rq[0][1], "target") if rq else None
            chk.ob("LOST-1", "the replacement is sent to the device that lost the ball", t is not None and src(t) == "target", f.where(), construct=f.ident,
                   text=name + " replacement target")
    # per-ball loops of the arrival callback
    f = bd.methods["_balls_added_callback"]
    chk.analysed(f)
    loops = [x for x in walk_local(f.node) if isinstance(x, ast.For)]
    n_ok = 0
    for lp in loops:
        calls = {call_attr(c) for c in ast.walk(lp) if isinstance(c, ast.Call)}
        if calls & {"_setup_or_queue_eject_to_target", "setup_eject_chain"}:
            ok = src(lp.iter) == "range(unclaimed_balls)"
            chk.ob("LOST-1", "one eject is set up per unclaimed ball", ok, f.where(lp), detail=src(lp.iter), construct=f.ident, text="unclaimed loop")
            n_ok += 1
        elif "post_boolean" in calls:
            ok = src(lp.iter) == "range(new_balls)"
            chk.ob("LOST-1", "balls_available is announced once per new ball", ok, f.where(lp), detail=src(lp.iter), construct=f.ident, text="announce loop")
            n_ok += 1
    chk.ob("LOST-1", "the arrival callback ejects per unclaimed ball (drain and default branch) and announces per new ball", n_ok >= 3, f.where(),
           detail="%d loops" % n_ok, construct=f.ident, text="arrival loops")
    chk.floor("LOST-1", 14)

    # ------------------------------------------------------------- BOUND-3: entrance-counted devices never count beyond capacity
    from sa.helpers import feasible_paths
    ES = "mpf/devices/ball_device/entrance_switch_counter.py"
    ec = repo.cls(ES, "EntranceSwitchCounter")
    CAP = "self.config['ball_capacity']"
    n_st = 0
    for m in ec.methods.values():
        cfg = None
        for x in walk_local(m.node):
            if not (isinstance(x, (ast.Assign, ast.AugAssign)) and any(src(t) == "self._last_count" for t in assigned_targets(x))):
                continue
            cfg = cfg or m.cfg()
            chk.analysed(m)
            n_st += 1
            node = [n for n in cfg.nodes if n.kind == "stmt" and n.ast is x][0]
            if isinstance(x, ast.Assign):
                v = src(x.value)
                ok = v in ("0", CAP, "None")
                chk.ob("BOUND-3", "entrance counter is set to 0 or to the capacity (%s)" % m.name, ok, m.where(x), detail="= " + v,
                       construct=m.ident, text="_last_count = " + v)
            elif isinstance(x.op, ast.Sub):
                chk.ob("BOUND-3", "entrance counter drops by one per ball that left (%s)" % m.name, src(x.value) == "1", m.where(x),
                       construct=m.ident, text="_last_count -= " + src(x.value))
            else:
                amt = src(x.value)
                paths = feasible_paths(cfg, cfg.entry.id, [node.id])
                if amt == "1":
                    bad = None
                    for pth, fx in paths:
                        if not (fx.get("%s <= self._last_count" % CAP) is False or fx.get(CAP) is False or
                                fx.get("self._last_count < %s" % CAP) is True or fx.get("%s > self._last_count" % CAP) is True):
                            bad = pth
                            break
                    chk.ob("BOUND-3", "a ball is counted only while the device is below its capacity (%s)" % m.name, bool(paths) and bad is None,
                           m.where(x), path=cfg.fmt_path(bad, ES) if bad else None,
                           detail="a full entrance-counted device would count capacity+1 (and capture a ball that is still loose)",
                           construct=m.ident, text="_last_count += 1 beyond capacity")
                else:
                    d = [y for y in walk_local(m.node) if isinstance(y, ast.Assign) and src(y.targets[0]) == amt]
                    ok = len(d) == 1 and src(d[0].value).replace(" ", "") == (CAP + "-self._last_count").replace(" ", "") and \
                        cfg.guards_at(node.id).get("%s > 0" % amt) is True
                    chk.ob("BOUND-3", "a bulk increase fills the device exactly to capacity (%s)" % m.name, ok, m.where(x), construct=m.ident,
                           text="_last_count += %s" % amt)
    chk.expect(n_st >= 3, "C04: stores to the entrance counter lost (%d)" % n_st)
    _snapshots_and_jam(chk, repo)
    _eject_outcome_and_give_up(chk, repo)
    _claims_move_in_pairs(chk, repo)
    _tracking_starts_from_stable_count(chk, repo)
    _entrance_windows_per_switch(chk, repo)


def _snapshots_and_jam(chk, repo):
    """SNAP-4: the count handler computes `new - old` with an `old` it read *in the same breath* as it writes the new count: between
    the snapshot `old = self._ball_count` and the store of the new count nothing is awaited (the counting loop and wait_for_ball both
    write the count; a snapshot taken before an await is the other coroutine's old news and the same ball is booked twice).
    JAM-4: the switch counter distrusts a count of one with the jam switch active only when it had balls before (a lone ball that comes
    to rest on the jam switch of an empty device is a ball); every other count that differs from the last one is recorded ball by ball
    and becomes the last count."""
    from sa.cfg import canon_set, canon_fact
    from sa.helpers import positive
    n_s = 0
    for name in ("wait_for_ball", "_run"):
        f = repo.func(BC, "BallCountHandler." + name)
        chk.analysed(f)
        cfg = f.cfg()
        snaps = [n for n in cfg.nodes if n.kind == "stmt" and isinstance(n.ast, ast.Assign) and isinstance(n.ast.targets[0], ast.Name) and
                 src(n.ast.value) == "self._ball_count"]
        stores = [n for n in cfg.nodes if n.kind == "stmt" and ((isinstance(n.ast, ast.Assign) and src(n.ast.targets[0]) == "self._ball_count") or
                                                                 any(call_attr(c) == "_set_ball_count" for c in n.calls()))]
        aw = {n.id for n in cfg.nodes if n.kind == "stmt" and n.has_await()}
        chk.need(snaps and stores, "SNAP-4", "%s snapshots the old count and stores the new one" % name, f)
        for sn in snaps:
            n_s += 1
            first = [st for st in stores if st.id in cfg.reachable([sn.id])]
            stale = None
            for st in first:
                for w in aw:
                    if w in (sn.id, st.id):
                        continue
                    if cfg.path_avoiding(sn.id, [w], [x.id for x in stores], ignore_exc=True) and cfg.path_avoiding(w, [st.id], [], ignore_exc=True, include_start=False) and \
                            cfg.path_avoiding(sn.id, [st.id], [], ignore_exc=True) and not cfg.dominates(st.id, w):
                        # w lies between the snapshot and the store on some path
                        p1 = cfg.path_avoiding(sn.id, [w], [x.id for x in stores], ignore_exc=True)
                        p2 = cfg.path_avoiding(w, [st.id], [sn.id], ignore_exc=True)
                        if p1 and p2:
                            stale = stale or (p1 + p2[1:])
            # the snapshot must also come after the await that delivered the new count
            src_aw = [w for w in aw if isinstance(cfg.nodes[w].ast, ast.Assign) and src(cfg.nodes[w].ast.targets[0]) == "new_balls"]
            before = any(cfg.dominates(w, sn.id) for w in src_aw)
            chk.ob("SNAP-4", "%s reads the old count after the new one arrived and writes the new one without awaiting in between" % name,
                   stale is None and before, f.where(sn.ast), path=cfg.fmt_path(stale, BC) if stale else None,
                   detail="" if before else "the snapshot is taken before the await that delivers the new count", construct=f.ident, text="stale count snapshot in " + name)
    chk.ob("SNAP-4", "count snapshots examined", n_s >= 2, BC + ":1", detail=str(n_s), nontrivial=False)

    SWC = "mpf/devices/ball_device/switch_counter.py"
    f = repo.func(SWC, "SwitchCounter._run")
    chk.analysed(f)
    cfg = f.cfg()
    unrel = [n for n in cfg.nodes if n.kind == "stmt" and isinstance(n.ast, ast.Assign) and src(n.ast.targets[0]) == "self._is_unreliable" and src(n.ast.value) == "True"]
    chk.need(len(unrel) == 1, "JAM-4", "SwitchCounter._run marks the count unreliable", f)
    g = positive(set(canon_set(cfg.guards_at(unrel[0].id))))
    want = positive({canon_fact("self.is_jammed()", True), canon_fact("new_count == 1", True), canon_fact("self._last_count != 0", True),
                     canon_fact("self._is_unreliable", False)})
    heads = [h for h in cfg.nodes if h.kind == "join" and isinstance(h.ast, ast.While)]
    gh = positive(set(canon_set(cfg.guards_at(heads[0].id)))) if heads else set()
    extra = {x for x in (g - gh) if x[0] not in ("self._last_count is None", "self._last_count < 0", "None is self._last_count", "0 > self._last_count", "True")}
    chk.ob("JAM-4", "the count is distrusted exactly when only the jam switch is active and the device had balls before", extra == want, f.where(unrel[0].ast),
           detail="guards %s" % sorted(extra), construct=f.ident, text="jam distrust guard")
    upd = [n for n in cfg.nodes if n.kind == "stmt" and isinstance(n.ast, ast.Assign) and src(n.ast.targets[0]) == "self._last_count" and src(n.ast.value) == "new_count" and
           cfg.guards_at(n.id).get("self._last_count is None") is not True]
    diff = [n for n in cfg.nodes if n.kind == "branch" and n.value is False and src(n.ast).replace(" ", "") in ("new_count==self._last_count", "self._last_count==new_count")]
    ok = len(upd) == 1 and len(diff) == 1 and bool(heads) and cfg.path_avoiding(diff[0].id, [heads[0].id], [upd[0].id], ignore_exc=True) is None
    chk.ob("JAM-4", "a trusted count that differs from the last one becomes the last count", ok, f.where(), construct=f.ident, text="last count update")


def _eject_outcome_and_give_up(chk, repo):
    """ENDEJ-4: the count handler is told whether the ball left (end_eject(process, ball_left)): what it is told is the outcome of the
    confirmation awaited in the same function, or False where the eject was abandoned before a ball could leave - never an assumed True
    (the device count is decremented on True: a ball that came back would be counted out and then captured from the playfield).
    GIVEUP-4: when ball search gives up the balls written off the machine total are exactly the balls the playfield count held, read
    before that count is zeroed."""
    OBH = "mpf/devices/ball_device/outgoing_balls_handler.py"
    n = 0
    for m in repo.cls(OBH, "OutgoingBallsHandler").methods.values():
        for c in m.calls():
            if call_attr(c) != "end_eject" or not src(c.func.value).endswith("ball_count_handler") or len(c.args) < 2:
                continue
            n += 1
            chk.analysed(m)
            a = c.args[1]
            ok = isinstance(a, ast.Constant) and a.value is False
            if isinstance(a, ast.Name):
                defs = [x for x in walk_local(m.node) if isinstance(x, ast.Assign) and src(x.targets[0]) == a.id]
                ok = bool(defs) and all(isinstance(d.value, ast.Await) and isinstance(d.value.value, ast.Call) and
                                        (call_attr(d.value.value) or "").startswith(("_handle_confirm", "_handle_late_confirm", "_handle_eject")) or
                                        (isinstance(d.value, ast.Constant) and d.value.value is False) for d in defs)
            chk.ob("ENDEJ-4", "%s tells the count handler the awaited outcome of the confirmation (or False), never an assumed True" % m.qualname, ok, m.where(c),
                   detail="ball_left = %s" % src(a), construct=m.ident, text="end_eject outcome " + src(a))
    chk.ob("ENDEJ-4", "end_eject call sites examined (%d)" % n, n >= 3, OBH + ":1", nontrivial=False)
    BS_ = "mpf/core/ball_search.py"
    g = repo.func(BS_, "BallSearch.give_up")
    chk.analysed(g)
    cfg = g.cfg()
    sub = [x for x in cfg.nodes if x.kind == "stmt" and isinstance(x.ast, ast.AugAssign) and isinstance(x.ast.op, ast.Sub) and src(x.ast.target).endswith("num_balls_known")]
    zero = [x for x in cfg.nodes if x.kind == "stmt" and isinstance(x.ast, ast.Assign) and src(x.ast.targets[0]) == "self.playfield.balls" and src(x.ast.value) == "0"]
    chk.need(len(sub) == 1 and len(zero) == 1, "GIVEUP-4", "give_up writes the playfield's balls off the machine total and zeroes the playfield count", g)
    v = sub[0].ast.value
    ok = False
    if isinstance(v, ast.Name):
        defs = [x for x in cfg.nodes if x.kind == "stmt" and isinstance(x.ast, ast.Assign) and src(x.ast.targets[0]) == v.id]
        ok = len(defs) == 1 and src(defs[0].ast.value) == "self.playfield.balls" and cfg.dominates(defs[0].id, zero[0].id) and cfg.dominates(defs[0].id, sub[0].id)
    elif src(v) == "self.playfield.balls":
        ok = cfg.dominates(sub[0].id, zero[0].id)
    chk.ob("GIVEUP-4", "the balls written off the machine total are the balls the playfield count held (read before it is zeroed)", ok, g.where(sub[0].ast),
           detail="num_balls_known -= %s" % src(v), construct=g.ident, text="give up write-off")
    cl = [c for c in g.calls() if call_attr(c) == "_compensate_lost_balls"]
    ok = len(cl) == 1 and isinstance(v, ast.Name) and [src(a) for a in cl[0].args] == [v.id]
    chk.ob("GIVEUP-4", "the same number is compensated (replacement balls)", ok, g.where(), construct=g.ident, text="give up compensation")


def _claims_move_in_pairs(chk, repo):
    """CLAIM-4: `available_balls` is the number of balls of a device nobody has claimed yet.  When a ball device hands one of its own
    unclaimed balls to another device's pool (`<target>.available_balls += 1`), it takes it out of its own (`self.available_balls -= 1`)
    on every path through that function: the ball is unclaimed in one place.  A device that keeps offering a ball it no longer holds
    is chosen as source of the next request and waits for ever for a ball (sibling: lost_idle_ball takes the ball out of its pool)."""
    bd = repo.cls(BD, "BallDevice")
    n = 0
    for m in bd.methods.values():
        cfg = None
        for x in walk_local(m.node):
            if not (isinstance(x, ast.AugAssign) and isinstance(x.op, ast.Add) and isinstance(x.target, ast.Attribute) and x.target.attr == "available_balls" and
                    src(x.target.value) != "self" and const_value(x.value) == 1):
                continue
            cfg = cfg or m.cfg()
            n += 1
            chk.analysed(m)
            here = [q for q in cfg.nodes if q.kind == "stmt" and q.ast is x]
            own = [q.id for q in cfg.nodes if q.kind == "stmt" and isinstance(q.ast, ast.AugAssign) and isinstance(q.ast.op, ast.Sub) and
                   src(q.ast.target) == "self.available_balls" and const_value(q.ast.value) == 1]
            ok = bool(here) and bool(own) and (any(cfg.dominates(o, here[0].id) for o in own) or
                                               cfg.must_pass(here[0].id, own, ends=[cfg.exit.id]) is None)
            chk.ob("CLAIM-4", "BallDevice.%s: a ball put into `%s`'s unclaimed pool is taken out of the device's own pool on the same path" % (m.name, src(x.target.value)),
                   ok, m.where(x), detail="the device keeps offering a ball it no longer holds: the next request picks it as source and waits for ever",
                   construct=m.ident, text="unpaired available_balls transfer in " + m.name)
    chk.ob("CLAIM-4", "transfers between unclaimed pools examined (%d)" % n, n >= 2, BD + ":1", nontrivial=False)


def _tracking_starts_from_stable_count(chk, repo):
    """STABLE-4: an eject is tracked from a settled count: EjectTracker.will_eject waits for the counter to be stable before it registers for
    count changes and before it asks the counter to watch the ball leave (an arrival that is still settling would otherwise be seen as
    activity of this eject: a returned / extra ball, and the counts drift); the entrance counter's wait_for_ball_to_leave does the same."""
    PB = "mpf/devices/ball_device/physical_ball_counter.py"
    ES_ = "mpf/devices/ball_device/entrance_switch_counter.py"
    w = repo.func(PB, "EjectTracker.will_eject")
    chk.analysed(w)
    cfg = w.cfg()
    st = [n for n in cfg.nodes if n.kind == "stmt" and n.has_await() and "wait_for_count_stable" in n.text(200)]
    reg = [n for n, c in cfg.calls_named("register_change_stream")]
    lv = [n for n, c in cfg.calls_named("wait_for_ball_to_leave")]
    ok = len(st) >= 1 and len(reg) == 1 and len(lv) == 1 and cfg.dominates(st[0].id, reg[0].id) and cfg.dominates(st[0].id, lv[0].id) and not cfg.guards_at(st[0].id)
    chk.ob("STABLE-4", "EjectTracker.will_eject waits for a stable count before it registers for changes and watches the ball leave", ok, w.where(),
           construct=w.ident, text="eject tracking from a stable count")
    e = repo.func(ES_, "EntranceSwitchCounter.wait_for_ball_to_leave")
    chk.analysed(e)
    ecfg = e.cfg()
    st2 = [n for n in ecfg.nodes if n.kind == "stmt" and n.has_await() and "wait_for_count_stable" in n.text(200)]
    # what "reports the ball as leaving": the timer that fires _ball_left, its registration, and the value handed back
    later = [n for n in ecfg.nodes if n.kind == "stmt" and n.ast is not None and st2 and n.id != st2[0].id and
             (isinstance(n.ast, ast.Return) or any(call_attr(c) in ("ensure_future", "create_task", "sleep", "add_done_callback", "call_later") or "_ball_left" in src(c)
                                                    for c in n.calls()))]
    ok = len(st2) == 1 and not ecfg.guards_at(st2[0].id) and all(ecfg.dominates(st2[0].id, n.id) for n in later)
    chk.ob("STABLE-4", "the entrance counter lets a pending count settle before it reports the ball as leaving", ok, e.where(), construct=e.ident,
           text="entrance counter leave from a stable count")


def _entrance_windows_per_switch(chk, repo):
    """WINDOW-4: the entrance counter keeps one ignore window per entrance switch: a window is opened, tested and closed under the key of
    the switch that was hit; nothing outside __init__ replaces or clears the whole table (one lane's window ending would re-open the
    other lanes: a rattling ball is counted twice)."""
    ES_ = "mpf/devices/ball_device/entrance_switch_counter.py"
    c = repo.cls(ES_, "EntranceSwitchCounter")
    n = 0
    for m in c.methods.values():
        params = [a.arg for a in m.node.args.args[1:]]
        for x in walk_local(m.node):
            whole = None
            if isinstance(x, ast.Assign) and any(src(t) == "self.recycle_clear_time" for t in x.targets):
                whole = x
            if isinstance(x, ast.Call) and isinstance(x.func, ast.Attribute) and src(x.func.value) == "self.recycle_clear_time" and x.func.attr in ("clear", "update", "popitem"):
                whole = x
            if whole is not None:
                n += 1
                chk.analysed(m)
                chk.ob("WINDOW-4", "EntranceSwitchCounter.%s leaves the other switches' ignore windows alone" % m.name, m.name == "__init__", m.where(whole),
                       detail=short(whole, 60), construct=m.ident, text="whole window table written in " + m.name)
            if isinstance(x, (ast.Assign, ast.Delete)):
                for t in (x.targets if isinstance(x, (ast.Assign, ast.Delete)) else []):
                    if isinstance(t, ast.Subscript) and src(t.value) == "self.recycle_clear_time":
                        n += 1
                        chk.analysed(m)
                        chk.ob("WINDOW-4", "EntranceSwitchCounter.%s writes the window of the switch it was called for" % m.name, src(t.slice) in params, m.where(x),
                               detail=src(t), construct=m.ident, text="window key in " + m.name)
    h = c.methods["_entrance_switch_handler"]
    reads = [x for x in ast.walk(h.node) if isinstance(x, ast.Call) and call_attr(x) == "get" and src(x.func.value) == "self.recycle_clear_time"]
    ok = len(reads) == 1 and src(reads[0].args[0]) in [a.arg for a in h.node.args.args[1:]]
    chk.ob("WINDOW-4", "a hit is ignored exactly while the window of *its* switch is open", ok, h.where(), construct=h.ident, text="window test key")
    chk.ob("WINDOW-4", "window table writes examined (%d)" % n, n >= 3, ES_ + ":1", nontrivial=False)


def battery():
    from sa.battery import M
    return [
        M("skipping ball of a queued eject claimed twice", OB, "                    result = await self._skipping_ball(self._current_target, False)", "                    result = await self._skipping_ball(self._current_target, True)", "CLAIM-4"),
        M("separate jam switch counted but not watched", "mpf/devices/ball_device/switch_counter.py", "        for switch in self._switches:\n            self.machine.switch_controller.add_switch_handler_obj(", "        for switch in self.config['ball_switches']:\n            self.machine.switch_controller.add_switch_handler_obj(", "WINDOW-4"),
        M("ball-left timer lowers an unreliable count too", "mpf/devices/ball_device/switch_counter.py", "        if not self._is_unreliable:\n            # only do this is count it reliable\n            self._last_count -= 1\n            self.record_activity(BallLostActivity())", "        self._last_count -= 1\n        self.record_activity(BallLostActivity())", "DELTA-1"),
        M("entrance during an eject not counted when the device looks full", "mpf/devices/ball_device/ball_count_handler.py", "        await self.ball_device.incoming_balls_handler.ball_arrived()\n        self._set_ball_count(self._ball_count + 1)", "        await self.ball_device.incoming_balls_handler.ball_arrived()\n        if not self.is_full:\n            self._set_ball_count(self._ball_count + 1)", "DELTA-1"),
        M("release state kept when the hold device ran empty", "mpf/devices/ball_device/hold_coil_ejector.py", "        self.hold_release_in_progress = False\n        self.ball_device.log.debug(\"No more balls. Hold coil will stay disabled.\")\n\n        # reenable hold coil if there are balls left\n        if self.ball_device.balls > 0:\n            self._enable_hold_coil()", "        if self.ball_device.balls > 0:\n            self.hold_release_in_progress = False\n            self._enable_hold_coil()", "HOLD-4"),
        M("count-stable timer cancelled under another name", "mpf/devices/ball_device/entrance_switch_counter.py", "            self._settle_delay.remove(\"count_stable\")", "            self._settle_delay.remove(\"settle\")", "NAME-0"),
        M("one loss report for any number of extra balls", OB, "                    for _ in range(0, old_balls - new_balls):\n                        # Post that the ball is lost\n                        await self.ball_device.lost_idle_ball()\n                        # Cancel the eject queue for the lost ball\n", "                    await self.ball_device.lost_idle_ball()\n                    for _ in range(0, old_balls - new_balls):\n", "DELTA-1"),
        M("double-eject recount stored only when a queued request was cancelled", OB, "                    self.info_log(\"Necessary queue requests are cancelled. Updating ball count to %s.\" % new_balls)\n                    self.ball_device.ball_count_handler._set_ball_count(new_balls)  # pylint: disable=protected-access", "                            self.ball_device.ball_count_handler._set_ball_count(new_balls)  # pylint: disable=protected-access", "DELTA-1"),
        M("switch counter edits the configured ball switches", "mpf/devices/ball_device/switch_counter.py", "        self._switches = set(self.config['ball_switches'])\n        if self.config['jam_switch']:\n            self._switches.add(self.config['jam_switch'])", "        self._switches = self.config['ball_switches']\n        if self.config['jam_switch'] and self.config['jam_switch'] not in self._switches:\n            self._switches.append(self.config['jam_switch'])", "CONFIG-0"),
        M("twin: switch counter copies the configured ball switches into a list", "mpf/devices/ball_device/switch_counter.py", "        self._switches = set(self.config['ball_switches'])\n        if self.config['jam_switch']:\n            self._switches.add(self.config['jam_switch'])", "        self._switches = list(self.config['ball_switches'])\n        if self.config['jam_switch'] and self.config['jam_switch'] not in self._switches:\n            self._switches.append(self.config['jam_switch'])", None),
        M("eject without asking the target", OB, "            await eject_request.target.wait_for_ready_to_receive(self.ball_device)\n", "", "DOM-10"),
        M("gate asks the source", OB, "await eject_request.target.wait_for_ready_to_receive(self.ball_device)", "await self.ball_device.wait_for_ready_to_receive(self.ball_device)", "DOM-10"),
        M("gate only on first try", OB, "            await eject_request.target.wait_for_ready_to_receive(self.ball_device)\n", "            if not eject_try:\n                await eject_request.target.wait_for_ready_to_receive(self.ball_device)\n", "DOM-10"),
        M("ready ignores incoming balls", BC, "            if free_space <= incoming_balls:", "            if free_space <= 0:", "DOM-10"),
        M("ready off by one", BC, "            if free_space <= incoming_balls:", "            if free_space < incoming_balls:", "DOM-10"),
        M("full device answers ready", BC, "                await self.wait_for_ball_count_changed()\n                continue\n", "                await self.wait_for_ball_count_changed()\n", "DOM-10"),
        M("ball search fires ejector", "mpf/devices/ball_device/ball_device.py", "    def stop_device(self):", "    async def _kick(self):\n        await self.ejector.eject_one_ball(False, 0, 1)\n\n    def stop_device(self):", "OWN-4"),
        M("device writes count directly", "mpf/devices/ball_device/ball_device.py", "    def stop_device(self):", "    def _fix(self):\n        self.ball_count_handler._ball_count = 0\n\n    def stop_device(self):", "OWN-5"),
        M("failed eject still decrements", BC, "        if ball_left:\n            self._set_ball_count(self._ball_count - 1)", "        self._set_ball_count(self._ball_count - 1)", "DELTA-1"),
        M("arrival loop off by one", BC, "                    for _ in range(new_balls - old_ball_count):\n                        await self.ball_device.incoming_balls_handler.ball_arrived()\n                elif", "                    for _ in range(new_balls - old_ball_count - 1):\n                        await self.ball_device.incoming_balls_handler.ball_arrived()\n                elif", "DELTA-1"),
        M("chain credits next hop not target", BD, "        target = path[len(path) - 1]", "        target = path[1]", "DELTA-1"),
        M("chain forgets to debit source", BD, "        self.available_balls -= 1\n\n        target = path[len(path) - 1]", "        target = path[len(path) - 1]", "DELTA-1"),
        M("pf counts eject for other playfield", PF, "        if target == self:\n            self.debug_log(\"A source device has confirmed it's ejected %s \"", "        if target.is_playfield():\n            self.debug_log(\"A source device has confirmed it's ejected %s \"", "DELTA-1"),
        M("pf removed ball keeps available", PF, "        self.balls -= balls\n        self.available_balls -= balls\n        for _ in range(balls):", "        self.balls -= balls\n        for _ in range(balls):", "DELTA-1"),
        M("missing diff wrong", BC, "await self._handle_missing_balls(new_balls, old_ball_count - new_balls)", "await self._handle_missing_balls(new_balls, old_ball_count)", "DELTA-1"),
        M("entrance counter counts beyond capacity", "mpf/devices/ball_device/entrance_switch_counter.py", "self.config['ball_capacity'] <= self._last_count:", "self.config['ball_capacity'] < self._last_count:", "BOUND-3"),
        M("full handler overfills", "mpf/devices/ball_device/entrance_switch_counter.py", "        new_balls = self.config['ball_capacity'] - self._last_count", "        new_balls = self.config['ball_capacity'] - self._last_count + 1", "BOUND-3"),
        # twins
        M("twin: path[-1]", BD, "        target = path[len(path) - 1]", "        target = path[-1]", None),
        M("twin: debug log moved", BC, "            if free_space <= incoming_balls:\n                self.debug_log(", "            if free_space <= incoming_balls:\n                self.info_log(", None),
        M("N missing balls reported once", "mpf/devices/ball_device/ball_count_handler.py", "                    for _ in range(missing_balls):\n                        await self.ball_device.lost_idle_ball()", "                    await self.ball_device.lost_idle_ball()", "DELTA-1"),
        M("lost incoming ball not taken off the available balls", BD, "            self.available_balls -= 1\n            self.request_ball()", "            self.request_ball()", "LOST-1"),
        M("lost ejected ball handed over only when the path could not be restored", BD, "            self.warning_log(\"Failed to restore the path. If you can reproduce this please report in the forum!\")\n\n        self.config['ball_missing_target'].add_missing_balls(1)\n        await self._balls_missing(1)\n\n    async def lost_incoming_ball", "            self.warning_log(\"Failed to restore the path. If you can reproduce this please report in the forum!\")\n            self.config['ball_missing_target'].add_missing_balls(1)\n\n        await self._balls_missing(1)\n\n    async def lost_incoming_ball", "LOST-1"),
        M("replacement for a lost ejected ball sent to the default target", BD, "            self.eject(target=target)", "            self.eject()", "LOST-1"),
        M("balls_available announced per unclaimed ball", BD, "        for _ in range(new_balls):\n            self.machine.events.post_boolean('balldevice_balls_available')", "        for _ in range(unclaimed_balls):\n            self.machine.events.post_boolean('balldevice_balls_available')", "LOST-1"),
        M("drained balls ejected per new ball", BD, "                for _ in range(unclaimed_balls):\n                    self._setup_or_queue_eject_to_target(trough)", "                for _ in range(new_balls):\n                    self._setup_or_queue_eject_to_target(trough)", "LOST-1"),
        M("idle loss handed over only in idle state", BD, "            self.warning_log(\"Ball disappeared while idle. This should not normally happen.\")\n        self.available_balls -= 1\n        self.config['ball_missing_target'].add_missing_balls(1)", "            self.warning_log(\"Ball disappeared while idle. This should not normally happen.\")\n            self.config['ball_missing_target'].add_missing_balls(1)\n        self.available_balls -= 1", "LOST-1"),
        M("twin: lost ball warning reworded", BD, "Path to canceled. Assuming the ball jumped to %s.", "Path cancelled. Assuming the ball jumped to %s.", None),
        M("a playfield deficit takes a ball from every other playfield", "mpf/core/ball_controller.py", "                        self.machine.events.post(\"playfield_jump\", source=playfield_source, target=playfield_target)\n                        break", "                        self.machine.events.post(\"playfield_jump\", source=playfield_source, target=playfield_target)", "DELTA-1"),
        M("playfield jump leaves the source's available balls", "mpf/core/ball_controller.py", "                        playfield_source.available_balls -= 1\n", "", "DELTA-1"),
        M("old count read before the await that delivers the new one", BC, "        ball_changes = asyncio.ensure_future(self.counter.wait_for_ball_count_changes(0))\n        new_balls = await ball_changes\n\n        # update count\n        old_ball_count = self._ball_count\n", "        old_ball_count = self._ball_count\n        ball_changes = asyncio.ensure_future(self.counter.wait_for_ball_count_changes(0))\n        new_balls = await ball_changes\n\n        # update count\n", "SNAP-4"),
        M("lone ball on the jam switch of an empty device distrusted", "mpf/devices/ball_device/switch_counter.py", "            if self.is_jammed() and new_count == 1 and self._last_count != 0:", "            if self.is_jammed() and new_count == 1:", "JAM-4"),
        M("idle mechanical eject assumed to have left", "mpf/devices/ball_device/outgoing_balls_handler.py", "                    await self.ball_device.ball_count_handler.end_eject(ball_eject_process, result)\n                    if result:\n                        continue", "                    await self.ball_device.ball_count_handler.end_eject(ball_eject_process, True)\n                    if result:\n                        continue", "ENDEJ-4"),
        M("ball search writes off promised balls too", "mpf/core/ball_search.py", "        lost_balls = self.playfield.balls\n", "        lost_balls = self.playfield.available_balls\n", "GIVEUP-4"),
        M("idle mechanical eject keeps the ball in the device's pool (F19 reverted)", BD, "        self.available_balls -= 1\n        self.config['eject_targets'][0].available_balls += 1", "        self.config['eject_targets'][0].available_balls += 1", "CLAIM-4"),
        M("eject tracked from an unsettled count", "mpf/devices/ball_device/physical_ball_counter.py", "        await self._ball_count_handler.counter.wait_for_count_stable()\n        ball_changes =", "        ball_changes =", "STABLE-4"),
        M("entrance counter reports the leave without settling", "mpf/devices/ball_device/entrance_switch_counter.py", "        await self.wait_for_count_stable()\n        # wait 10ms", "        # wait 10ms", "STABLE-4"),
        M("one lane's window end clears all windows", "mpf/devices/ball_device/entrance_switch_counter.py", "        self.recycle_clear_time[switch] = None", "        self.recycle_clear_time.clear()", "WINDOW-4"),
    ]


def thorough(chk):
    from sa.battery import run_battery
    run_battery(chk, battery())
