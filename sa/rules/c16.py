"""C16 — templates evaluate like Python and never act on stale values (structural clauses).

TABLE-7 operator tables equal CPython's meaning of the syntax (oracle: CPython itself, on probe operands); boolean
        operators are Python `and` / `or`; every promised node type has an evaluator
SIB-4   every evaluator returns (value, list-of-subscriptions) on every path
FLOW-7  the subscriptions of every evaluated sub-expression reach every result and every TemplateEvalError
TABLE-8 the event a placeholder waits for is the event the owner of the variable posts
PAIR-19 subscription loops re-evaluate and re-subscribe on every completion
"""
import ast
import operator

from sa.model import src, short, dotted, call_attr, kwarg, walk_local, AnalysisError, const_value
from sa.index import get_index

PM = "mpf/core/placeholder_manager.py"
BPM = "BasePlaceholderManager"
GRAMMAR = ["BinOp", "UnaryOp", "Compare", "BoolOp", "Attribute", "Subscript", "Name", "IfExp", "Tuple", "Constant"]


class _Probe:
    """Operand that answers every operator with the name of the special method that was invoked."""

    def __init__(self, tag="x"):
        self.tag = tag

    def __bool__(self):
        _Probe.log.append("__bool__")
        return True
    log = []


def _mk(name):
    def f(self, *a):
        return name
    return f


for _n in ("add sub mul truediv floordiv mod pow xor and or lshift rshift matmul neg pos invert eq ne lt le gt ge "
           "radd rsub rmul rtruediv rfloordiv rmod rpow rxor rand ror").split():
    setattr(_Probe, "__%s__" % _n, _mk("__%s__" % _n))


def _syntax_meaning(opcls):
    """Which special method does Python invoke for the syntax node class `opcls`?"""
    a = ast.Name("a", ast.Load())
    b = ast.Name("b", ast.Load())
    if issubclass(opcls, ast.unaryop):
        e = ast.UnaryOp(opcls(), a)
    elif issubclass(opcls, ast.cmpop):
        e = ast.Compare(a, [opcls()], [b])
    else:
        e = ast.BinOp(a, opcls(), b)
    tree = ast.fix_missing_locations(ast.Expression(e))
    _Probe.log = []
    r = eval(compile(tree, "<oracle>", "eval"), {"a": _Probe("a"), "b": _Probe("b")})
    return r if isinstance(r, str) else ("not:" + ",".join(_Probe.log))


def _function_meaning(fname, unary):
    f = getattr(operator, fname, None)
    if f is None:
        return None
    _Probe.log = []
    r = f(_Probe("a")) if unary else f(_Probe("a"), _Probe("b"))
    return r if isinstance(r, str) else ("not:" + ",".join(_Probe.log))


def check(chk):
    repo = chk.repo
    idx = get_index(repo)
    chk.explanation = ("C16: operator tables checked entry by entry against CPython (probe operands that report the special method "
                       "invoked); evaluator contract and propagation of subscription lists through every evaluator, including "
                       "error paths; agreement of waited-for and posted event names; re-subscription loops. Semantic equivalence "
                       "over all expressions and freshness over all histories are not decided.")
    m = repo.mod(PM)
    # ------------------------------------------------------------ TABLE-7
    n_ops = 0
    for tname in ("OPERATORS", "COMPARISONS"):
        t = m.globals.get(tname)
        chk.require(isinstance(t, ast.Dict), "C16: table %s vanished" % tname)
        for k, v in zip(t.keys, t.values):
            kn = k.attr if isinstance(k, ast.Attribute) else src(k)
            opcls = getattr(ast, kn, None)
            fn = v.attr if isinstance(v, ast.Attribute) and dotted(v.value) in ("op", "operator") else None
            n_ops += 1
            if opcls is None or fn is None:
                chk.ob("TABLE-7", "%s[%s] maps an ast operator to an operator-module function" % (tname, kn), False, "%s:%s" % (PM, k.lineno),
                       detail=src(v), construct=PM + "::" + tname, text="%s %s -> %s" % (tname, kn, src(v)))
                continue
            want = _syntax_meaning(opcls)
            got = _function_meaning(fn, issubclass(opcls, ast.unaryop))
            chk.ob("TABLE-7", "%s[%s] = operator.%s means what Python means by that syntax (%s)" % (tname, kn, fn, want), want == got,
                   "%s:%s" % (PM, k.lineno), detail="syntax invokes %s, operator.%s invokes %s" % (want, fn, got), construct=PM + "::" + tname,
                   text="%s %s -> %s (%s vs %s)" % (tname, kn, fn, want, got))
    chk.expect(n_ops >= 14, "C16: operator table entries lost (%d)" % n_ops)
    have = {(k.attr if isinstance(k, ast.Attribute) else src(k)) for tn in ("OPERATORS", "COMPARISONS") for k in m.globals[tn].keys}
    need = {"Add", "Sub", "Mult", "Div", "FloorDiv", "Mod", "Pow", "USub", "Not", "Eq", "NotEq", "Lt", "LtE", "Gt", "GtE"}
    chk.ob("TABLE-7", "arithmetic and comparison operators of the grammar all have an entry", need <= have, PM + ":1", detail="missing %s" % sorted(need - have),
           construct=PM + "::operator tables", text="missing operators %s" % sorted(need - have))
    bt = m.globals.get("BOOL_OPERATORS")
    chk.require(isinstance(bt, ast.Dict), "C16: BOOL_OPERATORS vanished")
    for k, v in zip(bt.keys, bt.values):
        kn = k.attr if isinstance(k, ast.Attribute) else src(k)
        ok = False
        if isinstance(v, ast.Lambda) and isinstance(v.body, ast.BoolOp) and len(v.args.args) == 2:
            a, b = [x.arg for x in v.args.args]
            ok = type(v.body.op).__name__ == kn and [src(x) for x in v.body.values] == [a, b]
        chk.ob("TABLE-7", "BOOL_OPERATORS[%s] is Python's `%s` (value semantics, not bitwise)" % (kn, kn.lower()), ok, "%s:%s" % (PM, k.lineno),
               detail=src(v) + (": bitwise operators give 1 and 2 == 0 and raise TypeError on strings" if not ok else ""),
               construct=PM + "::BOOL_OPERATORS", text="bool op %s -> %s" % (kn, src(v)))
    chk.ob("TABLE-7", "both boolean operators are handled", {(k.attr if isinstance(k, ast.Attribute) else "") for k in bt.keys} == {"And", "Or"},
           PM + ":1", construct=PM + "::BOOL_OPERATORS", text="bool ops present")
    bpm = repo.cls(PM, BPM)
    init = bpm.methods["__init__"]
    methods = {}
    for x in ast.walk(init.node):
        if isinstance(x, ast.Assign) and src(x.targets[0]) == "self._eval_methods" and isinstance(x.value, ast.Dict):
            for k, v in zip(x.value.keys, x.value.values):
                methods[k.attr if isinstance(k, ast.Attribute) else src(k)] = v.attr if isinstance(v, ast.Attribute) else src(v)
        if isinstance(x, ast.Assign) and src(x.targets[0]).startswith("self._eval_methods["):
            k = x.targets[0].slice
            methods[k.attr if isinstance(k, ast.Attribute) else src(k)] = x.value.attr if isinstance(x.value, ast.Attribute) else src(x.value)
    for g in GRAMMAR:
        mn = methods.get(g)
        ok = mn is not None and mn in bpm.methods
        chk.ob("TABLE-7", "expression node %s has an evaluator" % g, ok, init.where(), detail="-> %s" % mn, construct=init.ident, text="evaluator for %s" % g)
    for kn, mn in methods.items():
        want = {"BinOp": "_eval_bin_op", "UnaryOp": "_eval_unary_op", "Compare": "_eval_compare", "BoolOp": "_eval_bool_op", "Attribute": "_eval_attribute",
                "Subscript": "_eval_subscript", "Name": "_eval_name", "IfExp": "_eval_if", "Tuple": "_eval_tuple", "Constant": "_eval_constant",
                "Num": "_eval_num", "Str": "_eval_str"}.get(kn)
        if want:
            chk.ob("TABLE-7", "node %s is evaluated by its own evaluator" % kn, mn == want, init.where(), detail="-> %s" % mn, construct=init.ident,
                   text="dispatch %s -> %s" % (kn, mn))
    # the tables are indexed by the node's own operator
    for fn, table, key in (("_eval_bin_op", "OPERATORS", "type(node.op)"), ("_eval_unary_op", "OPERATORS", "type(node.op)"),
                           ("_eval_compare", "COMPARISONS", "type(node.ops[0])"), ("_eval_bool_op", "BOOL_OPERATORS", "type(node.op)")):
        f = bpm.methods[fn]
        subs = [x for x in ast.walk(f.node) if isinstance(x, ast.Subscript) and src(x.value) == table]
        ok = bool(subs) and all(src(x.slice) == key for x in subs)
        chk.ob("TABLE-7", "%s looks its operator up in %s by %s" % (fn, table, key), ok, f.where(), construct=f.ident, text="lookup in " + fn)
    f = bpm.methods["_eval_bin_op"]
    c = [x for x in ast.walk(f.node) if isinstance(x, ast.Call) and isinstance(x.func, ast.Subscript)]
    ok = bool(c) and [src(a) for a in c[0].args] == ["left_value", "right_value"]
    chk.ob("TABLE-7", "binary operators are applied as (left, right)", ok, f.where(), construct=f.ident, text="operand order binop")
    f = bpm.methods["_eval_compare"]
    c = [x for x in ast.walk(f.node) if isinstance(x, ast.Call) and isinstance(x.func, ast.Subscript)]
    ok = bool(c) and [src(a) for a in c[0].args] == ["left_value", "right_value"]
    chk.ob("TABLE-7", "comparisons are applied as (left, right)", ok, f.where(), construct=f.ident, text="operand order compare")
    f = bpm.methods["_eval_if"]
    fcfg = f.cfg()
    rets = [n for n in fcfg.nodes_where(lambda n: n.kind == "stmt" and isinstance(n.ast, ast.Return))]
    body_eval = [n for n in fcfg.nodes_where(lambda n: n.kind == "stmt" and "node.body" in n.text(200))]
    else_eval = [n for n in fcfg.nodes_where(lambda n: n.kind == "stmt" and "node.orelse" in n.text(200))]
    ok = bool(body_eval) and bool(else_eval) and fcfg.guards_at(body_eval[0].id).get("value") is True and fcfg.guards_at(else_eval[0].id).get("value") is False
    chk.ob("TABLE-7", "a conditional expression evaluates its body when the test is true, otherwise its else part", ok, f.where(), construct=f.ident,
           text="ifexp branches")
    f = bpm.methods["_eval_bool_op"]
    lp = [x for x in ast.walk(f.node) if isinstance(x, ast.For)]
    ok = bool(lp) and src(lp[0].iter).replace(" ", "") == "range(1,len(node.values))" and "node.values[0]" in src(f.node)
    chk.ob("TABLE-7", "a boolean expression evaluates all of its operands, in order", ok, f.where(), construct=f.ident, text="bool operands")
    c = [x for x in ast.walk(f.node) if isinstance(x, ast.Call) and isinstance(x.func, ast.Subscript) and src(x.func.value) == "BOOL_OPERATORS"]
    accs = [x for x in ast.walk(f.node) if isinstance(x, ast.Assign) and x.value in c]
    ok = bool(c) and bool(accs) and all(len(x.args) == 2 and src(x.args[0]) == src(a.targets[0]) and src(x.args[1]) != src(a.targets[0])
                                        for x, a in zip(c, accs))
    chk.ob("TABLE-7", "boolean operators fold left to right: (result so far, next operand)", ok, f.where(), construct=f.ident,
           text="operand order boolop")
    # chained comparisons are refused (evaluating only the first link would differ from Python)
    f = bpm.methods["_eval_compare"]
    fcfg = f.cfg()
    uses = [n for n in fcfg.nodes if n.kind != "branch" and n.kind in ("stmt",) and "node.ops[0]" in n.text(300)]
    handles_all = any(isinstance(x, ast.For) and "node.ops" in src(x.iter) for x in ast.walk(f.node))
    ok = handles_all
    if not handles_all:
        ok = bool(uses)
        for n in uses:
            g = fcfg.guards_at(n.id)
            ok = ok and (g.get("len(node.ops) > 1") is False or g.get("len(node.ops) == 1") is True or g.get("len(node.ops) != 1") is False)
    chk.ob("TABLE-7", "a chained comparison is either evaluated link by link or refused, never cut to its first link", ok, f.where(),
           construct=f.ident, text="chained comparison guard")
    rs = [x for x in fcfg.nodes if x.kind == "stmt" and isinstance(x.ast, ast.Raise) and fcfg.guards_at(x.id).get("len(node.ops) > 1") is True]
    chk.ob("TABLE-7", "the refusal of a chained comparison is an error, not a value", handles_all or bool(rs), f.where(), construct=f.ident,
           text="chained comparison refusal")
    # tuples: every element, in order
    f = bpm.methods["_eval_tuple"]
    loops = [x for x in ast.walk(f.node) if isinstance(x, (ast.For, ast.ListComp, ast.GeneratorExp))]
    ok = False
    for lp_ in [x for x in loops if isinstance(x, ast.For)]:
        if src(lp_.iter) != "node.elts":
            continue
        ev = [x for x in ast.walk(lp_) if isinstance(x, ast.Assign) and isinstance(x.value, ast.Call) and call_attr(x.value) == "_eval"
              and x.value.args and src(x.value.args[0]) == src(lp_.target)]
        if not ev or not isinstance(ev[0].targets[0], ast.Tuple):
            continue
        vname = src(ev[0].targets[0].elts[0])
        apps = [x for x in ast.walk(lp_) if isinstance(x, ast.Call) and call_attr(x) == "append" and x.args and src(x.args[0]) == vname]
        if apps:
            lst = src(apps[0].func.value)
            rets = [r for r in ast.walk(f.node) if isinstance(r, ast.Return)]
            ok = bool(rets) and all(isinstance(r.value, ast.Tuple) and src(r.value.elts[0]).replace(" ", "") == "tuple(%s)" % lst for r in rets)
    chk.ob("TABLE-7", "a tuple expression yields the tuple of its evaluated elements, in order", ok, f.where(), construct=f.ident,
           text="tuple elements")
    # subscripts: index / slice forms use the evaluated index expressions
    f = bpm.methods["_eval_subscript"]
    fcfg = f.cfg()
    for r in [x for x in fcfg.nodes if x.kind == "stmt" and isinstance(x.ast, ast.Return) and isinstance(x.ast.value, ast.Tuple)]:
        v = r.ast.value.elts[0]
        g = fcfg.guards_at(r.id)
        if not (isinstance(v, ast.Subscript) and src(v.value) == "value"):
            chk.ob("TABLE-7", "a subscript result is value[...]", False, f.where(r.ast), construct=f.ident, text="subscript result " + short(v, 40))
            continue
        sl = v.slice
        if isinstance(sl, ast.Slice):
            def bound_from(name_expr, attr):
                if name_expr is None:
                    return False
                nm = src(name_expr)
                return any(isinstance(a, ast.Assign) and isinstance(a.targets[0], ast.Tuple) and src(a.targets[0].elts[0]) == nm and
                           call_attr(a.value) == "_eval" and src(a.value.args[0]) == "node.slice." + attr for a in ast.walk(f.node))
            ok = bound_from(sl.lower, "lower") and bound_from(sl.upper, "upper") and bound_from(sl.step, "step") and \
                g.get("isinstance(node.slice, ast.Slice)") is True
            chk.ob("TABLE-7", "a slice uses the evaluated lower:upper:step of the expression", ok, f.where(r.ast), construct=f.ident,
                   text="slice bounds " + short(v, 50))
        elif src(sl) == "node.slice.value":
            chk.ob("TABLE-7", "a constant index is used as written", g.get("isinstance(node.slice, ast.Constant)") is True, f.where(r.ast),
                   construct=f.ident, text="constant index")
        else:
            nm = src(sl)
            ok = any(isinstance(a, ast.Assign) and isinstance(a.targets[0], ast.Tuple) and src(a.targets[0].elts[0]) == nm and
                     call_attr(a.value) == "_eval" and src(a.value.args[0]).startswith("node.slice") for a in ast.walk(f.node))
            chk.ob("TABLE-7", "a computed index is the evaluated index expression", ok, f.where(r.ast), construct=f.ident,
                   text="computed index " + nm)

    # ------------------------------------------------------------ SIB-4 / FLOW-7
    n_ev = 0
    for mn in sorted(set(methods.values())):
        f = bpm.methods.get(mn)
        if f is None:
            continue
        chk.analysed(f)
        n_ev += 1
        fcfg = f.cfg()
        # sub-evaluations: `x, y = self._eval(...)`
        subs = []
        for n in fcfg.nodes_where(lambda n: n.kind == "stmt" and isinstance(n.ast, ast.Assign) and isinstance(n.ast.targets[0], ast.Tuple) and
                                  isinstance(n.ast.value, ast.Call) and call_attr(n.ast.value) == "_eval"):
            subs.append((n, src(n.ast.targets[0].elts[1])))
        # accumulation `X += Y`
        acc = {}
        for n in fcfg.nodes_where(lambda n: n.kind == "stmt" and isinstance(n.ast, ast.AugAssign) and isinstance(n.ast.op, ast.Add)):
            acc.setdefault(src(n.ast.target), []).append((n, src(n.ast.value)))
        rets = [n for n in fcfg.nodes_where(lambda n: n.kind == "stmt" and isinstance(n.ast, ast.Return))]
        raises = [n for n in fcfg.nodes_where(lambda n: n.kind == "stmt" and isinstance(n.ast, ast.Raise) and n.ast.exc is not None and
                                              "TemplateEvalError" in src(n.ast.exc))]
        for r in rets:
            v = r.ast.value
            ok = isinstance(v, ast.Tuple) and len(v.elts) == 2
            second = v.elts[1] if ok else None
            ok = ok and (isinstance(second, (ast.List, ast.Name)) or (isinstance(second, ast.BinOp) and isinstance(second.op, ast.Add)))
            chk.ob("SIB-4", "%s returns a (value, subscriptions) pair" % mn, ok, f.where(r.ast), detail=short(v, 80), construct=f.ident,
                   text="return shape in %s: %s" % (mn, short(v, 60)))
            if ok:
                _flow(chk, f, fcfg, r, second, subs, acc, "result")
        for r in raises:
            exc = r.ast.exc
            arg = exc.args[0] if isinstance(exc, ast.Call) and exc.args else None
            chk.ob("SIB-4", "%s raises TemplateEvalError with a subscription list" % mn, arg is not None, f.where(r.ast), construct=f.ident,
                   text="raise shape in " + mn)
            if arg is not None:
                _flow(chk, f, fcfg, r, arg, subs, acc, "error")
    chk.expect(n_ev >= 10, "C16: evaluators lost (%d)" % n_ev)
    # failures become the template's default: while subscribing every failure is a TemplateEvalError (carrying the
    # subscriptions); an except clause in an evaluator never swallows the failure and carries on with a wrong value
    for mn in sorted(set(methods.values())):
        f = bpm.methods.get(mn)
        if f is None:
            continue
        fcfg = f.cfg()
        for h in [x for x in ast.walk(f.node) if isinstance(x, ast.ExceptHandler)]:
            hn = [n for n in fcfg.nodes if n.kind in ("stmt",) and any(y is n.ast for st in h.body for y in ast.walk(st))]
            ends = [n for n in hn if isinstance(n.ast, (ast.Raise, ast.Return))]
            first = [n for n in fcfg.nodes if n.kind == "except" and n.ast is h]
            ok = bool(ends)
            if first and ends:
                ok = fcfg.path_avoiding(first[0].id, [fcfg.exit.id] + [x.id for x in fcfg.nodes if x.kind == "stmt" and x not in hn and
                                                                      not any(y is x.ast for y in ast.walk(h))],
                                        [e.id for e in ends], ignore_exc=True) is None
            chk.ob("SIB-4", "%s: a caught failure is re-raised (as TemplateEvalError while subscribing), never swallowed" % mn, ok,
                   f.where(h), detail="falling out of the handler continues with a stale / unbound value", construct=f.ident,
                   text="handler falls through in " + mn)
        for r in fcfg.nodes_where(lambda n: n.kind == "stmt" and isinstance(n.ast, ast.Raise)):
            g = fcfg.guards_at(r.id)
            if "subscribe" not in g:
                continue
            is_te = r.ast.exc is not None and "TemplateEvalError" in src(r.ast.exc)
            ok = is_te if g["subscribe"] is True else not is_te
            chk.ob("SIB-4", "%s: while subscribing a failure raises TemplateEvalError (so the default is used and the template stays subscribed)" % mn,
                   ok, f.where(r.ast), detail="subscribe=%s raises %s" % (g["subscribe"], short(r.ast, 50)), construct=f.ident,
                   text="raise kind under subscribe=%s in %s" % (g["subscribe"], mn))
    f = bpm.methods["_eval_attribute"]
    fcfg = f.cfg()
    for n in fcfg.nodes_where(lambda n: n.kind == "stmt" and isinstance(n.ast, ast.Assign) and isinstance(n.ast.value, ast.Subscript)
                              and src(n.ast.value.slice) == "node.attr"):
        g = fcfg.guards_at(n.id)
        ok = g.get("isinstance(slice_value, dict)") is True and g.get("node.attr in slice_value") is True
        chk.ob("TABLE-7", "attribute syntax reads a dict entry only for dicts that have the key (otherwise the attribute)", ok, f.where(n.ast),
               detail="guards %s" % sorted(g.items()), construct=f.ident, text="dict attribute access guard")
    f = bpm.methods["_eval_attribute"]
    ok = src(f.node).count("subscribe_attribute(node.attr)") >= 2
    chk.ob("FLOW-7", "an attribute access subscribes to that attribute (on success and on the missing-attribute path)", ok, f.where(), construct=f.ident,
           text="attribute subscription")
    fcfg = f.cfg()
    for n in fcfg.nodes_where(lambda n: n.kind == "stmt" and isinstance(n.ast, ast.Return) and "subscribe_attribute" in src(n.ast)):
        chk.ob("FLOW-7", "attribute subscriptions are taken only when subscribing", fcfg.guards_at(n.id).get("subscribe") is True, f.where(n.ast),
               construct=f.ident, text="attribute subscribe guard")
    f = bpm.methods["_eval_name"]
    fcfg = f.cfg()
    ok = any(isinstance(n.ast, ast.Return) and src(n.ast.value).replace(" ", "").strip("()") in ("var,[var.subscribe()]", "var,[var.subscribe(") and fcfg.guards_at(n.id).get("subscribe") is True
             for n in fcfg.nodes_where(lambda n: n.kind == "stmt" and isinstance(n.ast, ast.Return)))
    chk.ob("FLOW-7", "a global placeholder name subscribes to the placeholder", ok, f.where(), construct=f.ident, text="name subscription")
    ev = bpm.methods["_eval"]
    rets = [x for x in walk_local(ev.node) if isinstance(x, ast.Return)]
    ok = any("self._eval_methods[type(node)](node, variables, subscribe)" in src(r) for r in rets)
    chk.ob("SIB-4", "_eval dispatches with (node, variables, subscribe) and returns the evaluator's pair", ok, ev.where(), construct=ev.ident,
           text="dispatch call")
    est = bpm.methods["evaluate_and_subscribe_template"]
    chk.analysed(est)
    hs = [h for h in ast.walk(est.node) if isinstance(h, ast.ExceptHandler) and h.type is not None and "TemplateEvalError" in src(h.type)]
    ok = bool(hs) and any(isinstance(x, ast.Assign) and src(x.targets[0]) == "subscriptions" and src(x.value).endswith(".subscriptions") for x in ast.walk(hs[0]))
    chk.ob("FLOW-7", "a failed evaluation still subscribes to everything it read", ok, est.where(), construct=est.ident, text="error subscriptions used")
    ok = any(call_attr(c) == "any" and "subscriptions" in src(c) for c in est.calls())
    chk.ob("FLOW-7", "the caller is woken by the first of all subscriptions", ok, est.where(), construct=est.ident, text="any subscription")
    c = [x for x in est.calls() if call_attr(x) == "_eval"]
    ok = bool(c) and src(c[0].args[2]) == "True"
    chk.ob("FLOW-7", "evaluate_and_subscribe evaluates with subscribe=True", ok, est.where(), construct=est.ident, text="subscribe flag")
    # the text template (several placeholders in one string) combines its subscriptions the same way: woken by the first that fires
    tt = repo.func(PM, "TextTemplate.evaluate_and_subscribe")
    chk.analysed(tt)
    tcfg = tt.cfg()
    futs = [n for n in tcfg.nodes if n.kind == "stmt" and isinstance(n.ast, ast.Assign) and src(n.ast.targets[0]) == "future" and
            "subscriptions" in src(n.ast.value) and "ensure_future" not in src(n.ast.value)]
    many = [n for n in futs if tcfg.guards_at(n.id).get("len(subscriptions) == 1") is False and tcfg.guards_at(n.id).get("not subscriptions") is False or
            (tcfg.guards_at(n.id).get("len(subscriptions) == 1") is False and tcfg.guards_at(n.id).get("subscriptions") is True)]
    ok = len(many) == 1 and isinstance(many[0].ast.value, ast.Call) and src(many[0].ast.value.func) == "Util.any" and [src(a) for a in many[0].ast.value.args] == ["subscriptions"]
    chk.ob("FLOW-7", "a text with several placeholders is woken by the first of its subscriptions (Util.any, as evaluate_and_subscribe_template)", ok,
           tt.where(many[0].ast) if many else tt.where(), detail=src(many[0].ast.value) if many else "no many-subscriptions branch", construct=tt.ident,
           text="text template any subscription")
    one = [n for n in futs if tcfg.guards_at(n.id).get("len(subscriptions) == 1") is True]
    ok = len(one) == 1 and src(one[0].ast.value) == "subscriptions[0]"
    chk.ob("FLOW-7", "a text with one placeholder waits on that subscription", ok, tt.where(), construct=tt.ident, text="text template single subscription")
    # item access and attribute access of a numbered player read the same player
    pp = repo.cls(PM, "PlayerPlaceholder")
    idxs = {}
    for mn in ("__getitem__", "__getattr__"):
        m = pp.methods[mn]
        chk.analysed(m)
        subs = [x for x in ast.walk(m.node) if isinstance(x, ast.Subscript) and src(x.value).endswith("game.player_list")]
        idxs[mn] = sorted({src(x.slice) for x in subs})
        mc = m.cfg()
        for x in subs:
            node = [q for q in mc.nodes if q.kind == "stmt" and any(y is x for y in ast.walk(q.ast))]
            g = mc.guards_at(node[0].id) if node else {}
            ok = src(x.slice) == "self._number" and g.get("self._number is not None") is True and g.get("len(self._machine.game.player_list) <= self._number") is False
            chk.ob("TABLE-8", "PlayerPlaceholder.%s reads player number self._number (0-based index into the player list), checked against the list length" % mn, ok,
                   m.where(x), detail="index %s under %s" % (src(x.slice), sorted(k for k, v in g.items() if "number" in k)), construct=m.ident,
                   text="numbered player index in " + mn)
    chk.ob("TABLE-8", "item and attribute access of a numbered player agree on the index", idxs["__getitem__"] == idxs["__getattr__"] == ["self._number"], PM + ":1",
           detail=str(idxs), construct=PM + "::PlayerPlaceholder", text="numbered player index agreement")

    # ------------------------------------------------------------ TABLE-8
    def waited(cls, meth):
        f_ = repo.cls(PM, cls).methods[meth]
        out = []
        for c_ in f_.calls():
            if call_attr(c_) in ("wait_for_event", "wait_for_any_event") and c_.args:
                out.append(c_.args[0])
        return f_, out
    f_, w = waited("PlayerPlaceholder", "subscribe_attribute")
    pl = repo.func("mpf/core/player.py", "Player._send_variable_event")
    posted = [c_.args[0] for c_ in pl.calls() if call_attr(c_) == "post"]
    wp = _prefix(w[0]) if w else None
    pp = _prefix(posted[0]) if posted else None
    chk.ob("TABLE-8", "a template reading a player variable waits for the event Player posts for that variable (%s)" % pp, wp is not None and wp == pp == "player_",
           f_.where(), detail="waits %r, posted %r" % (wp, pp), construct=f_.ident, text="player var event %s vs %s" % (wp, pp))
    for cls in ("MachinePlaceholder", "SettingsPlaceholder"):
        f_, w = waited(cls, "subscribe_attribute")
        mv = repo.func("mpf/core/machine_vars.py", "MachineVariables.set_machine_var")
        posted = [c_.args[0] for c_ in mv.calls() if call_attr(c_) == "post"]
        wp = _prefix(w[0]) if w else None
        pp = _prefix(posted[0]) if posted else None
        chk.ob("TABLE-8", "%s waits for the event set_machine_var posts (%s)" % (cls, pp), wp is not None and wp == pp == "machine_var_", f_.where(),
               detail="waits %r, posted %r" % (wp, pp), construct=f_.ident, text="%s event %s vs %s" % (cls, wp, pp))
    game_events = {"player_turn_ended", "player_turn_started", "player_added", "game_ended"}
    posted_lits = set()
    for fn in repo.cls("mpf/modes/game/code/game.py", "Game").methods.values():
        for c_ in fn.calls():
            if (call_attr(c_) or "").startswith("post") and c_.args and isinstance(c_.args[0], ast.Constant):
                posted_lits.add(c_.args[0].value)
    for cls in ("PlayerPlaceholder", "PlayersPlaceholder"):
        f_, w = waited(cls, "subscribe")
        names = set()
        for e in w:
            if isinstance(e, ast.List):
                names |= {x.value for x in e.elts if isinstance(x, ast.Constant)}
            elif isinstance(e, ast.Constant) and isinstance(e.value, str):
                names.add(e.value)
        chk.ob("TABLE-8", "%s.subscribe waits for events the game actually posts" % cls, bool(names) and names <= posted_lits, f_.where(),
               detail="waits %s" % sorted(names), construct=f_.ident, text="%s waits %s" % (cls, sorted(names - posted_lits)))
        if cls == "PlayerPlaceholder":
            # `current_player` changes its meaning when a turn starts *and* when it ends (no player between turns / before the game)
            chk.ob("TABLE-8", "a template reading current_player is woken when a turn starts and when a turn ends", {"player_turn_started", "player_turn_ended"} <= names,
                   f_.where(), detail="waits %s" % sorted(names), construct=f_.ident, text="current_player wake-ups %s" % sorted(names))

    _producers(chk, repo)
    from sa.helpers import setting_value_source
    setting_value_source(chk, "TABLE-8")
    _defaults(chk, repo)
    _conditions_at_dispatch(chk, repo)
    _enable_state_notifies(chk, repo)
    _time_placeholder_wakeups(chk, repo)
    _shot_state_change_notified(chk, repo)
    _monitored_backing_stores(chk)
    _play_time_settings_not_written(chk)

    # ------------------------------------------------------------ PAIR-19
    f = repo.func("mpf/core/config_player.py", "ConfigPlayer._update_subscription")
    chk.analysed(f)
    fcfg = f.cfg()
    ev_ = [n for n in fcfg.nodes_where(lambda n: n.kind == "stmt" and "evaluate_and_subscribe" in n.text(200))]
    cb = [(n, c_) for n, c_ in fcfg.calls_named("add_done_callback") if "_update_subscription" in src(c_)]
    hs_ = [n for n, c_ in fcfg.calls_named("handle_subscription_change")]
    ok = bool(ev_) and bool(cb) and bool(hs_) and fcfg.must_pass(ev_[0].id, [n.id for n, _ in cb]) is None and fcfg.must_pass(ev_[0].id, [n.id for n in hs_]) is None
    chk.ob("PAIR-19", "every re-evaluation re-subscribes and hands the new value to the player", ok, f.where(), construct=f.ident, text="resubscribe")
    rets = [n for n in fcfg.nodes_where(lambda n: n.kind == "stmt" and isinstance(n.ast, ast.Return))]
    for r in rets:
        g = fcfg.guards_at(r.id)
        inh = any(isinstance(h, ast.ExceptHandler) and any(y is r.ast for y in ast.walk(h)) for h in ast.walk(f.node))
        ok = inh or g.get("self.machine.stop_future.done()") is True
        chk.ob("PAIR-19", "the loop ends only on cancellation or shutdown", ok, f.where(r.ast), detail="guards %s" % sorted(g.items()), construct=f.ident,
               text="loop exit")
    for n, c_ in cb:
        p = c_.args[0]
        args = [src(a) for a in p.args[1:]] if isinstance(p, ast.Call) else []
        ok = args == ["template", "subscription_list", "settings", "priority", "context", "key"]
        chk.ob("PAIR-19", "the callback re-enters with the same template, settings, priority, context and key", ok, f.where(c_), detail=str(args),
               construct=f.ident, text="callback binding")
    # every self-re-arming placeholder callback of a device re-arms *itself* (not a sibling)
    n_self = 0
    for f2 in repo.all_funcs("mpf/devices/"):
        if not f2.name.endswith("_placeholder"):
            continue
        for c_ in f2.calls():
            if call_attr(c_) == "add_done_callback" and c_.args:
                a0 = c_.args[0]
                target = a0.args[0] if isinstance(a0, ast.Call) and call_attr(a0) == "partial" and a0.args else a0
                if isinstance(target, ast.Attribute) and src(target.value) == "self" and target.attr.endswith("_placeholder"):
                    n_self += 1
                    chk.analysed(f2)
                    chk.ob("PAIR-19", "%s re-subscribes itself when its template's inputs change" % f2.qualname, target.attr == f2.name, f2.where(c_),
                           detail="re-arms %s: this value is computed once and never again" % target.attr, construct=f2.ident,
                           text="re-arm target %s in %s" % (target.attr, f2.name))
    chk.ob("PAIR-19", "self re-arming placeholder callbacks examined", n_self >= 2, "mpf/devices:1", detail="%d" % n_self, nontrivial=False)
    # settings: the variable a template subscribes to is the variable the value is read from and written to
    sc_ = repo.cls("mpf/core/settings_controller.py", "SettingsController")
    fields = {}
    for nm in ("get_setting_machine_var", "get_setting_value", "set_setting_value"):
        m_ = sc_.methods.get(nm)
        if m_ is None:
            chk.expect(False, "C16: SettingsController.%s vanished" % nm)
            continue
        chk.analysed(m_)
        used = {x.attr for x in ast.walk(m_.node) if isinstance(x, ast.Attribute) and isinstance(x.value, ast.Subscript) and src(x.value.value) == "self._settings"}
        fields[nm] = used
    gv = fields.get("get_setting_machine_var", set())
    chk.ob("TABLE-8", "the machine variable a settings template subscribes to is the one the setting's value lives in", gv == {"machine_var"} and
           "machine_var" in fields.get("get_setting_value", set()) and "machine_var" in fields.get("set_setting_value", set()), sc_.where(),
           detail="fields used: %s" % {k: sorted(v) for k, v in fields.items()}, construct=sc_.ident, text="settings variable agreement %s" % sorted(gv))
    sp_ = repo.cls(PM, "SettingsPlaceholder").methods["subscribe_attribute"]
    ok = any(call_attr(c_) == "get_setting_machine_var" for c_ in sp_.calls())
    chk.ob("TABLE-8", "SettingsPlaceholder subscribes to the setting's machine variable (looked up through the settings controller)", ok, sp_.where(),
           construct=sp_.ident, text="settings subscription lookup")
    st = [x for x in walk_local(f.node) if isinstance(x, ast.Assign) and src(x.targets[0]) == "subscription_list[template]"]
    chk.ob("PAIR-19", "the live subscription is stored where unload cancels it", bool(st) and src(st[0].value) == "subscription", f.where(), construct=f.ident,
           text="subscription stored")


def _enable_state_notifies(chk, repo):
    """NOTIFY-1 (enable state): a change of a device's `enabled` state wakes its subscribers whichever way the state is stored.  The state
    lives in the device (`_enabled`) or, with persist_enable, in a player variable; the monitor's own attribute hook does not see either
    for subclasses that carry their own monitor.  So every path of enable() / disable() that stores the new state also calls
    notify_virtual_change("enabled", old, new) - in the method itself, or in the setter on *every* path of the setter."""
    from sa.cfg import build_cfg
    ED = "mpf/core/enable_disable_mixin.py"
    cls = repo.cls(ED, "EnableDisableMixin")
    setter = [x for x in cls.node.body if isinstance(x, ast.FunctionDef) and x.name == "enabled" and
              any(src(d).endswith(".setter") for d in x.decorator_list)]
    chk.need(len(setter) == 1, "NOTIFY-1", "EnableDisableMixin stores its enabled state through a setter", repo.func(ED, "EnableDisableMixin.enable"))
    scfg = build_cfg(setter[0])
    s_not = [n.id for n, c in scfg.calls_named("notify_virtual_change") if c.args and const_value(c.args[0]) == "enabled"]
    setter_notifies = bool(s_not) and scfg.must_pass(scfg.entry.id, s_not) is None
    for name, new in (("enable", "True"), ("disable", "False")):
        f = repo.func(ED, "EnableDisableMixin." + name)
        chk.analysed(f)
        cfg = f.cfg()
        st = [n for n in cfg.nodes if n.kind == "stmt" and isinstance(n.ast, ast.Assign) and src(n.ast.targets[0]) == "self.enabled" and src(n.ast.value) == new]
        chk.need(st, "NOTIFY-1", "EnableDisableMixin.%s stores the new state" % name, f)
        nots = [n.id for n, c in cfg.calls_named("notify_virtual_change") if c.args and const_value(c.args[0]) == "enabled"]
        for n in st:
            ok = setter_notifies or (bool(nots) and cfg.must_pass(n.id, nots) is None)
            chk.ob("NOTIFY-1", "%s() wakes the subscribers of `enabled` whenever it changes the state (persisted in a player variable or not)" % name, ok,
                   f.where(n.ast), detail="setter notifies on every path: %s; %s() notifies after the store: %s" % (setter_notifies, name, bool(nots)),
                   construct=f.ident, text="enabled change notified in " + name)
        for nid in nots:
            c = [c for n_, c in cfg.calls_named("notify_virtual_change") if n_.id == nid][0]
            ok = len(c.args) == 3 and src(c.args[2]) == new and src(c.args[1]) == ("False" if new == "True" else "True")
            chk.ob("NOTIFY-1", "%s() reports the change as (old, new) = (%s, %s)" % (name, "False" if new == "True" else "True", new), ok, f.where(c),
                   detail=src(c), construct=f.ident, text="enabled change values in " + name)


def _linear(e):
    """An integer-linear form over attribute reads: {None: constant, 'current_time.minute': coefficient, ...}; None when e is not linear."""
    if isinstance(e, ast.Constant) and isinstance(e.value, (int, float)) and not isinstance(e.value, bool):
        return {None: e.value}
    if isinstance(e, ast.Attribute):
        return {src(e): 1, None: 0}
    if isinstance(e, ast.UnaryOp) and isinstance(e.op, ast.USub):
        v = _linear(e.operand)
        return None if v is None else {k: -c for k, c in v.items()}
    if isinstance(e, ast.BinOp) and isinstance(e.op, (ast.Add, ast.Sub)):
        a, b = _linear(e.left), _linear(e.right)
        if a is None or b is None:
            return None
        out = dict(a)
        for k, c in b.items():
            out[k] = out.get(k, 0) + (c if isinstance(e.op, ast.Add) else -c)
        return out
    if isinstance(e, ast.BinOp) and isinstance(e.op, ast.Mult):
        a, b = _linear(e.left), _linear(e.right)
        if a is None or b is None:
            return None
        if set(a) == {None}:
            return {k: a[None] * c for k, c in b.items()}
        if set(b) == {None}:
            return {k: b[None] * c for k, c in a.items()}
    return None


def _time_placeholder_wakeups(chk, repo):
    """TIME-16: a subscription to machine.time.<field> wakes when the field changes, not later: the sleep is 1 s for the second, the rest of
    the minute (60 - second) for the minute, and the rest of the hour (3600 - 60 * minute - second) for hour / day / month / year -
    compared as linear forms, so any spelling of the same arithmetic passes."""
    f = repo.func(PM, "TimePlaceholder.subscribe_attribute")
    chk.analysed(f)
    cfg = f.cfg()
    want = {"second": {None: 1}, "minute": {None: 60, "current_time.second": -1}, "hour": {None: 3600, "current_time.minute": -60, "current_time.second": -1}}
    seen = set()
    for n in cfg.nodes:
        if n.kind != "stmt" or not isinstance(n.ast, ast.Return) or not isinstance(n.ast.value, ast.Call) or call_attr(n.ast.value) != "sleep":
            continue
        g = cfg.guards_at(n.id)
        which = None
        for k, v in g.items():
            if v is True and "item" in k:
                for fld in ("second", "minute", "hour"):
                    if "'%s'" % fld in k.replace('"', "'"):
                        which = which or fld
        if which is None or not n.ast.value.args:
            continue
        seen.add(which)
        lin = _linear(n.ast.value.args[0])
        norm = None if lin is None else {k: c for k, c in lin.items() if c != 0 or k is None}
        w_ = {k: c for k, c in want[which].items()}
        chk.ob("TIME-16", "a subscription to the %s wakes exactly when the %s changes" % (which, which), norm is not None and {k: c for k, c in norm.items() if c} == {k: c for k, c in w_.items() if c},
               f.where(n.ast), detail="sleeps %s = %s" % (src(n.ast.value.args[0]), norm), construct=f.ident, text="time wake-up for " + which)
    chk.ob("TIME-16", "wake-ups for second, minute and hour examined", seen == {"second", "minute", "hour"}, f.where(), detail=str(sorted(seen)), construct=f.ident,
           text="time wake-ups present")


def _shot_state_change_notified(chk, repo):
    """NOTIFY-1 (shot state): a shot's state lives in a player variable; `state` and `state_name` are virtual attributes, so their subscribers
    are woken by explicit notify_virtual_change(name, old, new) calls - which are dropped when old == new.  The old values are read before the
    new state is stored, the new ones after; both attributes are announced on every path that stores."""
    f = repo.func("mpf/devices/shot.py", "Shot._set_state")
    chk.analysed(f)
    cfg = f.cfg()
    store = [n for n in cfg.nodes if n.kind == "stmt" and isinstance(n.ast, ast.Assign) and src(n.ast.targets[0]) == "self.player[self._player_var_name]"]
    chk.need(len(store) == 1, "NOTIFY-1", "Shot._set_state stores the new state in the player variable", f)
    olds = [n for n in cfg.nodes if n.kind == "stmt" and isinstance(n.ast, ast.Assign) and isinstance(n.ast.targets[0], ast.Name) and n.ast.targets[0].id in ("old", "old_name")
            and ("self.player[" in src(n.ast.value) or "self.state_name" in src(n.ast.value))]
    ok = len(olds) >= 2 and all(store[0].id not in cfg.reachable([o.id], include_start=False, ignore_exc=False) or cfg.dominates(o.id, store[0].id) for o in olds) and \
        all(not cfg.path_avoiding(store[0].id, [o.id], [], ignore_exc=False) for o in olds)
    chk.ob("NOTIFY-1", "Shot._set_state reads the old state and the old state name before it stores the new state", ok, f.where(store[0].ast), construct=f.ident,
           detail="read after the store, old == new and the notification is dropped", text="shot old values read before the store")
    nots = [(n, c) for n, c in cfg.calls_named("notify_virtual_change")]
    names = {const_value(c.args[0]) for n, c in nots if c.args}
    ok = names >= {"state", "state_name"} and all(cfg.dominates(store[0].id, n.id) for n, c in nots) and \
        all(cfg.must_pass(store[0].id, [n.id for n, c in nots if c.args and const_value(c.args[0]) == nm]) is None for nm in ("state", "state_name"))
    chk.ob("NOTIFY-1", "after the store both `state` and `state_name` are announced on every path", ok, f.where(), detail=str(sorted(map(str, names))), construct=f.ident,
           text="shot state announcements")


def _conditions_at_dispatch(chk, repo):
    """STALE-1: a conditional handler's condition is evaluated when the handler is reached -- inside the dispatch loop, in the same
    iteration as the call -- never once ahead of the loop (earlier handlers, or a queue wait, may change what it reads)."""
    EV = "mpf/core/events.py"
    n = 0
    for nm in ("_run_handlers", "_run_handlers_sequential"):
        f = repo.func(EV, "EventManager." + nm)
        chk.analysed(f)
        calls = [c for c in ast.walk(f.node) if isinstance(c, ast.Call) and call_attr(c) == "callback" and isinstance(c.func, ast.Attribute) and isinstance(c.func.value, ast.Name)]
        chk.need(calls, "STALE-1", "%s calls the handlers" % nm, f)
        loops = [lp for lp in ast.walk(f.node) if isinstance(lp, (ast.For, ast.AsyncFor)) and any(y is calls[0] for st in lp.body for y in ast.walk(st))]
        chk.need(loops, "STALE-1", "%s calls the handlers in a loop" % nm, f)
        lp = loops[-1]
        evs = [x for x in ast.walk(f.node) if isinstance(x, ast.Call) and call_attr(x) == "evaluate" and ".condition" in src(x.func)]
        chk.need(evs, "STALE-1", "%s evaluates handler conditions" % nm, f)
        for x in evs:
            n += 1
            inside = any(y is x for st in lp.body for y in ast.walk(st))
            chk.ob("STALE-1", "%s evaluates a handler's condition in that handler's own iteration of the dispatch loop" % nm, inside, f.where(x),
                   detail="a condition evaluated before the loop is stale for every handler that runs after another one", construct=f.ident,
                   text="condition evaluated outside the dispatch loop in " + nm)
            # ... and on the arguments the handler is then called with (posted merged with registered), in both dispatch paths alike
            starred = {src(k.value) for c in calls for k in c.keywords if k.arg is None}
            a0 = src(x.args[0]) if len(x.args) == 1 else None
            chk.ob("STALE-1", "%s evaluates the condition on the very arguments it hands to the handler" % nm, a0 is not None and a0 in starred,
                   f.where(x), detail="evaluated on `%s`, handler called with **%s: a condition on a registered argument reads nothing, one on a "
                   "posted argument may read another value than the handler gets" % (a0, sorted(starred)), construct=f.ident,
                   text="condition arguments differ from the handler's in " + nm)
    chk.ob("STALE-1", "dispatch-time condition evaluations examined", n >= 2, EV + ":1", detail=str(n), nontrivial=False)


def _defaults(chk, repo):
    """DEFAULT-16: a template whose evaluation fails (missing variable, incompatible operands, no result) yields its configured default,
    on the plain and on the subscribing path alike -- never None, never a value from a half-evaluated expression; only the strict
    mode (fail_on_missing_params) and config errors are passed on."""
    PM = "mpf/core/placeholder_manager.py"
    bt = repo.cls(PM, "BaseTemplate")
    f = bt.methods["evaluate"]
    chk.analysed(f)
    cfg = f.cfg()
    rets = [n for n in cfg.nodes if n.kind == "stmt" and isinstance(n.ast, ast.Return)]
    n_def = 0
    for r in rets:
        v = src(r.ast.value) if r.ast.value is not None else "None"
        handler = [h for h in ast.walk(f.node) if isinstance(h, ast.ExceptHandler) and any(y is r.ast for y in ast.walk(h))]
        g = cfg.guards_at(r.id)
        if handler or g.get("result is None") is True:
            n_def += 1
            chk.ob("DEFAULT-16", "a failed or empty evaluation returns the template's default value", v == "self.default_value", f.where(r.ast), detail="returns " + v,
                   construct=f.ident, text="failure path returns " + v)
        else:
            chk.ob("DEFAULT-16", "a successful evaluation returns the converted result", v == "self.convert_result(result)", f.where(r.ast), detail="returns " + v,
                   construct=f.ident, text="success path returns " + v)
    hs = {src(h.type) if h.type is not None else "": h for h in ast.walk(f.node) if isinstance(h, ast.ExceptHandler)}
    ok = "ValueError" in hs and "TemplateEvalError" in hs and n_def >= 3
    chk.ob("DEFAULT-16", "missing variables (ValueError) and failed sub-expressions (TemplateEvalError) are handled, as is an empty result", ok, f.where(),
           detail="%s, %d default returns" % (sorted(hs), n_def), construct=f.ident, text="failure kinds handled")
    if "ValueError" in hs:
        h = hs["ValueError"]
        rs = [x for x in ast.walk(h) if isinstance(x, ast.Raise)]
        rn = [n for n in cfg.nodes if rs and n.ast is rs[0] and n.kind != "branch"]
        ok = len(rs) == 1 and rs[0].exc is None and bool(rn) and cfg.guards_at(rn[0].id, ignore_exc=False).get("fail_on_missing_params") is True
        chk.ob("DEFAULT-16", "a missing variable is passed on only in strict mode", ok, f.where(h), construct=f.ident, text="strict mode re-raise")
    es = bt.methods["evaluate_and_subscribe"]
    chk.analysed(es)
    ecfg = es.cfg()
    asg = [n for n in ecfg.nodes if n.kind == "stmt" and isinstance(n.ast, ast.Assign) and src(n.ast.targets[0]) == "result" and src(n.ast.value) == "self.default_value"]
    ok = len(asg) == 1
    if ok:
        t = [y for y in ast.walk(es.node) if isinstance(y, ast.If) and any(z is asg[0].ast for z in y.body)]
        ok = bool(t) and isinstance(t[0].test, ast.BoolOp) and isinstance(t[0].test.op, ast.Or) and \
            sorted(src(o) for o in t[0].test.values) == sorted(["isinstance(result, TemplateEvalError)", "result is None"])
    rr = [r for r in ast.walk(es.node) if isinstance(r, ast.Return)]
    ok = ok and len(rr) == 1 and isinstance(rr[0].value, ast.Tuple) and [src(e) for e in rr[0].value.elts] == ["self.convert_result(result)", "subscriptions"]
    chk.ob("DEFAULT-16", "while subscribing, a failed or empty evaluation is replaced by the default before conversion; the subscriptions are returned with it", ok,
           es.where(), construct=es.ident, text="subscribing default")


def _producers(chk, repo):
    """NOTIFY-1: the producer side of subscriptions.  A subscribed template is woken again after every change of what it read:
    machine variables post their event whenever the value changed; monitored device attributes resolve every future waiting
    for that attribute, after the new value is stored, whenever old != new."""
    from sa.cfg import build_cfg
    mv = repo.func("mpf/core/machine_vars.py", "MachineVariables.set_machine_var")
    chk.analysed(mv)
    cfg = mv.cfg()
    posts = [(n, c) for n, c in cfg.calls_named("post") if c.args and _prefix(c.args[0]) == "machine_var_"]
    chk.need(len(posts) == 1, "NOTIFY-1", "set_machine_var posts machine_var_<name>", mv)
    n, c = posts[0]
    g = {k: v for k, v in cfg.guards_at(n.id).items()}
    chk.ob("NOTIFY-1", "the machine-variable event is posted whenever the value changed (no other condition)", canon_only(g, "change"), mv.where(c),
           detail=str(sorted(g.items())), construct=mv.ident, text="machine var post guard")
    chk.ob("NOTIFY-1", "the event names the variable that changed", src(c.args[0]).replace('"', "'") == "'machine_var_' + name", mv.where(c), construct=mv.ident,
           text="machine var event name")
    st = [x for x in cfg.nodes if x.kind == "stmt" and isinstance(x.ast, ast.Assign) and src(x.ast.targets[0]).replace('"', "'") == "self.machine_vars[name]['value']"]
    ok = len(st) == 1 and src(st[0].ast.value) == "value" and cfg.dominates(st[0].id, n.id) and cfg.path_avoiding(cfg.entry.id, [x.id for x in cfg.nodes if x.kind == "exit"], [st[0].id]) is None
    chk.ob("NOTIFY-1", "the new value is stored on every path, before the event is posted (a woken template reads the new value)", ok, mv.where(), construct=mv.ident,
           text="machine var store before post")
    chg = [x for x in ast.walk(mv.node) if isinstance(x, ast.Assign) and src(x.targets[0]) == "change"]
    vals = sorted(src(x.value) for x in chg)
    ok = vals == sorted(["True", "value - prev_value", "prev_value != value"]) or vals == sorted(["True", "value - prev_value", "value != prev_value"])
    chk.ob("NOTIFY-1", "`change` is true for a new variable, value - previous for numbers and previous != value otherwise", ok, mv.where(), detail=str(vals),
           construct=mv.ident, text="machine var change computation")
    pv = [x for x in ast.walk(mv.node) if isinstance(x, ast.Assign) and src(x.targets[0]) == "prev_value" and src(x.value) != "None"]
    ok = len(pv) == 1 and src(pv[0].value).replace('"', "'") == "self.machine_vars[name]['value']"
    if ok and st:
        pn = [x for x in cfg.nodes if x.kind == "stmt" and x.ast is pv[0]][0]
        ok = st[0].id in cfg.reachable([pn.id], include_start=False) and pn.id not in cfg.reachable([st[0].id], include_start=False)
    chk.ob("NOTIFY-1", "the previous value is read before the new one is stored", ok, mv.where(), construct=mv.ident, text="machine var prev before store")

    # player variables: the change event (which PlayerPlaceholder.subscribe_attribute waits for) is posted for every simple value - an
    # isinstance test, so that bool (a subclass of int) is included - whenever the value changed or the variable is new
    ps_ = repo.func("mpf/core/player.py", "Player.__setattr__")
    chk.analysed(ps_)
    pcfg = ps_.cfg()
    sv = [(x, c_) for x, c_ in pcfg.calls_named("_send_variable_event")]
    chk.need(len(sv) == 1, "NOTIFY-1", "Player.__setattr__ posts the player-variable event", ps_)
    g_ = pcfg.guards_at(sv[0][0].id)
    ok = g_.get("isinstance(value, (int, str, float))") is True and g_.get("self._events_enabled") is True and \
        not [k for k in g_ if k.startswith("type(")]
    comp = pcfg.compound_guards_at(sv[0][0].id)
    ok = ok and any(set(p_.strip() for p_ in k.split(" or ")) == {"change", "new_entry"} and v is True for k, v in comp.items())
    chk.ob("NOTIFY-1", "a player variable posts its change event for every simple value (isinstance: bools included) that changed or is new, once events are on", ok,
           ps_.where(sv[0][1]), detail="guards %s %s" % (sorted(k for k, v in g_.items() if v is True)[:5], sorted(comp.items())), construct=ps_.ident,
           text="player variable event condition")

    dm = repo.func("mpf/core/device_monitor.py", "DeviceMonitor.__call__")
    chk.analysed(dm)
    inner = {x.name: x for x in dm.node.body if isinstance(x, ast.FunctionDef)}
    for need in ("__setattr__", "_notify_placeholder_change", "subscribe_attribute"):
        chk.need(need in inner, "NOTIFY-1", "DeviceMonitor installs %s" % need, dm)
    sa = inner["__setattr__"]
    scfg = build_cfg(sa)
    notes = [(x, c_) for x, c_ in scfg.calls_named("_notify_placeholder_change")]
    stores = [x for x, c_ in scfg.calls_named("old_setattr")] + \
        [x for x in scfg.nodes if x.kind == "stmt" and isinstance(x.ast, ast.Assign) and "__dict__[name]" in src(x.ast.targets[0])]
    exits = [x.id for x in scfg.nodes if x.kind == "exit"]
    ok = len(stores) == 2 and scfg.path_avoiding(scfg.entry.id, exits, [x.id for x in stores]) is None
    chk.ob("NOTIFY-1", "the monitored __setattr__ stores the value on every path", ok, dm.where(sa), construct=dm.ident, text="monitor store")
    ok = len(notes) == 1 and all(notes[0][0].id in scfg.reachable([x.id], include_start=False) for x in stores) and \
        [src(a) for a in notes[0][1].args] == ["self_inner", "attribute_name", "old", "value"] and canon_only(scfg.guards_at(notes[0][0].id), "attribute_name")
    chk.ob("NOTIFY-1", "subscribers are notified after the store, with (device, attribute, old, new), whenever a monitored attribute was recognised",
           ok, dm.where(sa), construct=dm.ident, text="monitor notify after store")
    an = [x for x in scfg.nodes if x.kind == "stmt" and isinstance(x.ast, ast.Assign) and src(x.ast.targets[0]) == "attribute_name" and src(x.ast.value) != "False"]
    want = {"name": "name in self._attributes_to_monitor", "self._aliased_attributes_to_monitor[name]": "name in self._aliased_attributes_to_monitor"}
    ok = len(an) == 2
    for x in an:
        gx = scfg.guards_at(x.id)
        w = want.get(src(x.ast.value))
        allowed = {(w, True), ("old != value", True), ("old is not _sentinel", True), ("name not in self._attributes_to_monitor", True)}
        ok = ok and w is not None and gx.get(w) is True and gx.get("old != value") is True and set(canon_items(gx)) <= allowed
    chk.ob("NOTIFY-1", "a monitored attribute is recognised exactly when it already had a different value (direct name, or alias -> public name)", ok,
           dm.where(sa), detail=str([src(x.ast.value) for x in an]), construct=dm.ident, text="monitor recognises change")
    nf = inner["_notify_placeholder_change"]
    ncfg = build_cfg(nf)
    fut = "cls.attribute_futures[self_inner][attribute_name]"
    loops = [x for x in ast.walk(nf) if isinstance(x, ast.For) and src(x.iter) == fut]
    sets = [c_ for lp in loops for c_ in ast.walk(lp) if isinstance(c_, ast.Call) and call_attr(c_) == "set_result"]
    clr = [x for x in ncfg.nodes if x.kind == "stmt" and isinstance(x.ast, ast.Assign) and src(x.ast.targets[0]) == fut and src(x.ast.value) in ("[]", "list()")]
    ok = len(loops) == 1 and len(sets) == 1 and not any(isinstance(y, (ast.Break, ast.Return)) for y in ast.walk(loops[0]))
    chk.ob("NOTIFY-1", "a change resolves every future waiting for that attribute of that device", ok, dm.where(nf), construct=dm.ident, text="all waiters resolved")
    if loops and sets:
        ln = [x for x in ncfg.nodes if x.kind == "loop" and x.ast is loops[0]][0]
        sn = [x for x in ncfg.nodes if x.kind == "stmt" and any(y is sets[0] for y in x.walk())][0]
        g1 = ncfg.guards_at(ln.id)
        g2 = {k: v for k, v in ncfg.guards_at(sn.id).items() if k not in g1}
        ok = canon_only(g1, "old != value") and all(k.replace(" ", "") in ("future.done()", "notfuture.done()") for k in g2)
        chk.ob("NOTIFY-1", "waiters are resolved whenever old != new (only futures already done are skipped)", ok, dm.where(nf),
               detail="%s / %s" % (sorted(g1.items()), sorted(g2.items())), construct=dm.ident, text="waiter guard")
    ok = len(clr) == 1 and bool(loops) and clr[0].id in ncfg.reachable([x.id for x in ncfg.nodes if x.kind == "loop"], include_start=False)
    chk.ob("NOTIFY-1", "resolved waiters are forgotten after they were resolved (a re-subscription is a new future)", ok, dm.where(nf), construct=dm.ident,
           text="waiters cleared after resolve")
    sb = inner["subscribe_attribute"]
    app = [c_ for c_ in ast.walk(sb) if isinstance(c_, ast.Call) and call_attr(c_) == "append"]
    ret = [x for x in ast.walk(sb) if isinstance(x, ast.Return)]
    ok = len(app) == 1 and src(app[0].func.value) == "cls.attribute_futures[self_inner][item]" and len(ret) == 1 and src(ret[0].value) == src(app[0].args[0])
    chk.ob("NOTIFY-1", "a subscription is filed under (device, attribute) - the key the notification reads - and the same future is returned", ok, dm.where(sb),
           construct=dm.ident, text="subscription key")
    inst = {src(x.targets[0]): src(x.value) for x in dm.node.body if isinstance(x, ast.Assign)}
    ok = inst.get("cls.subscribe_attribute") == "subscribe_attribute" and inst.get("cls.notify_virtual_change") == "_notify_placeholder_change"
    st_ = [x for x in ast.walk(dm.node) if isinstance(x, ast.Assign) and src(x.targets[0]) == "cls.__setattr__"]
    ok = ok and len(st_) == 1 and src(st_[0].value) == "__setattr__"
    chk.ob("NOTIFY-1", "the decorator installs its setter, subscribe_attribute and notify_virtual_change on the class", ok, dm.where(), construct=dm.ident,
           text="monitor installation")


def canon_items(g):
    from sa.cfg import canon_set
    c = canon_set(g)
    return sorted(c.items()) if isinstance(c, dict) else sorted(c)


def canon_only(g, text):
    """the only dominating branch outcome (up to equivalent spellings) is `text` is True"""
    items = canon_items(g)
    return len(items) == 1 and items[0][0] == text and items[0][1] is True


def _prefix(e):
    """Constant prefix of an event-name expression: 'player_' + name / 'player_{}'.format(x)."""
    if isinstance(e, ast.BinOp) and isinstance(e.op, ast.Add) and isinstance(e.left, ast.Constant):
        return e.left.value
    if isinstance(e, ast.Call) and isinstance(e.func, ast.Attribute) and e.func.attr == "format" and isinstance(e.func.value, ast.Constant):
        return e.func.value.value.split("{")[0]
    if isinstance(e, ast.JoinedStr) and e.values and isinstance(e.values[0], ast.Constant):
        return e.values[0].value
    return None


def _flow(chk, f, fcfg, node, expr, subs, acc, what):
    """Every sub-evaluation that dominates `node` must have its subscription variable in `expr`
    (directly, or through an accumulator `X += Y` that dominates node)."""
    names = {x.id for x in ast.walk(expr) if isinstance(x, ast.Name)}
    for sn, var in subs:
        if not fcfg.dominates(sn.id, node.id):
            # a sub-evaluation inside a loop: its subscriptions must be folded into an accumulator on every path of the
            # iteration, and the accumulator must reach this result
            loops = [h for h in fcfg.nodes if h.kind == "loop" and any(x is sn.ast for st in h.ast.body for x in ast.walk(st))]
            if not loops or not fcfg.path_avoiding(sn.id, [node.id], [], ignore_exc=True):
                continue
            head = loops[-1]
            folded = False
            for x, adds in acc.items():
                hits = [an.id for an, v in adds if v == var]
                if x in names and hits and fcfg.path_avoiding(sn.id, [head.id, node.id], hits, ignore_exc=True) is None:
                    folded = True
            chk.ob("FLOW-7", "%s: the subscriptions of every `%s` in the loop reach the %s at line %s" % (f.name, short(sn.ast.value, 40), what, node.lineno),
                   folded, f.where(node.ast), detail="`%s` of a loop iteration is not accumulated into `%s`" % (var, short(expr, 60)),
                   construct=f.ident, text="%s of loop dropped from %s in %s" % (var, what, f.name))
            continue
        covered = var in names
        if not covered:
            for x, adds in acc.items():
                if x in names and any(v == var and fcfg.dominates(an.id, node.id) and fcfg.dominates(sn.id, an.id) for an, v in adds):
                    covered = True
        # a loop re-binding the same variable: the binding inside the loop is folded by the accumulator
        chk.ob("FLOW-7", "%s: the subscriptions of `%s` reach the %s at line %s" % (f.name, short(sn.ast.value, 40), what, node.lineno), covered,
               f.where(node.ast), detail="`%s` is missing from `%s`: a change of that operand alone would never wake the template" % (var, short(expr, 60)),
               construct=f.ident, text="%s dropped from %s in %s" % (var, what, f.name))


def _monitored_backing_stores(chk):
    """NOTIFY-1 (monitored properties): DeviceMonitor wakes subscribers from the monitored attribute's __setattr__.  Where the attribute is a
    property, its setter stores into a backing field (`self._state.value`); only a write *through the property* reaches the monitor.  So nobody
    but the setter stores into the backing field of a monitored property - unless the writer announces the change itself
    (notify_virtual_change(<attr>, old, new), as StateMachine does on unload)."""
    repo = chk.repo
    n = 0
    for c in repo.all_classes("mpf/devices/"):
        mons = [const_value(a) for d in c.node.decorator_list if isinstance(d, ast.Call) and (dotted(d.func) or "").endswith("DeviceMonitor") for a in d.args]
        for attr in [m for m in mons if isinstance(m, str)]:
            setters = [fn for k in repo.mro(c) for fn in k.node.body if isinstance(fn, ast.FunctionDef) and fn.name == attr
                       and any(src(d) == attr + ".setter" for d in fn.decorator_list)]
            if not setters:
                continue
            backing = {src(t) for x in ast.walk(setters[0]) if isinstance(x, (ast.Assign, ast.AugAssign))
                       for t in (x.targets if isinstance(x, ast.Assign) else [x.target]) if isinstance(t, ast.Attribute)}
            if not backing:
                continue
            n += 1
            for k in [c] + list(repo.subclasses(c)):
                for m in k.methods.values():
                    if m.node is setters[0] or m.name == "__init__":
                        continue
                    # a direct write is fine where the same function announces the change itself (old, new) after it
                    says = [y for y in m.calls() if call_attr(y) == "notify_virtual_change" and y.args and const_value(y.args[0]) == attr]
                    for x in walk_local(m.node):
                        if isinstance(x, (ast.Assign, ast.AugAssign)):
                            for t in (x.targets if isinstance(x, ast.Assign) else [x.target]):
                                if src(t) in backing and not says:
                                    chk.ob("NOTIFY-1", "the backing field of a monitored property is written through the property only (the monitor "
                                           "hooks the attribute, not the field)", False, m.where(x), detail="%s writes %s directly: subscribers of "
                                           "device.<type>.<name>.%s are not woken for this change" % (m.qualname, src(t), attr), construct=m.ident,
                                           text="backing store %s bypasses monitored %s" % (src(t), attr))
            chk.ob("NOTIFY-1", "%s.%s: backing field %s written by the setter only" % (c.name, attr, sorted(backing)), True, c.where(), construct=c.ident,
                   text="backing of %s.%s" % (c.name, attr))
    chk.ob("NOTIFY-1", "monitored properties with a backing field found (%d)" % n, n >= 1, "mpf/devices:1", text="monitored properties present")


_COPIERS = {"deepcopy", "copy", "dict", "list"}


def _play_time_settings_not_written(chk):
    """STALE-1 (config players): the settings a player plays are the stored configuration, evaluated afresh on every play.  Writing an evaluated
    value into them (directly or through an alias) freezes the first evaluation.  A play-time function stores only into copies."""
    repo = chk.repo
    CONFIG_TIME = {"validate_config_entry", "get_express_config", "get_full_config", "_validate_config_item", "get_list_config", "expand_config_entry",
                   "_expand_device_config", "_parse_and_validate_conditional", "process_config", "__init__"}
    SETTINGS = {"settings", "params", "s", "show_settings", "device_settings", "event_settings", "config"}
    n = 0
    for c in repo.all_classes("mpf/config_players/"):
        for m in c.methods.values():
            if m.name in CONFIG_TIME:
                continue
            tainted = set(m.params()) & SETTINGS
            if not tainted:
                continue
            n += 1
            cfg = m.cfg()
            changed = True
            while changed:
                changed = False
                for x in walk_local(m.node):
                    srcs = []
                    if isinstance(x, ast.Assign):
                        srcs = [(t, x.value) for t in x.targets]
                    elif isinstance(x, (ast.For, ast.comprehension)):
                        it = x.iter
                        if isinstance(it, ast.Call) and call_attr(it) in ("items", "values"):
                            it = it.func.value
                        srcs = [(x.target, it)]
                    for t, v in srcs:
                        while isinstance(v, ast.Subscript):
                            v = v.value
                        if isinstance(v, ast.Name) and v.id in tainted:
                            els = t.elts if isinstance(t, (ast.Tuple, ast.List)) else [t]
                            for nm in [y.id for y in els if isinstance(y, ast.Name)]:
                                if nm not in tainted:
                                    tainted.add(nm)
                                    changed = True
            for node in cfg.nodes:
                if node.kind != "stmt":
                    continue
                for x in node.walk():
                    tgt = None
                    if isinstance(x, ast.Subscript) and isinstance(x.ctx, (ast.Store, ast.Del)):
                        tgt = x.value
                    elif isinstance(x, ast.Call) and call_attr(x) in ("update", "pop", "clear", "setdefault", "append") and isinstance(x.func, ast.Attribute):
                        tgt = x.func.value
                    while isinstance(tgt, ast.Subscript):
                        tgt = tgt.value
                    if not (isinstance(tgt, ast.Name) and tgt.id in tainted):
                        continue
                    def copies(name, at, depth=0):
                        out = []
                        for k in cfg.nodes:
                            if k.kind == "stmt" and isinstance(k.ast, ast.Assign) and any(src(t) == name for t in k.ast.targets) and cfg.dominates(k.id, at):
                                v = k.ast.value
                                if isinstance(v, ast.Call) and call_attr(v) in _COPIERS:
                                    out.append(k)
                                elif isinstance(v, ast.Name) and depth < 2 and v.id != name and copies(v.id, k.id, depth + 1):
                                    out.append(k)
                        return out
                    fresh = copies(tgt.id, node.id)
                    chk.ob("STALE-1", "a config player writes evaluated values only into a copy of the stored settings (a copy is taken on every path "
                           "before the write)", bool(fresh), m.where(node.ast), detail="%s is (an alias of) the stored settings: the first play overwrites the "
                           "template with its value, every later play repeats that value" % tgt.id, construct=m.ident,
                           text="stored settings written at play time via %s in %s" % (tgt.id, m.qualname))
    chk.ob("STALE-1", "play-time functions of config players examined for writes into stored settings (%d)" % n, n >= 5, "mpf/config_players:1",
           text="play-time functions examined")


def battery():
    from sa.battery import M
    return [
        M("multiball lock per-turn reset not announced (F26 reverted)", "mpf/devices/multiball_lock.py", "        self.notify_virtual_change(\"locked_balls\", old_locked_balls, self.locked_balls)\n", "", "NOTIFY-1"),
        M("condition evaluated on the posted arguments only", "mpf/core/events.py", "            if handler.condition is not None and not handler.condition.evaluate(merged_kwargs):\n                continue\n\n            # log if debug is enabled and this event is not the timer tick", "            if handler.condition is not None and not handler.condition.evaluate(kwargs):\n                continue\n\n            # log if debug is enabled and this event is not the timer tick", "STALE-1"),
        M("reset writes the counter value behind the monitor", "mpf/devices/logic_blocks.py", "        self.completed = False\n        self.value = self.get_start_value()", "        self.completed = False\n        self._state.value = self.get_start_value()", "NOTIFY-1"),
        M("event player evaluates templates into the stored params", "mpf/config_players/event_player.py", "                params = deepcopy(params)\n", "", "STALE-1"),
        M("event player evaluates into an alias of the stored params", "mpf/config_players/event_player.py", "        for key, param in params.items():\n            if isinstance(param, dict):\n                params = deepcopy(params)\n                # TODO: move this to parsing time\n                params[key] = self._evaluate_event_param(param, kwargs)\n        self.machine.events.post(event, priority=priority, **params)", "        event_params = params\n        for key, param in params.items():\n            if isinstance(param, dict):\n                event_params[key] = self._evaluate_event_param(param, kwargs)\n        self.machine.events.post(event, priority=priority, **event_params)", "STALE-1"),
        M("twin: copy taken once before the loop", "mpf/config_players/event_player.py", "        for key, param in params.items():\n            if isinstance(param, dict):\n                params = deepcopy(params)\n", "        event_params = deepcopy(params)\n        params = event_params\n        for key, param in event_params.items():\n            if isinstance(param, dict):\n", None),
        M("shot stores the new state before reading the old name", "mpf/devices/shot.py", "        old = self.player[self._player_var_name]\n        try:", "        old = self.player[self._player_var_name]\n        self.player[self._player_var_name] = state\n        try:", "NOTIFY-1"),
        M("hour subscription wakes a minute late", "mpf/core/placeholder_manager.py", "asyncio.sleep(3600 - current_time.second - 60 * current_time.minute)", "asyncio.sleep(60 * (60 - current_time.minute) + 60 - current_time.second)", "TIME-16"),
        M("twin: hour wake-up spelled as minutes and seconds left", "mpf/core/placeholder_manager.py", "asyncio.sleep(3600 - current_time.second - 60 * current_time.minute)", "asyncio.sleep(60 * (59 - current_time.minute) + 60 - current_time.second)", None),
        M("enabled change notified only for the unpersisted state", "mpf/core/enable_disable_mixin.py", "        self.enabled = True\n        self.notify_virtual_change(\"enabled\", False, True)      # type: ignore\n", "        self.enabled = True\n", "NOTIFY-1",
          also=[("mpf/core/enable_disable_mixin.py", "        else:\n            self._enabled = value\n", "        else:\n            self._enabled = value\n            self.notify_virtual_change(\"enabled\", not value, value)\n")]),
        M("twin: enabled change notified in the setter on both branches", "mpf/core/enable_disable_mixin.py", "        self.enabled = True\n        self.notify_virtual_change(\"enabled\", False, True)      # type: ignore\n", "        self.enabled = True\n", None,
          also=[("mpf/core/enable_disable_mixin.py", "        else:\n            self._enabled = value\n", "        else:\n            self._enabled = value\n        self.notify_virtual_change(\"enabled\", not value, value)\n")]),
        M("global parameters memoised by name", "mpf/core/placeholder_manager.py", "    # pylint: disable-msg=too-many-return-statements\n    def get_global_parameters(self, name):", "    # pylint: disable-msg=too-many-return-statements\n    @lru_cache()\n    def get_global_parameters(self, name):", "MEMO-0"),
        M("bitwise bool ops", PM, "BOOL_OPERATORS = {ast.And: lambda a, b: a and b, ast.Or: lambda a, b: a or b}", "BOOL_OPERATORS = {ast.And: op.and_, ast.Or: op.or_}", "TABLE-7"),
        M("and/or swapped", PM, "BOOL_OPERATORS = {ast.And: lambda a, b: a and b, ast.Or: lambda a, b: a or b}", "BOOL_OPERATORS = {ast.And: lambda a, b: a or b, ast.Or: lambda a, b: a and b}", "TABLE-7"),
        M("div is floordiv", PM, "ast.Div: op.truediv,", "ast.Div: op.floordiv,", "TABLE-7"),
        M("lt is le", PM, "ast.Lt: op.lt,", "ast.Lt: op.le,", "TABLE-7"),
        M("pow is xor", PM, "ast.Pow: op.pow,", "ast.Pow: op.xor,", "TABLE-7"),
        M("operands reversed", PM, "            ret_value = OPERATORS[type(node.op)](left_value, right_value)", "            ret_value = OPERATORS[type(node.op)](right_value, left_value)", "TABLE-7"),
        M("ifexp branches swapped", PM, "        if value:\n            ret_value, ret_subscription = self._eval(node.body, variables, subscribe)", "        if not value:\n            ret_value, ret_subscription = self._eval(node.body, variables, subscribe)", "TABLE-7"),
        M("tuple returns pairs", PM, "        values = []\n        subscriptions = []\n        for element in node.elts:\n            value, subscription = self._eval(element, variables, subscribe)\n            values.append(value)\n            subscriptions += subscription\n        return tuple(values), subscriptions", "        return tuple([self._eval(x, variables, subscribe) for x in node.elts])", "SIB-4"),
        M("compare error drops right subscription", PM, "        except TypeError:\n            raise TemplateEvalError(left_subscription + right_subscription)\n\n    def _eval_bool_op", "        except TypeError:\n            raise TemplateEvalError(left_subscription)\n\n    def _eval_bool_op", "FLOW-7"),
        M("binop drops left subscription", PM, "        return ret_value, left_subscription + right_subscription", "        return ret_value, right_subscription", "FLOW-7"),
        M("ifexp drops test subscription", PM, "        ret_value, ret_subscription = self._eval(node.orelse, variables, subscribe)\n        return ret_value, subscription + ret_subscription", "        ret_value, ret_subscription = self._eval(node.orelse, variables, subscribe)\n        return ret_value, ret_subscription", "FLOW-7"),
        M("bool op forgets later operands", PM, "            subscription += new_subscription\n", "", "FLOW-7"),
        M("error path loses subscriptions", PM, "            value = e\n            subscriptions = e.subscriptions", "            value = e\n            subscriptions = []", "FLOW-7"),
        M("player placeholder waits wrong event", PM, "        return self._machine.events.wait_for_event('player_{}'.format(item))\n\n    def __getitem__", "        return self._machine.events.wait_for_event('player_var_{}'.format(item))\n\n    def __getitem__", "TABLE-8"),
        M("machine var event renamed", "mpf/core/machine_vars.py", "self.machine.events.post('machine_var_' + name,", "self.machine.events.post('machine_variable_' + name,", "TABLE-8"),
        M("no resubscribe", "mpf/core/config_player.py", "        subscription.add_done_callback(\n            partial(self._update_subscription, template, subscription_list, settings, priority, context, key))\n", "", "PAIR-19"),
        M("bool op failure swallowed", PM, "            except TypeError:\n                raise TemplateEvalError(subscription)\n        return result, subscription", "            except TypeError:\n                pass\n        return result, subscription", "SIB-4"),
        M("chained comparison cut to its first link", PM, "        if len(node.ops) > 1:\n            raise AssertionError(\"Only single comparisons are supported.\")\n", "", "TABLE-7"),
        M("tuple element subscriptions dropped", PM, "            values.append(value)\n            subscriptions += subscription\n", "            values.append(value)\n", "FLOW-7"),
        M("bool op folds (next, result)", PM, "result = BOOL_OPERATORS[type(node.op)](result, value)", "result = BOOL_OPERATORS[type(node.op)](value, result)", "TABLE-7"),
        M("missing parent asserts while subscribing", PM, "            if subscribe:  # pylint: disable-msg=no-else-raise\n                raise TemplateEvalError(subscription)\n            else:\n                raise AssertionError(", "            if not subscribe:  # pylint: disable-msg=no-else-raise\n                raise TemplateEvalError(subscription)\n            else:\n                raise AssertionError(", "SIB-4"),
        M("dict attribute read without key test", PM, "if isinstance(slice_value, dict) and node.attr in slice_value:", "if isinstance(slice_value, dict):", "TABLE-7"),
        M("slice bounds swapped", PM, "return value[lower:upper:step],", "return value[upper:lower:step],", "TABLE-7"),
        M("slice step ignored", PM, "return value[lower:upper:step],", "return value[lower:upper],", "TABLE-7"),
        # twins
        M("twin: subscription sum reordered", PM, "        return ret_value, left_subscription + right_subscription", "        return ret_value, right_subscription + left_subscription", None),
        M("twin: named functions for bool ops", PM, "BOOL_OPERATORS = {ast.And: lambda a, b: a and b, ast.Or: lambda a, b: a or b}", "BOOL_OPERATORS = {ast.And: lambda x, y: x and y, ast.Or: lambda x, y: x or y}", None),
        M("timed-enable placeholder re-arms the pulse placeholder", "mpf/devices/driver.py", "            future.add_done_callback(self._calculate_timed_enable_ms_placeholder)", "            future.add_done_callback(self._calculate_pulse_ms_placeholder)", "PAIR-19"),
        M("settings template subscribes to the setting's name", "mpf/core/settings_controller.py", "        return self._settings[setting_name].machine_var\n", "        return self._settings[setting_name].name\n", "TABLE-8"),
        M("first value of a machine variable posts no event", "mpf/core/machine_vars.py", "        if change:\n            self._write_machine_var_to_disk(name)\n\n            self.debug_log(\"Setting machine_var", "        if change and prev_value is not None:\n            self._write_machine_var_to_disk(name)\n\n            self.debug_log(\"Setting machine_var", "NOTIFY-1"),
        M("non-numeric machine variable changes are not detected", "mpf/core/machine_vars.py", "                change = prev_value != value", "                change = False", "NOTIFY-1"),
        M("machine variable event posted before the store", "mpf/core/machine_vars.py", "        # set value\n        self.machine_vars[name]['value'] = value\n\n        if change:\n            self._write_machine_var_to_disk(name)\n", "        if change:\n            self.machine.events.post('machine_var_' + name, value=value, prev_value=prev_value, change=change)\n        # set value\n        self.machine_vars[name]['value'] = value\n\n        if change:\n            self._write_machine_var_to_disk(name)\n", "NOTIFY-1"),
        M("device subscribers woken before the store", "mpf/core/device_monitor.py", "            if old_setattr:\n                old_setattr(self_inner, name, value)\n            else:\n                # Old-style class\n                self_inner.__dict__[name] = value\n\n            if attribute_name:\n                _notify_placeholder_change(self_inner, attribute_name, old, value)\n", "            if attribute_name:\n                _notify_placeholder_change(self_inner, attribute_name, old, value)\n\n            if old_setattr:\n                old_setattr(self_inner, name, value)\n            else:\n                # Old-style class\n                self_inner.__dict__[name] = value\n", "NOTIFY-1"),
        M("only the first waiter of an attribute is woken", "mpf/core/device_monitor.py", "                    if not future.done():\n                        future.set_result(True)\n", "                    if not future.done():\n                        future.set_result(True)\n                        break\n", "NOTIFY-1"),
        M("subscription filed under another key", "mpf/core/device_monitor.py", "            cls.attribute_futures[self_inner][item].append(future)", "            cls.attribute_futures[item][self_inner].append(future)", "NOTIFY-1"),
        M("waiters forgotten before they are woken", "mpf/core/device_monitor.py", "                for future in cls.attribute_futures[self_inner][attribute_name]:\n                    if not future.done():\n                        future.set_result(True)\n                cls.attribute_futures[self_inner][attribute_name] = []", "                cls.attribute_futures[self_inner][attribute_name] = []\n                for future in cls.attribute_futures[self_inner][attribute_name]:\n                    if not future.done():\n                        future.set_result(True)", "NOTIFY-1"),
        M("aliased attribute notified under its private name", "mpf/core/device_monitor.py", "                    attribute_name = self._aliased_attributes_to_monitor[name]", "                    attribute_name = name", "NOTIFY-1"),
        M("twin: done futures skipped with continue", "mpf/core/device_monitor.py", "                    if not future.done():\n                        future.set_result(True)\n", "                    if future.done():\n                        continue\n                    future.set_result(True)\n", None),
        M("queue-event conditions evaluated once before the dispatch loop", "mpf/core/events.py", "        for handler in self.registered_handlers[event][:]:", "        for handler in [h for h in self.registered_handlers[event] if h.condition is None or h.condition.evaluate(dict(list(kwargs.items()) + list(h.kwargs.items())))]:", "STALE-1", nth=0),
        M("event conditions evaluated once before the dispatch loop", "mpf/core/events.py", "        for handler in self.registered_handlers[event][:]:", "        for handler in [h for h in self.registered_handlers[event] if h.condition is None or h.condition.evaluate(dict(list(kwargs.items()) + list(h.kwargs.items())))]:", "STALE-1", nth=1),
        M("failed sub-expression yields None instead of the default", "mpf/core/placeholder_manager.py", "        except TemplateEvalError:\n            return self.default_value", "        except TemplateEvalError:\n            return None", "DEFAULT-16"),
        M("empty result converted instead of defaulted", "mpf/core/placeholder_manager.py", "        if result is None:\n            return self.default_value\n        return self.convert_result(result)\n\n    def evaluate_or_none", "        return self.convert_result(result)\n\n    def evaluate_or_none", "DEFAULT-16"),
        M("missing variable always raised", "mpf/core/placeholder_manager.py", "            if fail_on_missing_params:\n                raise\n            return self.default_value", "            raise", "DEFAULT-16"),
        M("subscribing evaluation keeps the error object as value", "mpf/core/placeholder_manager.py", "        if isinstance(result, TemplateEvalError) or result is None:\n            result = self.default_value", "        if result is None:\n            result = self.default_value", "DEFAULT-16"),
        M("a stored falsy setting falls back to the default", "mpf/core/settings_controller.py", "        if not self.machine.variables.is_machine_var(self._settings[setting_name].machine_var):\n            value = self._settings[setting_name].default\n        else:\n            value = self.machine.variables.get_machine_var(self._settings[setting_name].machine_var)\n", "        value = self.machine.variables.get_machine_var(self._settings[setting_name].machine_var)\n        if not value:\n            value = self._settings[setting_name].default\n", "TABLE-8"),
        M("current_player templates are not woken when a turn starts", "mpf/core/placeholder_manager.py", "return self._machine.events.wait_for_any_event([\"player_turn_ended\", \"player_turn_started\"])", "return self._machine.events.wait_for_event(\"player_turn_ended\")", "TABLE-8"),
        M("text template waits for all of its subscriptions", PM, "            future = Util.any(subscriptions)\n        future = asyncio.ensure_future(future)\n        return value, future", "            future = asyncio.wait(subscriptions)\n        future = asyncio.ensure_future(future)\n        return value, future", "FLOW-7"),
        M("item access of a numbered player reads the player before", PM, "                return self._machine.game.player_list[self._number][item]", "                return self._machine.game.player_list[self._number - 1][item]", "TABLE-8"),
        M("bool player variables post no event", "mpf/core/player.py", "        if (change or new_entry) and isinstance(value, (int, str, float)):", "        if (change or new_entry) and type(value) in (int, str, float):", "NOTIFY-1"),
    ]


def thorough(chk):
    from sa.battery import run_battery
    run_battery(chk, battery())
