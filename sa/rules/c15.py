"""C15 — persistent data (structural clauses).

PAIR-16 busy flag reset on every exit of FileManager.save (exceptional ones included)
PAIR-17 atomic replace: write to a sibling temp file, rename only after the write completed normally
DEAD-4  the shutdown flush can fire and writes the live data
FLOW-6  the writer clears the dirty flag, then snapshots, then saves (a save during the write re-arms the flag)
DOM-30  a failed write does not end the writer loop
PAIR-18 the writer thread is waited for on shutdown (known finding: it is a daemon thread nobody joins)
TABLE-6 persisted machine-variable record: keys written cover keys read; expiry test direction
OWN-16  who writes data files
"""
import ast

from sa.model import src, short, dotted, call_attr, kwarg, walk_local, AnalysisError, const_value
from sa.index import get_index

FM = "mpf/core/file_manager.py"
DM = "mpf/core/data_manager.py"
YI = "mpf/file_interfaces/yaml_interface.py"
MV = "mpf/core/machine_vars.py"


def check(chk):
    repo = chk.repo
    idx = get_index(repo)
    chk.explanation = ("C15: flag pairing and rename placement in FileManager.save on normal and exceptional paths; order of "
                       "dirty-clear / snapshot / save and failure isolation in the writer thread; liveness of the shutdown flush; "
                       "thread hand-over at shutdown; record keys of persisted machine variables. Crash points (fsync) and "
                       "equality of reloaded values are not decided.")
    # ------------------------------------------------------------ PAIR-16 / PAIR-17
    f = repo.func(FM, "FileManager.save")
    chk.analysed(f)
    cfg = f.cfg(exc_all=True)
    busy = [n for n in cfg.nodes_where(lambda n: n.kind == "stmt" and isinstance(n.ast, ast.Assign) and src(n.ast.targets[0]).endswith("is_busy")
                                       and src(n.ast.value) == "True")]
    free = [n.id for n in cfg.nodes_where(lambda n: n.kind == "stmt" and isinstance(n.ast, ast.Assign) and src(n.ast.targets[0]).endswith("is_busy")
                                          and src(n.ast.value) == "False")]
    chk.need(busy, "PAIR-16", "FileManager.save marks itself busy while it writes", f)
    w = cfg.path_avoiding(busy[0].id, [cfg.exit.id, cfg.raise_.id], free, ignore_exc=False)
    chk.ob("PAIR-16", "FileManager.save resets is_busy on every exit, exceptional ones included", w is None and bool(free), f.where(busy[0].ast),
           path=cfg.fmt_path(w, FM) if w else None, detail="an exception while writing leaves the flag set: every data manager's writer spins for ever",
           construct=f.ident, text="is_busy not reset on some exit")
    saves = [(n, c) for n, c in cfg.calls_named("save") if "file_interfaces" in src(c.func.value)]
    reps = [(n, c) for n, c in cfg.calls_named("replace", "rename") if dotted(c.func.value) == "os"]
    chk.need(saves, "PAIR-17", "FileManager.save writes the data through the file interface", f)
    chk.ob("PAIR-17", "the file is renamed into place (atomic replace)", bool(reps), f.where(), construct=f.ident, text="os.replace present")
    # ... by os.replace alone: the target is never removed first (a crash between remove and rename leaves no file at all) and os.rename is not
    # used for the move (it fails on an existing target on some systems, which is what tempts one to remove first)
    unsafe = [c for c in f.calls() if (dotted(c.func) or "") in ("os.remove", "os.unlink", "os.rename", "shutil.move", "os.rmdir")]
    chk.ob("PAIR-17", "the finished temp file replaces the target in one step (no remove / rename of the target in FileManager.save)", not unsafe,
           f.where(unsafe[0]) if unsafe else f.where(), detail=", ".join(src(c)[:40] for c in unsafe), construct=f.ident, text="target removed before the move")
    # ... and every save is attempted: FileManager.save gives up only for an unknown file type (inside the handler of the interface lookup);
    # nothing it finds on disk - a temp file left by an attempt that died - makes it refuse, or one failed write blocks every later one
    raises_ = [n for n in cfg.nodes if n.kind == "stmt" and isinstance(n.ast, ast.Raise)]
    handlers_ = {id(y) for h in ast.walk(f.node) if isinstance(h, ast.ExceptHandler) for st in h.body for y in ast.walk(st)}
    early = [n for n in raises_ if id(n.ast) not in handlers_]
    # ... nor quietly: a return that is reached without passing the write is a refused save as well (a "busy" shortcut drops the snapshot
    # the data manager has already marked as written)
    save_ids_ = [n.id for n, _ in saves]
    for r_ in [n for n in cfg.nodes if n.kind == "stmt" and isinstance(n.ast, ast.Return) and id(n.ast) not in handlers_]:
        if cfg.path_avoiding(cfg.entry.id, [r_.id], save_ids_, ignore_exc=True):
            early.append(r_)
    chk.ob("PAIR-17", "FileManager.save refuses a save only for an unknown file type (never because of files an earlier attempt left)", not early,
           f.where(early[0].ast) if early else f.where(), detail="guards %s" % sorted(cfg.guards_at(early[0].id).items()) if early else "", construct=f.ident,
           text="save refused before it was attempted")
    sn, sc = saves[0]
    tmp = src(sc.args[0]) if sc.args else ""
    chk.ob("PAIR-17", "the interface writes to a temporary file, not to the data file itself", tmp not in ("filename", "") , f.where(sc),
           detail="writes to " + tmp, construct=f.ident, text="write target " + tmp)
    td = [x for x in walk_local(f.node) if isinstance(x, ast.Assign) and src(x.targets[0]) == tmp]
    alias = [x for x in td if src(x.value) == "filename"]
    chk.ob("PAIR-17", "the temporary name is never the data file's own name, on any path (also for the very first save of a file)", not alias,
           f.where(alias[0]) if alias else f.where(), detail="an interrupted first write would leave its partial document under the real name",
           construct=f.ident, text="temp name aliases the target")
    ok = bool(td) and all("os.path.dirname(filename)" in src(x.value) for x in td)
    chk.ob("PAIR-17", "the temporary file lies in the same directory (rename stays on one file system)", ok, f.where(), construct=f.ident,
           text="temp file location")
    ok = bool(td) and all("os.path.basename(filename)" in src(x.value) for x in td)
    chk.ob("PAIR-17", "the temporary file is named after the data file: one temporary file per target, never shared between data managers", ok, f.where(),
           detail="temp name %s: with a shared name two writers truncate and rename each other's half-written file" % (src(td[0].value) if td else "?"),
           construct=f.ident, text="temp file name")
    for n, c in reps:
        args = [src(a) for a in c.args]
        chk.ob("PAIR-17", "the temporary file replaces the data file (source, destination in that order)", args == [tmp, "filename"], f.where(c),
               detail=str(args), construct=f.ident, text="replace args " + ",".join(args))
        # never on a path on which the write raised
        exc_succ = [s for s in cfg.nodes[sn.id].succ if (sn.id, s) in cfg.exc_edges]
        reach = cfg.reachable(exc_succ, ignore_exc=False) if exc_succ else set()
        chk.ob("PAIR-17", "the rename happens only after the write returned normally (never on the failure path)", n.id not in reach, f.where(c),
               detail="a truncated temp file would be renamed over the good data file: torn file on disk", construct=f.ident,
               text="replace reachable after failed write")
        chk.ob("PAIR-17", "the rename follows the write", cfg.dominates(sn.id, n.id), f.where(c), construct=f.ident, text="replace after write")
    ys = repo.func(YI, "YamlInterface.save")
    chk.analysed(ys)
    withs = [x for x in ast.walk(ys.node) if isinstance(x, ast.With) and any("open(filename, 'w'" in src(i.context_expr) for i in x.items)]
    ok = bool(withs) and any(call_attr(c) == "dump" for c in ast.walk(withs[0]) if isinstance(c, ast.Call))
    chk.ob("PAIR-17", "the YAML writer closes the file (with-block) before returning", ok, ys.where(), construct=ys.ident, text="with open")
    # a failed write must reach FileManager.save as an exception: that is what keeps the rename from happening.  No handler in a writer
    # (interface save) may end a failed dump normally.
    for fn_ in [m for c_ in repo.all_classes("mpf/file_interfaces/") for m in c_.methods.values() if m.name == "save"] + [f]:
        chk.analysed(fn_)
        for t_ in [x for x in ast.walk(fn_.node) if isinstance(x, ast.Try)]:
            if not any(isinstance(c_, ast.Call) and call_attr(c_) in ("dump", "save", "write") for b in t_.body for c_ in ast.walk(b)):
                continue
            for h in t_.handlers:
                swallow = not any(isinstance(x, ast.Raise) for b in h.body for x in ast.walk(b))
                chk.ob("PAIR-17", "a failed write leaves the writer as an exception (no handler ends it normally): the caller must not rename the file",
                       not swallow, fn_.where(h), detail="handler for %s returns normally: FileManager.save then renames the empty/truncated temp file "
                       "over the good data file" % (src(h.type) if h.type else "everything"), construct=fn_.ident,
                       text="write failure swallowed in " + fn_.qualname)
    # the writer configures layout only: what the safe dumper can represent (shared and self-referencing containers through anchors included)
    # stays representable.  Options set on the dumper or its representer are from the layout table.
    LAYOUT = {"default_flow_style", "line_break", "indent", "width", "explicit_start", "explicit_end", "allow_unicode", "encoding", "sort_base_mapping_type_on_output",
              "preserve_quotes", "top_level_colon_align", "prefix_colon", "map_indent", "sequence_indent", "sequence_dash_offset", "compact_seq_seq",
              "compact_seq_map", "version", "canonical", "explicit_start", "default_style"}
    opts = [(x, src(x.targets[0])) for x in walk_local(ys.node) if isinstance(x, ast.Assign) and isinstance(x.targets[0], ast.Attribute)
            and src(x.targets[0]).split(".")[0] == "dumper"]
    for x, t in opts:
        chk.ob("PAIR-17", "the YAML writer sets layout options only (%s)" % t, t.count(".") == 1 and t.split(".")[1] in LAYOUT, ys.where(x),
               detail="%s changes what can be represented (e.g. ignore_aliases: self-referencing data can no longer be written, every save of it fails)" % t,
               construct=ys.ident, text="dumper option " + t)
    dumps = [c_ for c_ in ys.calls() if call_attr(c_) == "dump"]
    chk.ob("PAIR-17", "the YAML writer dumps the document", bool(dumps), ys.where(), construct=ys.ident, text="dump present")

    # writer and reader name the same text encoding explicitly: the platform default differs between machines (cp1252, C locale),
    # a file written with it is rejected by the utf8 reader on the next boot and every value in it is gone
    yl = repo.func(YI, "YamlInterface.load")
    chk.analysed(yl)
    encs = {}
    for fn_ in (ys, yl):
        for c in fn_.calls():
            if isinstance(c.func, ast.Name) and c.func.id == "open":
                e_ = [k.value for k in c.keywords if k.arg == "encoding"]
                encs.setdefault(fn_.name, []).append(e_[0].value if e_ and isinstance(e_[0], ast.Constant) else None)
    flat = [e for v in encs.values() for e in v]
    ok = len(encs) == 2 and None not in flat and len({str(e).lower().replace("-", "") for e in flat}) == 1
    chk.ob("TABLE-6", "the YAML writer and the YAML reader open the file with the same explicitly named text encoding", ok, ys.where(), detail=str(encs),
           construct=ys.ident, text="yaml encoding agreement")

    # what is loaded is what was written: to_plain_dict turns ruamel's map / sequence types into plain dict / list and leaves every other
    # value as it is (a set is written as !!set and must come back as a set)
    tp = repo.func(YI, "YamlInterface.to_plain_dict")
    chk.analysed(tp)
    tests = [x for x in walk_local(tp.node) if isinstance(x, ast.Call) and isinstance(x.func, ast.Name) and x.func.id == "isinstance" and len(x.args) == 2]
    kinds = sorted(src(x.args[1]) for x in tests)
    rets = [x for x in walk_local(tp.node) if isinstance(x, ast.Return) and x.value is not None]
    ok = kinds == ["dict", "list"] and any(src(r.value) == "data" for r in rets) and any(isinstance(r.value, ast.DictComp) for r in rets) and \
        any(isinstance(r.value, ast.ListComp) for r in rets)
    chk.ob("TABLE-6", "loading converts exactly maps to dict and sequences to list; every other value (set, tuple, scalar) is returned as it is", ok, tp.where(),
           detail="isinstance tests on %s" % kinds, construct=tp.ident, text="to_plain_dict conversions")

    # the dumper is created per write: a module-level ruamel YAML instance keeps its emitter bound to the closed stream
    # after one failed dump and every later save in the process fails (F17)
    dumps = [c for c in ys.calls() if call_attr(c) == "dump"]
    chk.ob("DOM-30", "the YAML writer dumps the data", bool(dumps), ys.where(), construct=ys.ident, text="dump present")
    m_ = repo.mod(YI)
    for c in dumps:
        recv = c.func.value
        fresh = isinstance(recv, ast.Name) and recv.id not in m_.globals and any(
            isinstance(x, ast.Assign) and src(x.targets[0]) == recv.id and isinstance(x.value, ast.Call) and call_attr(x.value) == "YAML"
            for x in walk_local(ys.node))
        chk.ob("DOM-30", "each write uses its own dumper object (a failed dump cannot poison later saves)", fresh, ys.where(c),
               detail="receiver `%s` is shared module state" % src(recv) if not fresh else "", construct=ys.ident,
               text="shared dumper " + src(recv))

    # ------------------------------------------------------------ FLOW-6 / DOM-30 / DEAD-4
    t = repo.func(DM, "DataManager._writing_thread")
    chk.analysed(t)
    cfg = t.cfg()
    wl = [x for x in ast.walk(t.node) if isinstance(x, ast.While) and "thread_stopper" in src(x.test)]
    chk.need(wl, "FLOW-6", "the writer thread loops until the machine stops", t)
    loop = wl[0]

    def inloop(node):
        return any(y is node for st in loop.body for y in ast.walk(st))
    clears = [n for n, c in cfg.calls_named("clear") if src(c.func.value) == "self._dirty" and inloop(c)]
    copies = [n for n in cfg.nodes_where(lambda n: n.kind == "stmt" and isinstance(n.ast, ast.Assign) and isinstance(n.ast.value, ast.Call) and
                                         call_attr(n.ast.value) == "deepcopy" and inloop(n.ast))]
    lsaves = [(n, c) for n, c in cfg.calls_named("save") if "FileManager" in src(c.func.value) and inloop(c)]
    chk.need(lsaves, "FLOW-6", "the writer loop saves the data (FileManager.save)", t)
    # once the notification is consumed (flag cleared) the snapshot is written, whatever it contains: no path from the clear back to the wait
    # (or out of the loop) avoids the save - an empty snapshot is a save like any other ("reset the earnings" must reach the disk)
    jh = [h for h in cfg.nodes if h.kind == "join" and h.ast is loop]
    for cl in clears:
        w_ = cfg.path_avoiding(cl.id, [h.id for h in jh] + [cfg.exit.id], [n.id for n, c in lsaves], ignore_exc=True) if jh else [cl.id]
        chk.ob("FLOW-6", "after the dirty flag was cleared every path of the writer loop reaches the write (no snapshot is skipped)", w_ is None, t.where(cl.ast),
               construct=t.ident, text="snapshot skipped after the flag was cleared", path=cfg.fmt_path(w_, t) if w_ and len(w_) > 1 else None, nontrivial=True)
    ok = bool(clears) and bool(copies) and cfg.dominates(clears[0].id, copies[0].id) and all(cfg.dominates(copies[0].id, n.id) for n, c in lsaves)
    chk.ob("FLOW-6", "the writer clears the dirty flag, then takes the snapshot, then writes it", ok, t.where(),
           detail="clearing after the write discards the notification of a save that arrived during the write: the newer data is never written",
           construct=t.ident, text="clear/snapshot/save order")
    for n, c in lsaves:
        later = [x for x in clears if cfg.path_avoiding(n.id, [x.id], [h for h in []], ignore_exc=False) and not cfg.dominates(x.id, n.id)]
        # a clear reachable from the save within the same iteration
        head = [h.id for h in cfg.nodes if h.kind == "join" and h.ast is loop]
        bad = [x for x in clears if cfg.path_avoiding(n.id, [x.id], head, ignore_exc=False)]
        chk.ob("FLOW-6", "the dirty flag is not cleared after the write in the same round", not bad, t.where(c), construct=t.ident,
               text="dirty cleared after save")
        a = c.args[1] if len(c.args) > 1 else None
        ok = a is not None and bool(copies) and src(a) == src(copies[0].ast.targets[0]) and src(copies[0].ast.value.args[0]) == "self.data"
        chk.ob("FLOW-6", "what is written is the deep copy of the live data", ok, t.where(c), construct=t.ident, text="save snapshot")
        chk.ob("FLOW-6", "the data is written to this manager's file", src(c.args[0]) == "self.filename", t.where(c), construct=t.ident, text="save filename")
        # DOM-30
        tries = [x for x in ast.walk(loop) if isinstance(x, ast.Try) and any(y is c for st in x.body for y in ast.walk(st))]
        ok = bool(tries) and any(h.type is None or "Exception" in src(h.type) for h in tries[0].handlers) and not any(
            isinstance(y, (ast.Break, ast.Return, ast.Raise)) for h in tries[0].handlers for y in ast.walk(h))
        chk.ob("DOM-30", "a failing write is caught inside the loop and the writer carries on", ok, t.where(c),
               detail="otherwise the thread dies and all later saves are silently lost", construct=t.ident, text="failure isolation")
        # ... and the handler itself cannot raise: it only logs through the plain log calls (ignorable_runtime_exception / raise_config_error raise
        # when the console log level is `full`: the writer thread would die at the first failed write)
        PLAIN_LOGS = {"info_log", "warning_log", "error_log", "debug_log", "info", "warning", "error", "debug", "exception", "format"}
        hcalls = [y for h in (tries[0].handlers if tries else []) for y in ast.walk(h) if isinstance(y, ast.Call)]
        risky = [y for y in hcalls if (call_attr(y) or getattr(y.func, "id", "")) not in PLAIN_LOGS]
        chk.ob("DOM-30", "the handler of a failed write only logs (nothing in it can raise and end the writer thread)", bool(tries) and not risky,
               t.where(risky[0]) if risky else t.where(c), detail=", ".join(short(y, 50) for y in risky), construct=t.ident, text="writer failure handler may raise")
    waits = [n for n in cfg.nodes_where(lambda n: n.kind == "test" and "self._dirty.wait(" in src(n.ast))]
    chk.ob("FLOW-6", "the writer sleeps on the dirty flag", bool(waits), t.where(), construct=t.ident, text="dirty wait")
    for n, c in lsaves:
        g = cfg.guards_at(n.id)
        st = [v for k, v in g.items() if k.endswith("thread_stopper.is_set()")]
        chk.ob("FLOW-6", "the writer loop runs (and writes) while the machine has not been stopped", st == [False], t.where(c), detail=str(g),
               construct=t.ident, text="loop polarity")
        dw = [v for k, v in g.items() if k.startswith("self._dirty.wait(")]
        chk.ob("FLOW-6", "a round writes only, and always, when the dirty flag was raised", dw == [True], t.where(c), detail=str(g), construct=t.ident,
               text="write iff dirty")
    bw = [x for x in ast.walk(loop) if isinstance(x, ast.While) and "is_busy" in src(x.test)]
    chk.ob("FLOW-6", "the writer waits while another data manager is writing", bool(bw), t.where(), construct=t.ident, text="busy wait")
    # shutdown flush
    after = [st for st in t.node.body if st.lineno > loop.lineno and st is not loop]
    flush = [x for st in after for x in ast.walk(st) if isinstance(x, ast.Call) and call_attr(x) == "save" and "FileManager" in src(x.func.value)]
    chk.ob("DEAD-4", "data that became dirty after the last write is flushed when the loop ends (shutdown)", bool(flush), t.where(), construct=t.ident,
           text="shutdown flush present")
    for c in flush:
        n = [n for n in cfg.nodes if n.kind != "branch" and any(y is c for y in n.calls())][0]
        g = cfg.guards_at(n.id)
        # every guard variable must be able to be true: no local that is None on all reaching paths
        dead = []
        for k in g:
            if k.isidentifier():
                defs = [x for x in walk_local(t.node) if isinstance(x, ast.Assign) and src(x.targets[0]) == k]
                if defs and all(isinstance(x.value, ast.Constant) and x.value.value is None for x in defs if not inloop(x)) and \
                        all(isinstance(x.value, ast.Constant) and x.value.value is None for x in defs[-1:]):
                    dead.append(k)
        chk.ob("DEAD-4", "the flush is reachable (its guard is not a local that is always None at that point)", not dead and g.get("self._dirty.is_set()") is True,
               t.where(c), detail="guards %s; always-None locals: %s" % (sorted(g.items()), dead), construct=t.ident,
               text="dead shutdown flush " + ",".join(dead))
        a = c.args[1] if len(c.args) > 1 else None
        ok = a is not None and "self.data" in src(a)
        chk.ob("DEAD-4", "the flush writes the live data", ok, t.where(c), detail=src(a), construct=t.ident, text="flush data " + src(a))
        # nothing but "dirty" decides the flush: a busy file manager is waited for, never a reason to skip the last write
        from sa.cfg import canon_set, canon_fact
        from sa.helpers import positive
        gs = positive(set(canon_set(g)))
        loop_g = positive(set(canon_set(cfg.guards_at([h for h in cfg.nodes if h.kind == "join" and h.ast is loop][0].id)))) if [h for h in cfg.nodes if h.kind == "join" and h.ast is loop] else set()
        extra = {x for x in gs - loop_g if x not in positive({canon_fact("self._dirty.is_set()", True), canon_fact("FileManager.is_busy", False),
                                                                  canon_fact("self.machine.thread_stopper.is_set()", True)})}
        busy_wait = [x for st in after for x in ast.walk(st) if isinstance(x, ast.While) and "is_busy" in src(x.test)]
        skip_if_busy = canon_fact("FileManager.is_busy", False) in gs and not busy_wait
        chk.ob("DEAD-4", "the shutdown flush happens whenever data is dirty: a busy file manager is waited for, not a reason to skip it", not extra and not skip_if_busy,
               t.where(c), detail="guards %s; busy wait loops after the main loop: %d" % (sorted(gs - loop_g), len(busy_wait)), construct=t.ident,
               text="shutdown flush conditional")
    # every way out of the writer thread goes through the shutdown flush: no return / break-out before the dirty test after the loop
    # (a stop request that arrives during the start-up delay or the rate-limit sleep still flushes what was saved meanwhile)
    ft = [b for b in cfg.nodes if b.kind in ("test", "branch") and b.lineno is not None and b.lineno > loop.end_lineno and "self._dirty.is_set()" in src(b.ast)]
    rets_ = [n for n in cfg.nodes if n.kind == "stmt" and isinstance(n.ast, ast.Return) and n.lineno < (ft[0].lineno if ft else 10 ** 9)]
    w_ = cfg.path_avoiding(cfg.entry.id, [cfg.exit.id], [b.id for b in ft], ignore_exc=True) if ft else [cfg.entry.id]
    chk.ob("DEAD-4", "every normal way out of the writer thread passes the shutdown flush test", bool(ft) and w_ is None and not rets_, t.where(rets_[0].ast) if rets_ else t.where(),
           path=cfg.fmt_path(w_, DM) if w_ and ft else None, construct=t.ident, text="writer exit bypasses the shutdown flush")

    sa = repo.func(DM, "DataManager.save_all")
    calls = [call_attr(c) for c in sa.calls()]
    st_ = [x for x in walk_local(sa.node) if isinstance(x, ast.Assign) and src(x.targets[0]) == "self.data"]
    ok = bool(st_) and "_trigger_save" in calls and sa.node.body[-1] is not None
    scfg = sa.cfg()
    dn = [n for n in scfg.nodes if n.kind == "stmt" and n.ast is st_[0]] if st_ else []
    tn = [n for n, c in scfg.calls_named("_trigger_save")]
    ok = ok and bool(dn) and bool(tn) and scfg.dominates(dn[0].id, tn[0].id)
    chk.ob("FLOW-6", "save_all stores the data before it marks it dirty", ok, sa.where(), construct=sa.ident, text="store before dirty")
    ts = repo.func(DM, "DataManager._trigger_save")
    ok = any(call_attr(c) == "set" and src(c.func.value) == "self._dirty" for c in ts.calls())
    chk.ob("FLOW-6", "marking dirty sets the flag the writer sleeps on", ok, ts.where(), construct=ts.ident, text="dirty set")

    # ------------------------------------------------------------ PAIR-18
    init = repo.func(DM, "DataManager.__init__")
    starts = [c for c in init.calls() if call_attr(c) in ("start_new_thread", "Thread", "start")]
    joins = [u for u in idx.uses("join") if u.call is not None and u.relpath in (DM, "mpf/core/machine.py") and "thread" in (u.recv_text or "").lower()]
    handle = any(isinstance(x, ast.Assign) and isinstance(x.value, ast.Call) and call_attr(x.value) in ("Thread",) for x in walk_local(init.node))
    chk.ob("PAIR-18", "the data manager's writer thread is waited for at shutdown (so the final flush reaches the disk)", bool(joins) and handle,
           init.where(starts[0]) if starts else init.where(),
           detail="the writer is started with _thread.start_new_thread (no handle, daemon): shutdown sets thread_stopper and returns; the process "
                  "can exit before the flush after the loop has run", construct=init.ident, text="writer thread never joined")
    sd = repo.func("mpf/core/machine.py", "MachineController.shutdown")
    ok = any(call_attr(c) == "set" and src(c.func.value) == "self.thread_stopper" for c in sd.calls())
    chk.ob("PAIR-18", "shutdown tells the writer threads to stop", ok, sd.where(), construct=sd.ident, text="thread_stopper set")
    # ... and only there: handlers of the `shutdown` event still store values (last chance to persist); a writer told to stop before they
    # ran does its final flush too early and exits, and what the handlers stored stays in memory
    sets = [u for u in idx.uses("set") if u.call is not None and (u.recv_text or "").endswith("thread_stopper") and "/tests/" not in u.relpath]
    for u in sets:
        chk.ob("PAIR-18", "the writer threads are told to stop only in MachineController.shutdown", u.func is not None and u.func.ident == sd.ident,
               "%s:%d" % (u.relpath, u.node.lineno), construct=u.func.ident if u.func is not None else u.relpath, text="thread_stopper.set() outside shutdown")
    chk.ob("PAIR-18", "stop request sites examined", len(sets) >= 1, sd.where(), detail=str(len(sets)), nontrivial=False)
    ds = repo.func("mpf/core/machine.py", "MachineController._do_stop")
    chk.analysed(ds)
    dcfg = ds.cfg()
    sh = [n for n, c in dcfg.calls_named("shutdown") if src(c.func.value) == "self"]
    post = [n for n, c in dcfg.calls_named("post") if c.args and isinstance(c.args[0], ast.Constant) and c.args[0].value == "shutdown"]
    peq = [n for n, c in dcfg.calls_named("process_event_queue")]
    chk.need(sh and post and peq, "PAIR-18", "_do_stop posts `shutdown`, drains the event queue and shuts down", ds)
    ok = all(dcfg.dominates(post[0].id, peq[0].id) and dcfg.dominates(peq[0].id, n.id) for n in sh)
    chk.ob("PAIR-18", "the `shutdown` event is posted and its handlers have run (queue drained) before the machine shuts down and stops the writers", ok,
           ds.where(sh[0].ast), construct=ds.ident, text="shutdown after shutdown handlers")

    # ------------------------------------------------------------ TABLE-6
    w_ = repo.func(MV, "MachineVariables._write_machine_vars_to_disk")
    l_ = repo.func(MV, "MachineVariables.load_machine_vars")
    chk.analysed(w_, l_)
    wkeys = set()
    for x in ast.walk(w_.node):
        if isinstance(x, ast.DictComp) and isinstance(x.value, ast.Dict):
            wkeys = {k.value for k in x.value.keys if isinstance(k, ast.Constant)}
            filt = [src(i) for g in x.generators for i in g.ifs]
            chk.ob("TABLE-6", "only variables marked persistent are written", filt == ["var['persist']"], w_.where(x), detail=str(filt), construct=w_.ident,
                   text="persist filter")
            vmap = {k.value: src(v) for k, v in zip(x.value.keys, x.value.values) if isinstance(k, ast.Constant)}
            chk.ob("TABLE-6", "the record holds the variable's value and its absolute expiry time", vmap.get("value") == "var['value']" and
                   vmap.get("expire") == "var['timeout']", w_.where(x), detail=str(vmap), construct=w_.ident, text="record mapping")
    rkeys = set()
    for x in ast.walk(l_.node):
        if isinstance(x, ast.Subscript) and src(x.value) == "settings" and isinstance(x.slice, ast.Constant):
            rkeys.add(x.slice.value)
        if isinstance(x, ast.Compare) and isinstance(x.left, ast.Constant) and src(x.comparators[0]) == "settings":
            rkeys.add(x.left.value)
    chk.ob("TABLE-6", "every key the loader reads is written by the saver", bool(wkeys) and rkeys <= wkeys, l_.where(), detail="read %s, written %s" % (sorted(rkeys), sorted(wkeys)),
           construct=MV + "::record keys", text="keys read %s written %s" % (sorted(rkeys), sorted(wkeys)))
    cfg = l_.cfg()
    sets = [(n, c) for n, c in cfg.calls_named("set_machine_var") if "settings['value']" in src(c)]
    chk.ob("TABLE-6", "a persisted variable is restored with its stored value and stays persistent", bool(sets) and all(
        src(kwarg(c, "name")) == "name" and src(kwarg(c, "value")) == "settings['value']" and src(kwarg(c, "persist")) == "True" for n, c in sets),
        l_.where(), construct=l_.ident, text="restore call")
    exp = [b for b in cfg.nodes if b.kind == "branch" and src(b.ast).replace(" ", "") == "settings['expire']<current_time"]
    ok = bool(exp) and all(not any(n.id in cfg.reachable([b.id], avoid=[h.id for h in cfg.nodes if h.kind == "loop"]) for n, c in sets) for b in exp if b.value is True)
    chk.ob("TABLE-6", "a variable is skipped exactly when its expiry time lies in the past", ok, l_.where(), construct=l_.ident, text="expiry test")
    # sufficiency: every stored record that has a value and is not expired is restored -- nothing else skips a record.  The two skips
    # are written as `continue` under an or- / and-test; the restore's selection is what remains: record well-formed (both or-atoms
    # false) and no further dominating condition.
    from sa.helpers import inloop_guards
    from sa.cfg import canon_fact
    lh = [h for h in cfg.nodes if h.kind == "loop"]
    for n, c in sets:
        if not lh:
            break
        got = inloop_guards(cfg, n.id, lh[0].id)
        want = {canon_fact("isinstance(settings, dict)", True), canon_fact("'value' not in settings", False)}
        chk.ob("TABLE-6", "every well-formed, unexpired record is restored (no further condition)", got == want, l_.where(c), detail="selected by %s" % sorted(got),
               construct=l_.ident, text="restore selection")
        conts = [x for x in cfg.nodes if x.kind == "stmt" and isinstance(x.ast, ast.Continue)]
        ifs = [y for y in ast.walk(l_.node) if isinstance(y, ast.If) and any(isinstance(z, ast.Continue) for z in y.body)]
        def shape(t):
            if isinstance(t, ast.BoolOp):
                return (type(t.op).__name__, frozenset(canon_fact(src(o).replace('"', "'"), True)[0] for o in t.values))
            return ("atom", frozenset([canon_fact(src(t).replace('"', "'"), True)[0]]))
        tests = {shape(y.test) for y in ifs}
        want_t = {("Or", frozenset(canon_fact(x, True)[0] for x in ("not isinstance(settings, dict)", "'value' not in settings"))),
                  ("And", frozenset(canon_fact(x, True)[0] for x in ("'expire' in settings", "settings['expire']", "settings['expire'] < current_time")))}
        ok = len(conts) == 2 and tests == want_t
        chk.ob("TABLE-6", "a record is skipped only when it is malformed or its expiry time lies in the past (the two skip tests, nothing added)", ok, l_.where(),
               detail=str(tests), construct=l_.ident, text="record skip tests")
    skip = [b for b in cfg.nodes if b.kind == "branch" and "'value' not in settings" in src(b.ast)]
    chk.ob("TABLE-6", "malformed records are skipped, not loaded", bool(skip), l_.where(), construct=l_.ident, text="malformed skip")

    # ------------------------------------------------------------ FLOW-6b: what is written is the current state
    # set_machine_var updates the fields of the persisted record (value, absolute expiry) *before* it hands the record to the data
    # manager: a field updated after the write is on disk one set late (the expiry of the previous set: a reboot drops a live variable)
    sm = repo.func(MV, "MachineVariables.set_machine_var")
    chk.analysed(sm)
    scfg = sm.cfg()
    writes = [n for n, c in scfg.calls_named("_write_machine_var_to_disk", "_write_machine_vars_to_disk")]
    fields = [n for n in scfg.nodes if n.kind == "stmt" and isinstance(n.ast, ast.Assign) and isinstance(n.ast.targets[0], ast.Subscript) and
              src(n.ast.targets[0].value).startswith("self.machine_vars[name]") and isinstance(n.ast.targets[0].slice, ast.Constant) and
              n.ast.targets[0].slice.value in ("value", "timeout", "expire_secs")]
    chk.need(writes and len(fields) >= 2, "FLOW-6", "set_machine_var updates the record and writes it", sm)
    late = [(f_, w_) for f_ in fields for w_ in writes if f_.id in scfg.reachable([w_.id], include_start=False)]
    chk.ob("FLOW-6", "set_machine_var updates value and expiry time before the record is written to disk", not late, sm.where(late[0][0].ast) if late else sm.where(),
           detail="`%s` is stored after the write" % src(late[0][0].ast.targets[0]) if late else "", construct=sm.ident, text="record field updated after the disk write")
    exp = [n for n in fields if n.ast.targets[0].slice.value == "timeout"]
    ok = len(exp) == 1 and "get_datetime().timestamp()" in src(exp[0].ast.value) and "expire_secs" in src(exp[0].ast.value) and isinstance(exp[0].ast.value, ast.BinOp) and \
        isinstance(exp[0].ast.value.op, ast.Add)
    chk.ob("FLOW-6", "every set restarts the expiry period: expiry = now + expire_secs", ok, sm.where(), construct=sm.ident, text="expiry restart")

    # one clock for expiry: every deadline is wall-clock now + expire_secs, and the loader is handed the wall clock to compare with
    WALL = "self.machine.clock.get_datetime().timestamp()"
    n_dl = 0
    mvc = repo.cls(MV, "MachineVariables")
    for m in mvc.methods.values():
        for x in walk_local(m.node):
            if isinstance(x, ast.BinOp) and isinstance(x.op, ast.Add):
                sides = [src(x.left), src(x.right)]
                es = [i for i, t_ in enumerate(sides) if "expire_secs" in t_]
                if len(es) != 1:
                    continue
                n_dl += 1
                chk.analysed(m)
                other = sides[1 - es[0]]
                chk.ob("FLOW-6", "an expiry deadline is expire_secs after the wall clock's now (MachineVariables.%s)" % m.name, other == WALL, m.where(x),
                       detail="deadline = %s" % src(x), construct=m.ident, text="expiry deadline clock in " + m.name)
    chk.ob("FLOW-6", "expiry deadlines examined (%d)" % n_dl, n_dl >= 2, MV + ":1", nontrivial=False)
    lv = [u for u in idx.uses("load_machine_vars") if u.call is not None and "/tests/" not in u.relpath]
    for u in lv:
        a = u.call.args[1] if len(u.call.args) > 1 else kwarg(u.call, "current_time")
        text = src(a) if a is not None else ""
        if isinstance(a, ast.Name) and u.func is not None:      # one local in between
            d = [x for x in walk_local(u.func.node) if isinstance(x, ast.Assign) and src(x.targets[0]) == a.id]
            if len(d) == 1:
                text = src(d[0].value)
        ok = text.endswith("clock.get_datetime().timestamp()")
        chk.ob("FLOW-6", "the loader compares the stored deadlines with the wall clock", ok, "%s:%d" % (u.relpath, u.node.lineno), detail=src(a) if a is not None else "",
               construct=u.func.ident if u.func is not None else u.relpath, text="loader clock")
    chk.ob("FLOW-6", "loader call sites examined", len(lv) >= 1, MV + ":1", nontrivial=False)

    expiry_restart_is_written(chk, repo)
    setting_persisted_before_set(chk, repo)
    # a removed machine variable is also removed on disk: the stored set is rewritten as a whole (writing "the variable" cannot remove it)
    rmv = repo.func(MV, "MachineVariables.remove_machine_var")
    chk.analysed(rmv)
    rcfg_ = rmv.cfg()
    dl_ = [n for n in rcfg_.nodes if n.kind == "stmt" and isinstance(n.ast, ast.Delete) and "self.machine_vars[name]" in src(n.ast)]
    wr_ = [n.id for n, c in rcfg_.calls_named("_write_machine_vars_to_disk")]
    chk.need(dl_, "FLOW-6", "remove_machine_var deletes the variable", rmv)
    w_ = rcfg_.must_pass(dl_[0].id, wr_) if wr_ else [dl_[0].id]
    rms = repo.func(MV, "MachineVariables.remove_machine_var_search")
    chk.analysed(rms)
    mcfg_ = rms.cfg()
    wr2_ = [n.id for n, c in mcfg_.calls_named("_write_machine_vars_to_disk")]
    w2_ = mcfg_.must_pass(mcfg_.entry.id, wr2_) if wr2_ else [mcfg_.entry.id]
    chk.ob("FLOW-6", "a removal by pattern rewrites the persisted set on every path (whatever the last removed variable was)", w2_ is None, rms.where(), construct=rms.ident,
           text="pattern removal persisted", path=mcfg_.fmt_path(w2_, rms) if w2_ and len(w2_) > 1 else None)
    chk.ob("FLOW-6", "after a variable was removed the whole persisted set is written again on every path", w_ is None, rmv.where(dl_[0].ast), construct=rmv.ident,
           detail="the removed variable would come back at the next boot", text="removal persisted")

    # ------------------------------------------------------------ OWN-16
    n_s = 0
    for u in idx.uses("save"):
        if u.call is None or (u.recv_text or "") != "FileManager":
            continue
        n_s += 1
        chk.ob("OWN-16", "data files are written through FileManager.save only by the data manager's writer thread (%s)" % u.scope,
               (u.relpath, u.scope) == (DM, "DataManager._writing_thread") or u.relpath.startswith("mpf/commands/") or u.relpath.startswith("mpf/core/config_loader")
               or "config" in u.scope.lower() or u.relpath.startswith("mpf/wire/"), u.where(), construct=u.ident, text="FileManager.save in " + u.scope)
    chk.expect(n_s >= 2, "C15: FileManager.save call sites lost")


def setting_persisted_before_set(chk, repo, rule="FLOW-6"):
    """An operator setting reaches the disk with its first change: set_machine_var writes only variables that are marked persistent when it
    runs, and configure_machine_var never writes - so SettingsController.set_setting_value marks the variable persistent *before* it sets
    the value (or sets it with persist=True).  The other order leaves the first change of a setting in memory only: it is gone after the
    next boot unless something else happens to be saved in between."""
    f = repo.func("mpf/core/settings_controller.py", "SettingsController.set_setting_value")
    chk.analysed(f)
    cfg = f.cfg()
    sets = [(n, c) for n, c in cfg.calls_named("set_machine_var")]
    marks = [n.id for n, c in cfg.calls_named("configure_machine_var") if kwarg(c, "persist") is not None and const_value(kwarg(c, "persist")) is True]
    chk.need(sets, rule, "set_setting_value stores the value in the setting's machine variable", f)
    for n, c in sets:
        own = kwarg(c, "persist") is not None and const_value(kwarg(c, "persist")) is True and not marks
        ok = own or any(cfg.dominates(m, n.id) for m in marks)
        chk.ob(rule, "a setting's variable is marked persistent before its value is set (the set is what writes it)", ok, f.where(c), construct=f.ident,
               detail="configure_machine_var(persist=True) must come first: set_machine_var writes only what is persistent when it runs",
               text="setting persisted before set")
    wr = repo.func(MV, "MachineVariables.set_machine_var")
    wcfg = wr.cfg()
    w_ = [(n, c) for n, c in wcfg.calls_named("_write_machine_var_to_disk")]
    cf_ = repo.func(MV, "MachineVariables.configure_machine_var")
    chk.analysed(cf_)
    writes_in_cfg = [c for c in cf_.calls() if call_attr(c) in ("_write_machine_var_to_disk", "save_all")]
    chk.ob(rule, "the premise holds: set_machine_var writes, configure_machine_var does not", bool(w_) and not writes_in_cfg, wr.where(), construct=wr.ident,
           text="who writes machine variables", nontrivial=False)


def expiry_restart_is_written(chk, repo, rule="FLOW-6"):
    """Every set of an expiring machine variable restarts its expiry period *on disk*: on every path of set_machine_var on which the deadline
    is re-computed the record is written - also when the value did not change (at boot the loader writes the records back without a deadline;
    a value set to what it already was, e.g. the credit balance restored at start-up, would otherwise never get a deadline again)."""
    sm = repo.func(MV, "MachineVariables.set_machine_var")
    chk.analysed(sm)
    cfg = sm.cfg()
    dl = [n for n in cfg.nodes if n.kind == "stmt" and isinstance(n.ast, ast.Assign) and isinstance(n.ast.targets[0], ast.Subscript) and
          const_value(n.ast.targets[0].slice) == "timeout"]
    wr = [n.id for n, c in cfg.calls_named("_write_machine_var_to_disk")]
    chk.need(len(dl) == 1 and wr, rule, "set_machine_var restarts the expiry and writes the record", sm)
    from sa.helpers import feasible_paths
    w = None
    for pth, _fx in feasible_paths(cfg, cfg.entry.id, [cfg.exit.id]):
        if dl[0].id in pth and not any(x in wr for x in pth[pth.index(dl[0].id):]):
            w = pth
            break
    chk.ob(rule, "a restarted expiry deadline is written to disk on every path (also when the value is unchanged)", w is None, sm.where(dl[0].ast),
           path=cfg.fmt_path(w, MV) if w else None, construct=sm.ident, text="expiry restart not written")


def battery():
    from sa.battery import M
    return [
        M("empty snapshot treated as nothing to write", "mpf/core/data_manager.py", "            data = copy.deepcopy(self.data)\n            # save data\n", "            data = copy.deepcopy(self.data)\n            if not data:\n                continue\n            # save data\n", "FLOW-6"),
        M("pattern removal written only when the last match was persistent", "mpf/core/machine_vars.py", "                del self.machine_vars[var]\n\n        self._write_machine_vars_to_disk()", "                persisted = self.machine_vars.pop(var)['persist']\n\n        if persisted:\n            self._write_machine_vars_to_disk()", "FLOW-6"),
        M("a leftover temp file blocks every later save", "mpf/core/file_manager.py", "            temp_file = os.path.dirname(filename) + os.sep + \"_\" + os.path.basename(filename)\n", "            temp_file = os.path.dirname(filename) + os.sep + \"_\" + os.path.basename(filename)\n            if os.path.exists(temp_file):\n                raise AssertionError(\"busy\")\n", "PAIR-17"),
        M("target removed before the temp file is moved in", "mpf/core/file_manager.py", "            os.replace(temp_file, filename)", "            if os.path.exists(filename):\n                os.remove(filename)\n            os.rename(temp_file, filename)", "PAIR-17"),
        M("removed variable not removed on disk", "mpf/core/machine_vars.py", "            del self.machine_vars[name]\n            self._write_machine_vars_to_disk()", "            del self.machine_vars[name]\n            self._write_machine_var_to_disk(name)", "FLOW-6"),
        M("setting marked persistent after it was set", "mpf/core/settings_controller.py", "        self.machine.variables.configure_machine_var(name=self._settings[setting_name].machine_var, persist=True)\n        self.machine.variables.set_machine_var(name=self._settings[setting_name].machine_var, value=value)", "        self.machine.variables.set_machine_var(name=self._settings[setting_name].machine_var, value=value)\n        self.machine.variables.configure_machine_var(name=self._settings[setting_name].machine_var, persist=True)", "FLOW-6"),
        M("busy flag without finally", FM, "        try:\n            ext = os.path.splitext(filename)[1]", "        if True:\n            ext = os.path.splitext(filename)[1]", "PAIR-16", also=[(FM, "        finally:\n            FileManager.is_busy = False", "        FileManager.is_busy = False")]),
        M("replace in finally", FM, "            # move temp file\n            os.replace(temp_file, filename)\n        finally:\n            FileManager.is_busy = False", "        finally:\n            os.replace(temp_file, filename)\n            FileManager.is_busy = False", "PAIR-17"),
        M("write in place", FM, "FileManager.file_interfaces[ext].save(temp_file, data)", "FileManager.file_interfaces[ext].save(filename, data)", "PAIR-17"),
        M("replace arguments swapped", FM, "os.replace(temp_file, filename)", "os.replace(filename, temp_file)", "PAIR-17"),
        M("save skipped while another write is in progress", FM, "        FileManager.is_busy = True\n        try:\n            ext = os.path.splitext(filename)[1]", "        if FileManager.is_busy:\n            return\n        FileManager.is_busy = True\n        try:\n            ext = os.path.splitext(filename)[1]", "PAIR-17"),
        M("first save written in place", FM, "            temp_file = os.path.dirname(filename) + os.sep + \"_\" + os.path.basename(filename)\n", "            if os.path.isfile(filename):\n                temp_file = os.path.dirname(filename) + os.sep + \"_\" + os.path.basename(filename)\n            else:\n                temp_file = filename\n", "PAIR-17"),
        M("writer stops using anchors for shared data", YI, "        dumper.line_break = ''\n", "        dumper.line_break = ''\n        dumper.representer.ignore_aliases = lambda data: True\n", "PAIR-17"),
        M("serialisation error swallowed in the writer", YI, "            dumper.dump(data, output_file)", "            try:\n                dumper.dump(data, output_file)\n            except Exception as e:\n                self.log.warning(\"YAML error %s\", e)", "PAIR-17"),
        M("temp file in /tmp", FM, "temp_file = os.path.dirname(filename) + os.sep + \"_\" + os.path.basename(filename)", "temp_file = \"/tmp/_\" + os.path.basename(filename)", "PAIR-17"),
        M("dirty cleared after successful write", DM, "            self._dirty.clear()\n\n            data = copy.deepcopy(self.data)\n            # save data\n            try:\n                FileManager.save(self.filename, data)", "            data = copy.deepcopy(self.data)\n            # save data\n            try:\n                FileManager.save(self.filename, data)\n                self._dirty.clear()", "FLOW-6"),
        M("writes live dict", DM, "                FileManager.save(self.filename, data)\n            except Exception as e:", "                FileManager.save(self.filename, self.data)\n            except Exception as e:", "FLOW-6"),
        M("writer dies on error", DM, "                self.info_log(\"ERROR writing file %s: %s\", self.filename, e)", "                self.info_log(\"ERROR writing file %s: %s\", self.filename, e)\n                break", "DOM-30"),
        M("dead shutdown flush", DM, "        if self._dirty.is_set():\n            while FileManager.is_busy:\n                time.sleep(0.2)\n            self._dirty.clear()\n            FileManager.save(self.filename, copy.deepcopy(self.data))", "        if data and self._dirty.is_set():\n            while FileManager.is_busy:\n                time.sleep(0.2)\n            FileManager.save(self.filename, data)", "DEAD-4"),
        M("no shutdown flush", DM, "        if self._dirty.is_set():\n            while FileManager.is_busy:\n                time.sleep(0.2)\n            self._dirty.clear()\n            FileManager.save(self.filename, copy.deepcopy(self.data))", "        pass", "DEAD-4"),
        M("dirty before data", DM, "        self.data = data\n        self._trigger_save()", "        self._trigger_save()\n        self.data = data", "FLOW-6"),
        M("expiry key renamed on write", MV, "{\"value\": var[\"value\"], \"expire\": var['timeout'], \"expire_secs\": var[\"expire_secs\"]}", "{\"value\": var[\"value\"], \"expires\": var['timeout'], \"expire_secs\": var[\"expire_secs\"]}", "TABLE-6"),
        M("expiry inverted", MV, "                    settings['expire'] < current_time):", "                    settings['expire'] > current_time):", "TABLE-6"),
        M("non-persistent vars written", MV, "             for name, var in self.machine_vars.items() if var[\"persist\"]})", "             for name, var in self.machine_vars.items()})", "TABLE-6"),
        M("shared dumper instance", YI, "            dumper.dump(data, output_file)", "            _yaml.dump(data, output_file)", "DOM-30"),
        # twins
        M("twin: snapshot var rename", DM, "            data = copy.deepcopy(self.data)\n            # save data\n            try:\n                FileManager.save(self.filename, data)", "            snapshot = copy.deepcopy(self.data)\n            # save data\n            try:\n                FileManager.save(self.filename, snapshot)", None),
        M("twin: log level", DM, "                self.info_log(\"ERROR writing file %s: %s\", self.filename, e)", "                self.warning_log(\"ERROR writing file %s: %s\", self.filename, e)", None),
        M("writer loop polarity", DM, "        while not self.machine.thread_stopper.is_set():", "        while self.machine.thread_stopper.is_set():", "FLOW-6"),
        M("writer skips dirty rounds", DM, "            if not self._dirty.wait(1):\n                continue", "            if self._dirty.wait(1):\n                continue", "FLOW-6"),
        M("unexpired variables are dropped on load when they expire at all", MV, "            if ('expire' in settings and settings['expire'] and\n                    settings['expire'] < current_time):", "            if ('expire' in settings and settings['expire']):", "TABLE-6"),
        M("expiry time updated after the record was written", MV, "        if self.machine_vars[name][\"expire_secs\"]:\n            self.machine_vars[name][\"timeout\"] = \\\n                self.machine.clock.get_datetime().timestamp() + self.machine_vars[name][\"expire_secs\"]\n\n        # set value\n        self.machine_vars[name]['value'] = value\n\n        if change:\n            self._write_machine_var_to_disk(name)\n", "        # set value\n        self.machine_vars[name]['value'] = value\n\n        if change:\n            self._write_machine_var_to_disk(name)\n        if self.machine_vars[name][\"expire_secs\"]:\n            self.machine_vars[name][\"timeout\"] = \\\n                self.machine.clock.get_datetime().timestamp() + self.machine_vars[name][\"expire_secs\"]\n", "FLOW-6"),
        M("writer uses the platform default encoding", YI, "with open(filename, 'w', encoding='utf8') as output_file:", "with open(filename, 'w', newline='\\n') as output_file:", "TABLE-6"),
        M("writers told to stop before the shutdown handlers ran", "mpf/core/machine.py", "        self.is_shutting_down = True\n        self.log.info(\"Shutting down...\")", "        self.is_shutting_down = True\n        self.thread_stopper.set()\n        self.log.info(\"Shutting down...\")", "PAIR-18"),
        M("machine shut down before the shutdown handlers ran", "mpf/core/machine.py", "        self.events.process_event_queue()\n        self.shutdown()", "        self.shutdown()\n        self.events.process_event_queue()", "PAIR-18"),
        M("shutdown flush skipped while another manager writes", DM, "        if self._dirty.is_set():\n            while FileManager.is_busy:\n                time.sleep(0.2)\n            self._dirty.clear()\n            FileManager.save(self.filename, copy.deepcopy(self.data))", "        if self._dirty.is_set() and not FileManager.is_busy:\n            self._dirty.clear()\n            FileManager.save(self.filename, copy.deepcopy(self.data))", "DEAD-4"),
        M("configure_machine_var deadline from the loop clock", MV, "timeout = expire_secs + self.machine.clock.get_datetime().timestamp() if expire_secs else None", "timeout = expire_secs + self.machine.clock.get_time() if expire_secs else None", "FLOW-6"),
        M("writer failure handler can raise", DM, "                self.info_log(\"ERROR writing file %s: %s\", self.filename, e)", "                self.ignorable_runtime_exception(\"ERROR writing file {}: {}\".format(self.filename, e))", "DOM-30"),
        M("loaded sets come back as lists", YI, "        if isinstance(data, list):\n            return [YamlInterface.to_plain_dict(item) for item in data]", "        if isinstance(data, (list, tuple, set)):\n            return [YamlInterface.to_plain_dict(item) for item in data]", "TABLE-6"),
        M("stop during the start-up delay skips the flush", DM, "        time.sleep(self.min_wait_secs)\n        while not self.machine.thread_stopper.is_set():", "        if self.machine.thread_stopper.wait(self.min_wait_secs):\n            return\n        while not self.machine.thread_stopper.is_set():", "DEAD-4"),
        M("twin: interruptible waits without an early return", DM, "        time.sleep(self.min_wait_secs)\n        while not self.machine.thread_stopper.is_set():", "        self.machine.thread_stopper.wait(self.min_wait_secs)\n        while not self.machine.thread_stopper.is_set():", None),
        M("unchanged expiring variable not re-written", MV, "        elif self.machine_vars[name][\"expire_secs\"]:\n            self._write_machine_var_to_disk(name)\n", "", "FLOW-6"),
    ]


def thorough(chk):
    from sa.battery import run_battery
    run_battery(chk, battery())
