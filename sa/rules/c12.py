"""C12 — config validation (structural clauses).

TABLE-2  every config_spec.yaml entry uses an item type / validator token the validator implements, with
         (param) only on validators that consume it; enum defaults are members; machine(x) names a collection
DOM-23   numeric validators enforce their range on every value-returning path; the range helper raises on both bounds
DOM-24   unknown keys are rejected on every path (unless __allow_others__ / the permissive machine option)
OWN-14   the spec is never modified: build_spec deep-copies, own section overrides base, no stores into config_spec
DEAD-2 / TABLE-3  time suffix cascade: slice length = suffix length, no shadowed branch, SI multipliers
SIB-6    ms/secs sibling validators use the converter of their unit
"""
import ast

from sa.model import src, short, dotted, call_attr, kwarg, walk_local, AnalysisError, const_value
from sa import yamlmini
from sa.index import get_index

CV = "mpf/core/config_validator.py"
UT = "mpf/core/utility_functions.py"
UF = "mpf/core/utility_functions.py"
K = "ConfigValidator"
SI_MS = {"MS": 1, "MSEC": 1, "S": 1000, "SEC": 1000, "M": 60000, "H": 3600000, "D": 86400000}
ITEM_TYPES_EXPECTED = {"single", "list", "set", "dict", "event_handler"}


def _validator_table(repo):
    f = repo.func(CV, K + ".__init__")
    table = {}
    for n in walk_local(f.node):
        if isinstance(n, ast.Assign) and src(n.targets[0]) == "self.validator_list" and isinstance(n.value, ast.Dict):
            for k, v in zip(n.value.keys, n.value.values):
                if not isinstance(k, ast.Constant):
                    continue
                wrapped = False
                target = v
                if isinstance(v, ast.Call) and call_attr(v) == "_validate_type_or_token" and v.args:
                    wrapped = True
                    target = v.args[0]
                nm = target.attr if isinstance(target, ast.Attribute) else None
                table[k.value] = (nm, wrapped, k.lineno)
    if not table:
        raise AnalysisError("C12: validator_list literal vanished")
    return table


def _param_usage(func):
    """'none' (no param parameter), 'required', 'optional-used', 'optional-unused' (deleted / asserted falsy)."""
    a = func.node.args
    names = [x.arg for x in a.args + a.kwonlyargs]
    if "param" not in names:
        return "none"
    ndef = len(a.defaults)
    pos = [x.arg for x in a.args]
    has_default = "param" in pos[len(pos) - ndef:] if ndef else False
    unused = False
    for n in walk_local(func.node):
        if isinstance(n, ast.Delete) and any(src(t) == "param" for t in n.targets):
            unused = True
        if isinstance(n, ast.Assert) and src(n.test) == "not param":
            unused = True
    uses = [x for x in ast.walk(func.node) if isinstance(x, ast.Name) and x.id == "param" and isinstance(x.ctx, ast.Load)]
    if unused or not uses:
        return "optional-unused" if has_default else "required-unused"
    return "optional-used" if has_default else "required"


def check(chk):
    repo = chk.repo
    chk.explanation = ("C12: every entry of config_spec.yaml checked against the validator table and the validator "
                       "signatures; range enforcement and unknown-key rejection on all paths; spec immutability "
                       "(who-may-write + merge order in build_spec); time-suffix cascade and SI multipliers; "
                       "unit-sibling agreement. Type soundness of each validator over all YAML values is not decided.")
    cv = repo.cls(CV, K)
    table = _validator_table(repo)
    spec = yamlmini.load(repo.read_text("mpf/config_spec.yaml"), "mpf/config_spec.yaml")
    mpfc = yamlmini.load(repo.read_text("mpf/mpfconfig.yaml"), "mpf/mpfconfig.yaml", sections=("mpf",))
    collections = set(mpfc["mpf"]["device_modules"].keys())
    # collections created by core modules rather than device_modules (frozen, each confirmed by reading)
    EXTRA_COLLECTIONS = {"shows": "ShowController creates machine.shows", "show_queues": "device_modules of mpf-mc / show_queue device",
                         "hardware_sound_systems": "device collection", "modes": "ModeController"}
    collections |= set(EXTRA_COLLECTIONS)

    # ---------------------------------------------------------- TABLE-2
    # item types handled by validate_config_item
    f_item = repo.func(CV, K + ".validate_config_item")
    chk.analysed(f_item)
    handled = set()
    for x in ast.walk(f_item.node):
        if isinstance(x, ast.Compare) and src(x.left) == "item_type" and isinstance(x.ops[0], ast.Eq) \
                and isinstance(x.comparators[0], ast.Constant):
            handled.add(x.comparators[0].value)
    chk.expect(handled >= ITEM_TYPES_EXPECTED, "C12: item types handled by validate_config_item shrank: %s" % sorted(handled))
    funcs = {}
    for tok, (nm, wrapped, ln) in table.items():
        fn = cv.methods.get(nm) if nm else None
        chk.ob("TABLE-2", "validator token `%s` maps to an existing method" % tok, fn is not None, "%s:%s" % (CV, ln),
               detail="-> %s" % nm, construct=CV + "::validator_list", text="token %s -> %s" % (tok, nm))
        if fn is not None:
            funcs[tok] = (fn, wrapped, _param_usage(fn))
            chk.analysed(fn)
    n_entries = 0
    bad_entries = 0

    def token_ok(tok, where, path):
        base, _, rest = tok.partition("(")
        has_param = bool(rest)
        param = rest[:-1] if has_param and rest.endswith(")") else None
        if base not in funcs:
            return False, "validator `%s` is not in validator_list" % base
        fn, wrapped, usage = funcs[base]
        if has_param:
            if not tok.endswith(")"):
                return False, "unbalanced parameter in `%s`" % tok
            if usage in ("none",):
                return False, "`%s` is given a parameter but %s takes none (TypeError at validation time)" % (tok, fn.name)
            if usage in ("optional-unused", "required-unused"):
                return False, "`%s` is given a parameter that %s ignores (the declared restriction is not enforced)" % (tok, fn.name)
            if base == "enum" and not param:
                return False, "empty enum"
            if base == "machine" and param not in collections:
                return False, "machine(%s): no such device collection" % param
            if base == "subconfig":
                for s_ in param.split(","):
                    top = s_.split(":")[0]
                    if top not in spec:
                        return False, "subconfig(%s): no spec section `%s`" % (param, top)
            if base in ("int", "float", "num"):
                parts = param.split(",")
                if len(parts) != 2:
                    return False, "range parameter of `%s` must be `min,max`" % tok
                for p_ in parts:
                    if p_ != "NONE":
                        try:
                            float(p_)
                        except ValueError:
                            return False, "range bound %r of `%s` is not a number" % (p_, tok)
        else:
            if usage in ("required", "required-unused"):
                return False, "`%s` needs a parameter (%s has no default for it)" % (tok, fn.name)
            if wrapped is False and usage == "none":
                pass
        return True, ""

    def walk(m, path):
        nonlocal n_entries, bad_entries
        for k, v in m.items():
            if isinstance(v, dict):
                walk(v, path + [k])
                continue
            if str(k).startswith("__"):
                continue
            if v == "ignore":
                continue
            where = "mpf/config_spec.yaml:%s" % m.lines.get(k, 0)
            ident = "mpf/config_spec.yaml::" + ":".join(path + [k])
            parts = str(v).split("|")
            n_entries += 1
            if len(parts) != 3:
                bad_entries += 1
                chk.ob("TABLE-2", "spec entry %s has three fields" % ":".join(path + [k]), False, where, detail=str(v),
                       construct=ident, text="fields " + str(v))
                continue
            it, val, default = parts
            ok = it in handled
            why = "" if ok else "item type `%s` is not handled by validate_config_item" % it
            toks = val.split(":", 1) if it in ("dict", "event_handler") else [val]
            if ok and it in ("dict", "event_handler") and len(toks) != 2:
                ok, why = False, "dict validator needs `key:value`"
            if ok and it == "event_handler" and val != "event_handler:ms":
                ok, why = False, "event_handler entries must use event_handler:ms"
            if ok:
                for t in toks:
                    good, w = token_ok(t, where, path)
                    if not good:
                        ok, why = False, w
                        break
            if ok and toks[0].startswith("enum(") and it == "single":
                members = toks[0][5:-1].lower().split(",")
                d = default.lower()
                if default and d != "none" and d not in members:
                    ok, why = False, "default `%s` is not a member of %s" % (default, toks[0])
                if d == "none" and "none" not in members and default == "None":
                    pass        # None default = optional setting; validator returns None only if 'none' is a member -> checked at load time by mpf itself
            if not ok:
                bad_entries += 1
            chk.ob("TABLE-2", "spec entry %s: `%s`" % (":".join(path + [k]), v), ok, where, detail=why, construct=ident,
                   text="entry %s %s" % (k, v), nontrivial=True)
    walk(spec, [])
    chk.expect(n_entries >= 1500, "C12: fewer config_spec entries than confirmed by hand (%d)" % n_entries)
    chk.extra["spec_entries"] = n_entries
    # validate_item dispatch: param call form and plain form
    f = repo.func(CV, K + ".validate_item")
    chk.analysed(f)
    calls = [c for c in f.calls() if isinstance(c.func, ast.Subscript) and "validator_list" in src(c.func)]
    withp = [c for c in calls if kwarg(c, "param") is not None]
    without = [c for c in calls if kwarg(c, "param") is None]
    chk.ob("TABLE-2", "validate_item passes the (param) of the token to the validator", len(withp) == 1 and src(kwarg(withp[0], "param")) == "param"
           and src(withp[0].args[0]) == "item", f.where(), construct=f.ident, text="param dispatch")
    chk.ob("TABLE-2", "validate_item calls parameterless tokens without param", len(without) == 1 and src(without[0].args[0]) == "item", f.where(),
           construct=f.ident, text="plain dispatch")
    cfg = f.cfg()
    for c in without:
        n = [n for n in cfg.nodes if n.kind != "branch" and any(x is c for x in n.calls())][0]
        chk.ob("TABLE-2", "an unknown validator token is rejected, not skipped", cfg.guards_at(n.id).get("validator in self.validator_list") is True,
               f.where(c), construct=f.ident, text="unknown token guard")
    raises = [n for n in cfg.nodes_where(lambda n: n.kind == "stmt" and isinstance(n.ast, ast.Raise))]
    chk.ob("TABLE-2", "validate_item ends by raising for unknown tokens", bool(raises) and cfg.exit.id not in cfg.reachable(
        [b.id for b in cfg.nodes if b.kind == "branch" and src(b.ast) == "validator in self.validator_list" and b.value is False]),
        f.where(), construct=f.ident, text="unknown token raises")
    # 'none' string normalisation happens before dispatch
    chk.ob("TABLE-2", "the string 'None' is normalised to None before validation", any(
        isinstance(x, ast.Compare) and "item.lower()" in src(x.left) and src(x.comparators[0]) == "'none'" for x in ast.walk(f.node)),
        f.where(), construct=f.ident, text="none normalisation")

    # ---------------------------------------------------------- DOM-23
    rng = repo.func(CV, K + "._validate_range_min_smaller_max")
    chk.analysed(rng)
    cfg = rng.cfg()
    cmps = [b for b in cfg.nodes if b.kind == "branch" and b.value is True and isinstance(b.ast, ast.Compare) and "value" in src(b.ast.left)]
    lows = [b for b in cmps if isinstance(b.ast.ops[0], ast.Lt) and "param[0]" in src(b.ast)]
    highs = [b for b in cmps if isinstance(b.ast.ops[0], ast.Gt) and "param[1]" in src(b.ast)]
    for what, bs in (("lower", lows), ("upper", highs)):
        ok = bool(bs)
        for b in bs:
            reach = cfg.reachable([b.id])
            ok = ok and cfg.exit.id not in reach and any(n.kind == "stmt" and isinstance(n.ast, ast.Raise) for n in (cfg.nodes[i] for i in reach))
        chk.ob("DOM-23", "the range helper raises when the value is beyond the %s bound" % what, ok, rng.where(), construct=rng.ident,
               text="range %s bound" % what)
    for tok in ("int", "float", "num"):
        fn = funcs.get(tok, (None,))[0]
        chk.require(fn is not None, "C12: numeric validator %s vanished" % tok)
        cfg = fn.cfg()
        rc = [n.id for n, c in cfg.calls_named("_validate_range_min_smaller_max")]
        for r in cfg.nodes_where(lambda n: n.kind == "stmt" and isinstance(n.ast, ast.Return)):
            if r.ast.value is None or src(r.ast.value) == "None":
                continue
            w = cfg.path_avoiding(cfg.entry.id, [r.id], rc)
            chk.ob("DOM-23", "%s validator checks the declared range before returning a value" % tok, w is None and bool(rc), fn.where(r.ast),
                   path=cfg.fmt_path(w, CV) if w else None, construct=fn.ident, text="range check before return")
        for n, c in cfg.calls_named("_validate_range_min_smaller_max"):
            args = [src(a) for a in c.args]
            chk.ob("DOM-23", "%s validator hands (item, value, param) to the range helper" % tok, args[:3] == ["item", "value", "param"],
                   fn.where(c), detail=str(args), construct=fn.ident, text="range args")
        conv = {"int": "int", "float": "float"}.get(tok)
        if conv:
            ok = any(isinstance(x, ast.Assign) and isinstance(x.value, ast.Call) and call_attr(x.value) == conv and src(x.value.args[0]) == "item"
                     for x in walk_local(fn.node))
            chk.ob("DOM-23", "%s validator converts with %s()" % (tok, conv), ok, fn.where(), construct=fn.ident, text="conversion")
            ok = any(isinstance(x, ast.ExceptHandler) and x.type is not None and "ValueError" in src(x.type) and
                     any(isinstance(y, ast.Raise) for y in ast.walk(x)) for x in ast.walk(fn.node))
            chk.ob("DOM-23", "%s validator rejects unconvertible values" % tok, ok, fn.where(), construct=fn.ident, text="conversion error raises")
    chk.floor("DOM-23", 10)

    # ---------------------------------------------------------- DOM-24
    f = repo.func(CV, K + "._validate_config")
    chk.analysed(f)
    cfg = f.cfg()
    inv = [n.id for n, c in cfg.calls_named("check_for_invalid_sections")]
    allow = [b.id for b in cfg.nodes if b.kind == "branch" and "__allow_others__" in src(b.ast) and
             ((" not in " in src(b.ast) and b.value is False) or (" not in " not in src(b.ast) and b.value is True))]
    w = cfg.must_pass(cfg.entry.id, inv + allow)
    chk.ob("DOM-24", "every validation checks for unknown keys unless the spec allows others", bool(inv) and w is None, f.where(),
           path=cfg.fmt_path(w, CV) if w else None, construct=f.ident, text="unknown key check")
    for n, c in cfg.calls_named("check_for_invalid_sections"):
        args = [src(a) for a in c.args]
        chk.ob("DOM-24", "unknown-key check compares the source against the merged spec", args[:2] == ["this_spec", "source"], f.where(c),
               detail=str(args), construct=f.ident, text="unknown key args")
    g = repo.func(CV, K + ".check_for_invalid_sections")
    chk.analysed(g)
    cfg = g.cfg()
    raises = [n for n in cfg.nodes_where(lambda n: n.kind == "stmt" and isinstance(n.ast, ast.Raise) and "not a valid" in src(n.ast))]
    chk.ob("DOM-24", "an unknown key raises ConfigFileError", bool(raises), g.where(), construct=g.ident, text="unknown key raises")
    for n in raises:
        gd = cfg.guards_at(n.id)
        from sa.helpers import feasible_paths
        paths = feasible_paths(cfg, cfg.entry.id, [n.id])
        ok = gd.get("k not in spec") is True and bool(paths) and not any(
            "allow_invalid_config_sections" in k and v is True for _p, fx in paths for k, v in fx.items())
        # and the permissive side does not raise
        perm = [b for b in cfg.nodes if b.kind == "branch" and "allow_invalid_config_sections" in src(b.ast) and b.value is True]
        ok = ok and bool(perm) and all(n.id not in cfg.reachable([b.id], avoid=[h.id for h in cfg.nodes if h.kind == "loop"]) for b in perm)
        chk.ob("DOM-24", "the error is raised for keys missing from the spec unless the permissive machine option is set", ok, g.where(n.ast),
               detail="guards %s" % sorted(gd.items()), construct=g.ident, text="unknown key guards")
    loops = [h for h in cfg.nodes if h.kind == "loop"]
    chk.ob("DOM-24", "all keys of the source are examined", bool(loops) and src(loops[0].ast.iter) == "config", g.where(), construct=g.ident,
           text="loop over config")
    # sufficiency: *every* unknown key is rejected -- nothing but "is a plain key, not in the spec, not private" and the permissive option decide
    if loops:
        from sa.helpers import inloop_guards, positive
        from sa.cfg import canon_fact
        for n in raises:
            got = positive(inloop_guards(cfg, n.id, loops[0].id))
            perm = {(k, v) for k, v in got if "allow_invalid_config_sections" in k or k.replace('"', "'") == "'mpf' in self.machine.config"}
            want = {canon_fact(*x) for x in (("isinstance(k, dict)", False), ("k not in spec", True), ("k[0] != '_'", True))}
            chk.ob("DOM-24", "every key that is not in the spec (and is not private) is rejected - no further condition", positive(want) == got - perm,
                   g.where(n.ast), detail="selected by %s" % sorted(got - perm), construct=g.ident, text="unknown key rejected exactly")
    # ... every one of them: the only way out of the key loop is its end or the error
    for h in loops:
        for n in cfg.nodes_where(lambda n: n.kind == "stmt" and isinstance(n.ast, (ast.Return, ast.Break))):
            if any(x is n.ast for st in h.ast.body for x in ast.walk(st)):
                chk.ob("DOM-24", "the scan for unknown keys never stops early (a known key does not end it)", False, g.where(n.ast),
                       detail="`%s` inside the key loop: keys after this one are never looked at" % short(n.ast, 30), construct=g.ident,
                       text="early exit from the unknown-key scan")
        chk.ob("DOM-24", "the unknown-key scan runs to the end of the keys", True, g.where(h.ast), nontrivial=False)
    # a provided key is never dropped: every key of the spec present in source is validated and stored back
    f = repo.func(CV, K + "._validate_config")
    cfg = f.cfg()
    stores = [n for n in cfg.nodes_where(lambda n: n.kind == "stmt" and isinstance(n.ast, ast.Assign) and
                                         src(n.ast.targets[0]) == "processed_config[k]")]
    chk.ob("DOM-24", "validated values are stored under their own key", len(stores) >= 4, f.where(), construct=f.ident, text="stores")
    for n in stores:
        gd = cfg.guards_at(n.id)
        v = n.ast.value
        if gd.get("k in source") is True and isinstance(v, ast.Call) and call_attr(v) == "validate_config_item":
            ok = src(kwarg(v, "item")) == "source[k]" and src(v.args[0]) == "this_spec[k]"
            chk.ob("DOM-24", "a provided value is validated against the spec of its own key", ok, f.where(n.ast), construct=f.ident,
                   text="provided value validation")
        if gd.get("k in source") is False and isinstance(v, ast.Call) and call_attr(v) == "validate_config_item":
            ok = kwarg(v, "item") is None and src(v.args[0]) == "this_spec[k]" and gd.get("add_missing_keys") is True
            chk.ob("DOM-24", "a missing key gets the validated default of its own spec", ok, f.where(n.ast), construct=f.ident,
                   text="default fill")
    # ... and for *every* key of the spec: exactly the provided keys are validated, exactly the missing ones are defaulted; the only keys
    # left alone are `ignore` entries and private (`_`) keys; the loop covers all keys of the spec
    from sa.helpers import exact_selection
    kl = [h for h in cfg.nodes if h.kind == "loop" and isinstance(h.ast.target, ast.Name) and h.ast.target.id == "k"]
    if not kl:
        chk.missing("DOM-24", "_validate_config walks the keys of the spec", f)
    else:
        h = kl[0]
        chk.ob("DOM-24", "every key of the section's spec is looked at", src(h.ast.iter).replace(" ", "") in ("list(this_spec.keys())", "this_spec", "list(this_spec)", "this_spec.keys()")
               and not any(isinstance(y, (ast.Break, ast.Return)) for y in ast.walk(h.ast)), f.where(h.ast), detail=src(h.ast.iter), construct=f.ident, text="spec key loop")
        for n in stores:
            v = n.ast.value
            isd = "isinstance(this_spec[k], dict)"
            live = {("this_spec[k] == 'ignore'", False), ("k[0] == '_'", False)}
            if isinstance(v, ast.Call) and call_attr(v) == "validate_config_item" and kwarg(v, "item") is not None:
                exact_selection(chk, "DOM-24", "every provided scalar key is validated (no further condition)", f, cfg, n, h, live | {("k in source", True), (isd, False)},
                                text="provided scalar validated exactly")
            elif isinstance(v, ast.Call) and call_attr(v) == "validate_config_item":
                exact_selection(chk, "DOM-24", "every missing scalar key is defaulted when defaults are requested (no further condition)", f, cfg, n, h,
                                live | {("k in source", False), ("add_missing_keys", True), (isd, False)}, text="missing scalar defaulted exactly")
            elif src(v) == "final_list":
                exact_selection(chk, "DOM-24", "every provided list-of-dicts key is validated (no further condition)", f, cfg, n, h, live | {("k in source", True), (isd, True)},
                                text="provided sub-list validated exactly")
            elif src(v) in ("list()", "[]"):
                exact_selection(chk, "DOM-24", "every missing list-of-dicts key is defaulted to an empty list when defaults are requested", f, cfg, n, h,
                                live | {("k in source", False), ("add_missing_keys", True), (isd, True)}, text="missing sub-list defaulted exactly")
        skips = [x for x in cfg.nodes if x.kind == "stmt" and isinstance(x.ast, ast.Continue) and any(y is x.ast for y in ast.walk(h.ast))]
        for x in skips:
            t = [y for y in ast.walk(h.ast) if isinstance(y, ast.If) and any(z is x.ast for z in y.body)]
            ok = bool(t) and isinstance(t[0].test, ast.BoolOp) and isinstance(t[0].test.op, ast.Or) and \
                sorted(src(o).replace('"', "'") for o in t[0].test.values) == sorted(["this_spec[k] == 'ignore'", "k[0] == '_'"])
            chk.ob("DOM-24", "a key of the spec is left alone only if it is an `ignore` entry or private (`_...`)", ok, f.where(x.ast), construct=f.ident,
                   text="spec key skip condition")
    rets = [n for n in cfg.nodes_where(lambda n: n.kind == "stmt" and isinstance(n.ast, ast.Return))]
    chk.ob("DOM-24", "the processed config is returned", bool(rets) and all(src(r.ast.value) == "processed_config" for r in rets), f.where(),
           construct=f.ident, text="return processed")
    f = repo.func(CV, K + ".validate_config_item")
    cfg = f.cfg()
    # required settings: missing + no default -> raise
    rs = [n for n in cfg.nodes_where(lambda n: n.kind == "stmt" and isinstance(n.ast, ast.Raise) and "Required setting" in src(n.ast))]
    ok = bool(rs) and all(cfg.guards_at(n.id).get("item == 'item not in config!@#'") is True and
                          cfg.guards_at(n.id).get("default == 'default required!@#'") is True for n in rs)
    chk.ob("DOM-24", "a required setting that is missing is rejected", ok, f.where(), construct=f.ident, text="required setting")
    fall = [n for n in cfg.nodes_where(lambda n: n.kind == "stmt" and isinstance(n.ast, ast.Raise) and "Invalid Type" in src(n.ast))]
    chk.ob("DOM-24", "an unknown item type is rejected", bool(fall), f.where(), construct=f.ident, text="unknown item type raises")
    chk.floor("DOM-24", 9)

    # ---------------------------------------------------------- OWN-14
    f = repo.func(CV, K + ".build_spec")
    chk.analysed(f)
    cfg = f.cfg()
    dc = [n for n in cfg.nodes_where(lambda n: n.kind == "stmt" and isinstance(n.ast, ast.Assign) and isinstance(n.ast.value, ast.Call)
                                     and call_attr(n.ast.value) == "deepcopy")]
    ups = [(n, c) for n, c in cfg.calls_named("update")]
    chk.ob("OWN-14", "build_spec deep-copies each spec before merging", bool(dc), f.where(), detail="the shared spec would be polluted",
           construct=f.ident, text="deepcopy present")
    copies = {src(n.ast.targets[0]) for n in dc}
    for n, c in ups:
        recv = src(c.func.value)
        a = src(c.args[0]) if c.args else ""
        copied = recv in copies and any(cfg.dominates(d.id, n.id) for d in dc if src(d.ast.targets[0]) == recv)
        arg_copy = isinstance(c.args[0], ast.Call) and call_attr(c.args[0]) == "deepcopy" if c.args else False
        chk.ob("OWN-14", "update() mutates a private deep copy, never the shared spec", copied or (recv == "this_spec"), f.where(c),
               detail="receiver %s" % recv, construct=f.ident, text="update receiver " + recv)
        # precedence: the section's own declarations (accumulated first) override the base specs
        ok = copied and a == "this_spec" and not arg_copy
        chk.ob("OWN-14", "a section's own entries override those of its base specs (base.update(own))", ok, f.where(c),
               detail="`%s.update(%s)`: the base would override the section" % (recv, a) if not ok else "", construct=f.ident,
               text="merge order %s.update(%s)" % (recv, a))
    first = [x for x in walk_local(f.node) if isinstance(x, ast.Assign) and src(x.targets[0]) == "spec_list"]
    ok = bool(first) and isinstance(first[0].value, ast.List) and [src(e) for e in first[0].value.elts] == ["config_spec"]
    chk.ob("OWN-14", "the section itself is merged first, bases after", ok, f.where(), construct=f.ident, text="spec_list order")
    idx = get_index(repo)
    n_w = 0
    for u in idx.uses("config_spec"):
        if not (u.relpath == CV and u.cls == K):
            continue
        p = u.parent
        stored = u.store and u.scope != K + ".__init__"
        sub_store = isinstance(p, ast.Subscript) and isinstance(p.ctx, (ast.Store, ast.Del))
        mut = isinstance(p, ast.Attribute) and p.attr in ("update", "pop", "clear", "setdefault", "popitem")
        if u.recv_text != "self":
            continue
        n_w += 1
        if stored or sub_store or mut:
            chk.ob("OWN-14", "store into the shared config_spec in %s" % u.scope, u.scope == K + ".load_mode_config_spec", u.where(),
                   detail="only load_mode_config_spec may add (_mode_settings)", construct=u.ident, text="config_spec store " + short(p, 60))
    # nested stores: self.config_spec['x']['y'] = ...
    for m in cv.methods.values():
        for x in ast.walk(m.node):
            if isinstance(x, (ast.Assign, ast.AugAssign, ast.Delete)):
                tg = x.targets if isinstance(x, (ast.Assign, ast.Delete)) else [x.target]
                for t in tg:
                    if isinstance(t, ast.Subscript) and src(t).startswith("self.config_spec["):
                        chk.ob("OWN-14", "store into the shared config_spec in %s" % m.qualname, m.name == "load_mode_config_spec", m.where(x),
                               construct=m.ident, text="config_spec nested store " + short(t, 60))
                        if m.name == "load_mode_config_spec":
                            chk.ob("OWN-14", "mode settings go under _mode_settings only", "['_mode_settings']" in src(t), m.where(x),
                                   construct=m.ident, text="mode settings location")
    # the merged (cached) spec is read-only in its callers
    f = repo.func(CV, K + "._validate_config")
    for x in ast.walk(f.node):
        if isinstance(x, (ast.Assign, ast.AugAssign, ast.Delete)):
            tg = x.targets if isinstance(x, (ast.Assign, ast.Delete)) else [x.target]
            for t in tg:
                if isinstance(t, ast.Subscript) and src(t).startswith("this_spec"):
                    chk.ob("OWN-14", "the cached merged spec is not modified by validation", False, f.where(x), construct=f.ident,
                           text="this_spec store")
        if isinstance(x, ast.Call) and isinstance(x.func, ast.Attribute) and src(x.func.value).startswith("this_spec") and \
                x.func.attr in ("update", "pop", "clear", "setdefault", "popitem", "append", "remove"):
            chk.ob("OWN-14", "the cached merged spec is not modified by validation", False, f.where(x), construct=f.ident,
                   text="this_spec mutation " + x.func.attr)
    chk.ob("OWN-14", "validation only reads the merged spec", True, f.where(), nontrivial=False)
    chk.floor("OWN-14", 5)

    # ---------------------------------------------------------- DEAD-2 / TABLE-3
    f = repo.func(UF, "Util.string_to_ms")
    chk.analysed(f)
    cfg = f.cfg()
    seen = []
    n_br = 0
    for t in cfg.nodes:
        if t.kind != "test":
            continue
        x = t.ast
        if not (isinstance(x, ast.Call) and call_attr(x) == "endswith" and x.args and isinstance(x.args[0], ast.Constant)):
            continue
        suf = x.args[0].value
        n_br += 1
        # shadowing: an earlier suffix Y that every string ending in `suf` also ends with
        shadow = [y for y in seen if suf.endswith(y)]
        chk.ob("DEAD-2", "suffix branch %r is not shadowed by an earlier suffix" % suf, not shadow, f.where(x),
               detail="a string ending in %r already matched %r" % (suf, shadow[0]) if shadow else "", construct=f.ident,
               text="suffix %s shadowed" % suf)
        seen.append(suf)
        tb = [b for b in cfg.nodes if b.kind == "branch" and b.test == t.id and b.value is True]
        rets = []
        if tb:
            reach = cfg.reachable([tb[0].id], avoid=[tt.id for tt in cfg.nodes if tt.kind == "test" and tt.id != t.id and tt.id > t.id])
            rets = [cfg.nodes[i] for i in reach if cfg.nodes[i].kind == "stmt" and isinstance(cfg.nodes[i].ast, ast.Return)]
        for r in rets[:1]:
            sl = [y for y in ast.walk(r.ast) if isinstance(y, ast.Subscript) and isinstance(y.slice, ast.Slice) and y.slice.upper is not None]
            ln = -const_value(sl[0].slice.upper) if sl and const_value(sl[0].slice.upper) is not None else None
            # a branch reached by several suffixes (`a or b`) must strip the right amount for each
            chk.ob("DEAD-2", "branch for %r strips exactly len(%r) characters" % (suf, suf), ln == len(suf), f.where(r.ast),
                   detail="strips %s" % ln, construct=f.ident, text="strip %s for %s" % (ln, suf))
            # multiplier
            mult = 1
            for y in ast.walk(r.ast):
                if isinstance(y, ast.BinOp) and isinstance(y.op, ast.Mult):
                    cv_ = const_value(y.right)
                    if isinstance(cv_, (int, float)) and not isinstance(y.left, ast.Constant):
                        mult = mult * cv_ if mult != 1 or True else cv_
            # fold nested products: use the outermost constant product
            tot = _fold_mult(r.ast.value)
            chk.ob("TABLE-3", "suffix %r multiplies by %s ms" % (suf, SI_MS.get(suf)), suf in SI_MS and tot == SI_MS[suf], f.where(r.ast),
                   detail="multiplier %s" % tot, construct=f.ident, text="multiplier %s for %s" % (tot, suf))
            # value times unit, then rounded once: the int() is the outermost operation and every factor lies inside it (an int() around
            # part of the product truncates a fractional value to a coarser unit first: 0.01m -> 0 instead of 600)
            v_ = r.ast.value
            outer_int = isinstance(v_, ast.Call) and isinstance(v_.func, ast.Name) and v_.func.id == "int" and len(v_.args) == 1
            inner_ints = [y for y in ast.walk(v_.args[0]) if isinstance(y, ast.Call) and isinstance(y.func, ast.Name) and y.func.id in ("int", "round")] if outer_int else []
            chk.ob("TABLE-3", "suffix %r: the value is scaled to milliseconds first and converted to int once, last" % suf, outer_int and not inner_ints, f.where(r.ast),
                   detail=src(v_), construct=f.ident, text="rounding before scaling for %s" % suf)
    chk.expect(n_br >= 7, "C12: suffix branches of string_to_ms lost (%d)" % n_br)
    chk.ob("TABLE-3", "every accepted unit suffix has a branch", set(seen) >= set(SI_MS), f.where(), detail="branches: %s" % seen,
           construct=f.ident, text="suffix set")
    up = any(isinstance(x, ast.Call) and call_attr(x) == "upper" for x in ast.walk(f.node))
    chk.ob("TABLE-3", "suffix matching is case-insensitive (input upper-cased)", up, f.where(), construct=f.ident, text="upper")
    g = repo.func(UF, "Util.string_to_secs")
    chk.analysed(g)
    rets = [x for x in walk_local(g.node) if isinstance(x, ast.Return)]
    ok = len(rets) == 1 and isinstance(rets[0].value, ast.BinOp) and isinstance(rets[0].value.op, ast.Div) and \
        const_value(rets[0].value.right) == 1000 and call_attr(rets[0].value.left) == "string_to_ms"
    chk.ob("TABLE-3", "string_to_secs = string_to_ms / 1000", ok, g.where(), construct=g.ident, text="secs from ms")
    ok = any(isinstance(x, ast.Constant) and x.value == "s" for x in ast.walk(g.node)) and any(
        isinstance(x, ast.Call) and call_attr(x) == "isalpha" for x in ast.walk(g.node))
    chk.ob("TABLE-3", "a number without unit means seconds for secs-typed settings", ok, g.where(), construct=g.ident, text="default unit s")

    _or_token_wrapper(chk, repo, cv)
    _total_validators(chk, repo, cv)
    _list_helpers(chk, repo)
    _pass_through_and_patterns(chk, repo, cv)
    _time_string_parsers(chk, repo)

    # ---------------------------------------------------------- SIB-6
    for tok, conv in (("ms", "string_to_ms"), ("template_ms", "string_to_ms"), ("secs", "string_to_secs"), ("template_secs", "string_to_secs")):
        fn = funcs.get(tok, (None,))[0]
        chk.require(fn is not None, "C12: validator %s vanished" % tok)
        used = [call_attr(c) for c in fn.calls() if call_attr(c) in ("string_to_ms", "string_to_secs")]
        arith = [x for x in ast.walk(fn.node) if isinstance(x, ast.BinOp) and isinstance(x.op, (ast.Div, ast.Mult)) and
                 const_value(x.right) in (1000, 1000.0)]
        chk.ob("SIB-6", "`%s` values are converted with Util.%s (same rule as its sibling validator)" % (tok, conv),
               used == [conv] and not arith, fn.where(), detail="uses %s%s" % (used, " with manual scaling" if arith else ""),
               construct=fn.ident, text="%s uses %s" % (tok, ",".join(used)))
    for tok, builder in (("template_ms", "build_int_template"), ("template_secs", "build_float_template"),
                         ("template_int", "build_int_template"), ("template_float", "build_float_template"),
                         ("template_bool", "build_bool_template")):
        fn = funcs.get(tok, (None,))[0]
        used = [call_attr(c) for c in fn.calls() if (call_attr(c) or "").startswith("build_")]
        chk.ob("SIB-6", "`%s` builds a %s" % (tok, builder), used == [builder], fn.where(), detail=str(used), construct=fn.ident,
               text="%s builder %s" % (tok, ",".join(used)))
    for alias, same in (("boolean", "bool"), ("event_posted", "str"), ("event_handler", "str")):
        chk.ob("SIB-6", "token `%s` is an alias of `%s`" % (alias, same), table.get(alias, (None,))[0] == table.get(same, (0,))[0],
               "%s:%s" % (CV, table.get(alias, (0, 0, 0))[2]), construct=CV + "::validator_list", text="alias %s" % alias)
    for tok in [t for t in table if t.endswith("_or_token")]:
        base = tok[:-len("_or_token")]
        chk.ob("SIB-6", "`%s` wraps the validator of `%s`" % (tok, base), table[tok][1] is True and table[tok][0] == table.get(base, (None,))[0],
               "%s:%s" % (CV, table[tok][2]), construct=CV + "::validator_list", text="wrapper %s" % tok)


def _or_token_wrapper(chk, repo, cv):
    """SIB-6 (wrapper): `X_or_token` validates a plain value exactly like `X`: the wrapper calls the wrapped validator with the item, the failure
    info *and the spec's parameter* (the range of int(min,max) / float(min,max)), on every path that is not a token; a token keeps the
    wrapped validator itself for its later replacement."""
    w = cv.methods.get("_validate_type_or_token")
    chk.need(w is not None, "SIB-6", "ConfigValidator has the or_token wrapper", repo.func(CV, "ConfigValidator.validate_config_item"))
    chk.analysed(w)
    inner = [x for x in ast.walk(w.node) if isinstance(x, ast.FunctionDef) and x is not w.node]
    chk.need(len(inner) == 1, "SIB-6", "the or_token wrapper defines the wrapping validator", w)
    from sa.cfg import build_cfg
    icfg = build_cfg(inner[0])
    wrapped = w.node.args.args[-1].arg if w.node.args.args else "func"
    ps = [a.arg for a in inner[0].args.args]
    direct = [(n, c) for n in icfg.nodes if n.kind == "stmt" for c in n.calls() if isinstance(c.func, ast.Name) and c.func.id == wrapped]
    ok = bool(direct) and all([src(a) for a in c.args] + [k.arg + "=" + src(k.value) for k in c.keywords if k.arg] in (ps, ps[:2] + ["param=" + ps[2]]) for n, c in direct if len(ps) == 3)
    chk.ob("SIB-6", "the or_token wrapper validates a plain value with the wrapped validator, handing on item, failure info and the spec's parameter", ok and len(ps) == 3,
           w.where(direct[0][1]) if direct else w.where(), detail="calls: %s" % [src(c) for n, c in direct], construct=w.ident, text="or_token direct call")
    toks = [(n, c) for n in icfg.nodes if n.kind == "stmt" for c in n.calls() if call_attr(c) == "RuntimeToken"]
    ok = bool(toks) and all(len(c.args) == 2 and (src(c.args[1]) == wrapped or ("partial(" in src(c.args[1]) and wrapped in src(c.args[1]))) for n, c in toks)
    chk.ob("SIB-6", "a runtime token keeps the wrapped validator for its replacement", ok, w.where(), construct=w.ident, text="or_token token branch")
    via = [n.id for n, c in direct] + [n.id for n, c in toks]
    pth = icfg.must_pass(icfg.entry.id, via) if via else [icfg.entry.id]
    chk.ob("SIB-6", "every path of the wrapper validates or defers (token)", pth is None, w.where(), construct=w.ident, text="or_token total")


def _total_validators(chk, repo, cv):
    """TOTAL-12: a validator never falls off its end, and answers None only for an absent value -- every other path returns a
    converted value or raises (so a deleted `raise` in an error branch cannot turn into a silently accepted None)."""
    n = 0
    for name, f in sorted(cv.methods.items()):
        if not (name.startswith("_validate_type_") or name in ("validate_config_item", "validate_item", "_validate_config", "validate_config",
                                                                  "_validate_dict", "_validate_dict_or_omap")):
            continue
        chk.analysed(f)
        cfg = f.cfg()
        preds = [cfg.nodes[p_] for p_ in cfg.nodes[cfg.exit.id].pred]
        imp = [p_ for p_ in preds if not (p_.kind == "stmt" and isinstance(p_.ast, ast.Return))]
        n += 1
        chk.ob("TOTAL-12", "%s never falls off its end (every path returns or raises)" % name, not imp, f.where(),
               detail="implicit `return None` after line(s) %s: an input that should have been rejected is accepted as None" % [p_.lineno for p_ in imp],
               construct=f.ident, text="implicit return in " + name)
        if not name.startswith("_validate_type_"):
            continue
        for r in [p_ for p_ in preds if p_.kind == "stmt" and isinstance(p_.ast, ast.Return)]:
            v = r.ast.value
            if v is None or (isinstance(v, ast.Constant) and v.value is None):
                g = cfg.guards_at(r.id)
                ok = g.get("item is None") is True or g.get("item is not None") is False or g.get("item") is False or g.get("not item") is True
                chk.ob("TOTAL-12", "%s answers None only for an absent value" % name, ok, f.where(r.ast), detail="guards %s" % sorted(g.items()),
                       construct=f.ident, text="None result in " + name)
    chk.floor("TOTAL-12", 30)
    # MEMBER-12: a validator that checks membership returns the very value it checked (or a literal member) -- a value that
    # was normalised for the test only (lower-cased, stripped, converted) and returned raw is outside the declared set
    n_m = 0
    for name, f in sorted(cv.methods.items()):
        if not name.startswith("_validate_type_"):
            continue
        cfg = f.cfg()
        for r in [x for x in cfg.nodes if x.kind == "stmt" and isinstance(x.ast, ast.Return) and x.ast.value is not None]:
            g = cfg.guards_at(r.id)
            mem = [(k, v) for k, v in g.items() if v is True and " in " in k and " not in " not in k]
            if not mem:
                continue
            v = r.ast.value
            for k, _ in mem:
                try:
                    t = ast.parse(k, mode="eval").body
                except SyntaxError:
                    continue
                if not (isinstance(t, ast.Compare) and len(t.ops) == 1 and isinstance(t.ops[0], ast.In)):
                    continue
                tested, coll = t.left, t.comparators[0]
                # only memberships in the *declared* value set: a collection computed from the validator's `param`
                if not isinstance(coll, ast.Name):
                    continue
                defs = [a for a in ast.walk(f.node) if isinstance(a, ast.Assign) and any(src(t_) == coll.id for t_ in a.targets)]
                if not defs or not all(any(isinstance(y, ast.Name) and y.id == "param" for y in ast.walk(a.value)) for a in defs):
                    continue
                n_m += 1
                if isinstance(tested, ast.Constant):
                    ok = isinstance(v, ast.Constant) and (v.value == tested.value or (v.value is None and str(tested.value).lower() == "none"))
                else:
                    ok = src(v) == src(tested) or src(v) == "%s[%s]" % (src(coll), src(tested))     # the member itself, or the entry it names
                chk.ob("MEMBER-12", "%s returns the value whose membership in `%s` it checked" % (name, src(coll)), ok, f.where(r.ast),
                       detail="tested `%s`, returns `%s`" % (src(tested), src(v)), construct=f.ident, text="%s returns %s after testing %s" % (name, src(v), src(tested)))
    chk.ob("MEMBER-12", "membership-checked results examined", n_m >= 4, cv.methods["_validate_type_enum"].where(), detail="%d" % n_m, nontrivial=False)
    # sibling agreement of the template validators: the raw item's type is asserted before a template is built from it
    for name, f in sorted(cv.methods.items()):
        if not name.startswith("_validate_type_template_") or name.endswith("_str"):
            continue
        cfg = f.cfg()
        builds = [n_ for n_, c in cfg.calls_named("build_int_template", "build_float_template", "build_bool_template", "build_raw_template")]
        guards = [n_.id for n_, c in cfg.calls_named("_assert_int_float_template") if c.args and src(c.args[0]) == "item"] + \
                 [b.id for b in cfg.nodes if b.kind == "branch" and "isinstance(item," in src(b.ast).replace(" ", "").replace("item,(", "item,(")]
        for b_ in builds:
            w = cfg.path_avoiding(cfg.entry.id, [b_.id], guards, ignore_exc=True)
            chk.ob("SIB-6", "%s asserts the type of the raw value before building the template (like its siblings)" % name, bool(guards) and w is None,
                   f.where(b_.ast), path=cfg.fmt_path(w, CV) if w else None, construct=f.ident, text="template built from unchecked value in " + name)
    # what the shared guard admits: a validator that builds an *int* template passes the raw value on unconverted, and the int template truncates a
    # number it is given (int(value)).  So the guard in front of an int template admits no float: 2.7 balls must be refused, not become 2.
    ga = cv.methods.get("_assert_int_float_template")
    chk.need(ga is not None, "SIB-6", "the shared raw-type guard of the numeric template validators exists", cv.methods["_validate_type_template_int"])
    chk.analysed(ga)
    iso = [c for c in ga.calls() if isinstance(c.func, ast.Name) and c.func.id == "isinstance" and len(c.args) == 2 and src(c.args[0]) == "item"]
    types = set()
    for c in iso:
        t = c.args[1]
        types |= {src(e) for e in (t.elts if isinstance(t, ast.Tuple) else [t])}
    int_users = [n for n, f in sorted(cv.methods.items()) if n.startswith("_validate_type_template_")
                 and any(call_attr(c) == "build_int_template" for c in f.calls()) and any(call_attr(c) == "_assert_int_float_template" for c in f.calls())]
    chk.ob("SIB-6", "the raw-type guard in front of the int-valued templates (%s) admits text and whole numbers only" % ", ".join(x[15:] for x in int_users),
           bool(iso) and bool(int_users) and types <= {"str", "int"}, ga.where(), detail="admits %s: a float would reach build_int_template and be truncated"
           % sorted(types), construct=ga.ident, text="raw types admitted before int templates")
    # a section that is present must be a mapping: only an absent section (None) is replaced by an empty one
    vc = cv.methods["validate_config"]
    chk.analysed(vc)
    from sa.cfg import canon_fact as _cf, canon_set as _cs12
    from sa.helpers import positive as _pos12
    vcfg = vc.cfg()
    repl = [n for n in vcfg.nodes if n.kind == "stmt" and isinstance(n.ast, ast.Assign) and src(n.ast.targets[0]) == "source"]
    gsets = [_pos12(set(_cs12(vcfg.guards_at(n.id)))) for n in repl]
    ok = len(repl) == 1 and gsets[0] == {_cf("source is None", True)}
    chk.ob("SIB-6", "validate_config replaces the section by an empty one exactly when it is absent (None); every other non-mapping is rejected", ok,
           vc.where(repl[0].ast if repl else None), detail="replaced under %s" % [sorted(g) for g in gsets], construct=vc.ident,
           text="absent section default")
    # `str` settings turn a scalar into text; a container given for one is a mistake of structure (wrong indentation) and is refused, mappings
    # as well as lists: str(item) of either would "validate" to its repr
    vs = cv.methods["_validate_type_str"]
    chk.analysed(vs)
    scfg = vs.cfg()
    rej = set()
    for n in scfg.nodes:
        if n.kind == "stmt" and isinstance(n.ast, ast.Raise):
            for k, v in scfg.guards_at(n.id).items():
                if v is True and k.replace(" ", "").startswith("isinstance(item,"):
                    t = ast.parse(k, mode="eval").body.args[1]
                    rej |= {src(e) for e in (t.elts if isinstance(t, ast.Tuple) else [t])}
    chk.ob("SIB-6", "the str validator refuses both kinds of container, list and dict, before it stringifies", {"list", "dict"} <= rej, vs.where(),
           detail="refuses %s" % sorted(rej), construct=vs.ident, text="containers refused by str")
    # YAML turns a bare yes / no into a boolean: the enum validator maps it back only for an enum that lists that word, and only that boolean
    ve = cv.methods["_validate_type_enum"]
    chk.analysed(ve)
    ecfg = ve.cfg()
    from sa.cfg import canon_fact as _cfe, canon_set as _cse
    for word, const in (("yes", "True"), ("no", "False")):
        rets = [n for n in ecfg.nodes if n.kind == "stmt" and isinstance(n.ast, ast.Return) and const_value(n.ast.value) == word]
        want = {_cfe("item is %s" % const, True), _cfe("'%s' in enum_values" % word, True)}
        ok = len(rets) == 1 and want <= set(_cse(ecfg.guards_at(rets[0].id)))
        chk.ob("SIB-6", "the enum validator answers '%s' only for the boolean %s and only when the enum lists '%s'" % (word, const, word), ok,
               ve.where(rets[0].ast if rets else None), detail="under %s" % (sorted(ecfg.guards_at(rets[0].id).items()) if rets else "?"), construct=ve.ident,
               text="enum boolean fallback " + word)


def _pass_through_and_patterns(chk, repo, cv):
    """PASS-12: a validator hands the given value back unconverted (`return item`) only for a value it has *typed*: under an
    isinstance(item, T) test or a predicate call on the item (Util.is_power2(item)).  A comparison (`item in (True, False)`,
    `item == 0`) is not a type test: 1 == True, 0.0 == False.
    REGEX-12: text recognisers used by validators test the whole string (fullmatch, or a pattern anchored at its end): `match` accepts
    any text that merely starts well (a colour `ffffff-f2s`)."""
    n = 0
    for name, m in sorted(cv.methods.items()):
        if not name.startswith("_validate_type_"):
            continue
        cfg = None
        for r in walk_local(m.node):
            if not (isinstance(r, ast.Return) and r.value is not None and src(r.value) == "item"):
                continue
            cfg = cfg or m.cfg()
            node = [q for q in cfg.nodes if q.kind == "stmt" and q.ast is r]
            if not node:
                continue
            n += 1
            chk.analysed(m)
            typed = False
            for k, v in cfg.guards_at(node[0].id).items():
                if v is not True:
                    continue
                try:
                    e = ast.parse(k, mode="eval").body
                except SyntaxError:
                    continue
                if isinstance(e, ast.Call) and any(isinstance(a, ast.Name) and a.id == "item" for a in e.args):
                    typed = True
            chk.ob("PASS-12", "%s returns the given value unconverted only when a type test / predicate on it held" % name, typed, m.where(r),
                   detail="guards %s" % sorted(cfg.guards_at(node[0].id).items())[:4], construct=m.ident, text="untyped pass-through in " + name)
    chk.ob("PASS-12", "pass-through returns examined (%d)" % n, n >= 4, cv.methods["_validate_type_bool"].where(), nontrivial=False)
    n_p = 0
    for rel in ("mpf/core/utility_functions.py", "mpf/core/config_validator.py", "mpf/core/rgb_color.py"):
        mod = repo.mod(rel)
        pats = {}
        for x in ast.walk(mod.tree):
            if isinstance(x, ast.Assign) and isinstance(x.value, ast.Call) and call_attr(x.value) == "compile" and x.value.args and isinstance(x.value.args[0], ast.Constant):
                for t in x.targets:
                    pats[src(t).split(".")[-1]] = x.value.args[0].value
        for fn in mod.all_funcs():
            for c in fn.calls():
                if call_attr(c) not in ("match", "search", "fullmatch") or not isinstance(c.func, ast.Attribute):
                    continue
                recv = src(c.func.value).split(".")[-1]
                if recv == "re":
                    pat = c.args[0].value if c.args and isinstance(c.args[0], ast.Constant) else None
                elif recv in pats:
                    pat = pats[recv]
                else:
                    continue
                n_p += 1
                chk.analysed(fn)
                ok = call_attr(c) == "fullmatch" or (isinstance(pat, str) and (pat.endswith("$") or pat.endswith("\\Z")) and (call_attr(c) == "match" or pat.startswith("^")))
                chk.ob("REGEX-12", "%s recognises a text by matching all of it" % fn.qualname, ok, fn.where(c), detail="%s(%r)" % (call_attr(c), pat), construct=fn.ident,
                       text="partial pattern test in " + fn.name)
    chk.ob("REGEX-12", "pattern tests examined (%d)" % n_p, n_p >= 1, "mpf/core/utility_functions.py:1", nontrivial=False)
    # a text recognised by one pattern and cut up by another: the cutter knows every character the recogniser lets through (a hex colour is
    # recognised by [a-fA-F0-9]; the cutter [0-9a-f]{2} sees all of it only because the text was lower-cased first)
    import re as _re

    def _alphabet(pat):
        out = set()

        def rec(p_):
            for op, av in p_:
                nm = str(op)
                if nm == "IN":
                    for k, v in av:
                        if str(k) == "RANGE":
                            out.update(chr(i) for i in range(v[0], v[1] + 1))
                        elif str(k) == "LITERAL":
                            out.add(chr(v))
                elif nm == "LITERAL":
                    out.add(chr(av))
                elif nm in ("MAX_REPEAT", "MIN_REPEAT"):
                    rec(av[2])
                elif nm == "SUBPATTERN":
                    rec(av[3])
                elif nm == "BRANCH":
                    for b_ in av[1]:
                        rec(b_)
        rec(_re._parser.parse(pat))
        return out
    hexpat = None
    for x in ast.walk(repo.mod(UF).tree):
        if isinstance(x, ast.Assign) and src(x.targets[0]).endswith("hex_matcher") and isinstance(x.value, ast.Call) and x.value.args and \
                isinstance(x.value.args[0], ast.Constant):
            hexpat = x.value.args[0].value
    chk.expect(hexpat is not None, "C12: Util.hex_matcher pattern not found")
    n_cut = 0
    for name, m in sorted(cv.methods.items()):
        mc = None
        for c in m.calls():
            if not (call_attr(c) in ("split", "findall") and dotted(c.func.value) == "re" and len(c.args) >= 2 and isinstance(c.args[0], ast.Constant) and
                    isinstance(c.args[1], ast.Name)):
                continue
            mc = mc or m.cfg()
            node = [n_ for n_ in mc.nodes if n_.kind in ("stmt", "test") and any(y is c for y in n_.walk())]
            if not node or hexpat is None:
                continue
            g = mc.guards_at(node[0].id)
            subj = c.args[1].id
            if g.get("Util.is_hex_string(%s)" % subj) is not True:
                continue
            n_cut += 1
            defs = [x for x in walk_local(m.node) if isinstance(x, ast.Assign) and any(isinstance(t, ast.Name) and t.id == subj for t in x.targets)]
            lowered = bool(defs) and all(isinstance(d.value, ast.Call) and call_attr(d.value) == "lower" for d in defs)
            uppered = bool(defs) and all(isinstance(d.value, ast.Call) and call_attr(d.value) == "upper" for d in defs)
            accepted = _alphabet(hexpat)
            if lowered:
                accepted = {ch.lower() for ch in accepted}
            elif uppered:
                accepted = {ch.upper() for ch in accepted}
            cut = _alphabet(c.args[0].value)
            miss = sorted(accepted - cut)
            chk.ob("REGEX-12", "%s cuts a recognised hex text with a pattern that knows every character the recogniser accepts" % name, not miss, m.where(c),
                   detail="accepted by the recogniser but unknown to %r: %s" % (c.args[0].value, "".join(miss)), construct=m.ident,
                   text="hex cutter alphabet in " + name)
    chk.ob("REGEX-12", "recogniser / cutter pairs examined (%d)" % n_cut, n_cut >= 1, CV + ":1", nontrivial=False)
    # the event-list splitter keeps `event{condition}` whole - one condition at a time: the brace group of its pattern is lazy (`{.*?}`) or excludes
    # the closing brace; a greedy `{.*}` runs from the first `{` to the last `}` and swallows every entry in between
    sel = repo.func(UF, "Util.string_to_event_list")
    chk.analysed(sel)
    pats_ = [c for c in sel.calls() if call_attr(c) in ("findall", "split", "finditer") and dotted(c.func.value) == "re" and c.args and isinstance(c.args[0], ast.Constant)
             and "{" in str(c.args[0].value)]
    chk.need(pats_, "REGEX-12", "string_to_event_list splits around brace groups with a pattern", sel)

    def _greedy_brace(p_):
        bad = []

        def rec(seq):
            items = list(seq)
            for i_, (op, av) in enumerate(items):
                nm = str(op)
                if nm == "MAX_REPEAT" and i_ > 0 and str(items[i_ - 1][0]) == "LITERAL" and items[i_ - 1][1] == ord("{"):
                    inner = list(av[2])
                    if len(inner) == 1 and str(inner[0][0]) == "ANY":
                        bad.append("greedy `.` repeat after `{`")
                if nm in ("MAX_REPEAT", "MIN_REPEAT"):
                    rec(av[2])
                elif nm == "SUBPATTERN":
                    rec(av[3])
                elif nm == "BRANCH":
                    for b_ in av[1]:
                        rec(b_)
        rec(_re._parser.parse(p_))
        return bad
    for c in pats_:
        bad = _greedy_brace(c.args[0].value)
        chk.ob("REGEX-12", "the brace group of the event-list pattern ends at the first closing brace", not bad, sel.where(c), detail="%r: %s" % (c.args[0].value, bad),
               construct=sel.ident, text="event list brace group")
    # dict|k:v : only a mapping (or nothing) is a dict: every path of _validate_dict that reaches the key/value loop for item_type "dict" has
    # tested isinstance(item, dict); a string or list is refused, not split into keys (that is the event_handler form)
    from sa.helpers import feasible_paths
    vd = cv.methods["_validate_dict"]
    chk.analysed(vd)
    dcfg = vd.cfg()
    loops_ = [h for h in dcfg.nodes if h.kind == "loop" and "item.items()" in src(h.ast.iter)]
    chk.need(len(loops_) == 1, "DICT-12", "_validate_dict validates key by key", vd)
    bad = []
    for pth, fx in feasible_paths(dcfg, dcfg.entry.id, [loops_[0].id]):
        is_dict_type = fx.get("item_type == 'event_handler'") is not True and fx.get("item_type == 'dict'") is not False
        if is_dict_type and fx.get("isinstance(item, dict)") is not True and fx.get("not isinstance(item, dict)") is not False:
            bad.append(pth)
    chk.ob("DICT-12", "a `dict` setting reaches the key/value validation only as a mapping (anything else was refused)", not bad, vd.where(loops_[0].ast),
           path=dcfg.fmt_path(bad[0], CV) if bad else None, construct=vd.ident, text="dict validator accepts non-mappings")
    conv = [n for n, c in dcfg.calls_named("event_config_to_dict")]
    ok = len(conv) == 1 and dcfg.guards_at(conv[0].id).get("item_type == 'event_handler'") is True
    chk.ob("DICT-12", "the event-list form (str / list to dict) is applied to event_handler settings only", ok, vd.where(), construct=vd.ident, text="event form scope")
    # a colour is three components: every return of the colour validator is a 3-tuple expression, the given tuple after its length test, a
    # named colour or the hex conversion (a comprehension over the comma list has whatever length the list has)
    vc = cv.methods["_validate_type_color"]
    chk.analysed(vc)
    ccfg = vc.cfg()
    for r in [n for n in ccfg.nodes if n.kind == "stmt" and isinstance(n.ast, ast.Return) and n.ast.value is not None]:
        v = r.ast.value
        g = ccfg.guards_at(r.id)
        ok = (isinstance(v, ast.Tuple) and len(v.elts) == 3) or \
             (src(v) == "item" and g.get("isinstance(item, tuple)") is True and (g.get("len(item) != 3") is False or g.get("len(item) == 3") is True)) or \
             (isinstance(v, ast.Subscript) and src(v.value) == "NAMED_RGB_COLORS") or (isinstance(v, ast.Call) and call_attr(v) == "hex_to_rgb")
        chk.ob("DICT-12", "the colour validator returns exactly three components on every path", ok, vc.where(r.ast), detail=src(v), construct=vc.ident,
               text="colour arity " + short(v, 40))
    # event lists are split by the splitter that keeps `event{condition}` in one piece
    ecd = repo.func(UF, "Util.event_config_to_dict")
    chk.analysed(ecd)
    sp = [c for c in ecd.calls() if (call_attr(c) or "").startswith("string_to_")]
    chk.ob("DICT-12", "an event_handler setting given as a string is split by string_to_event_list (conditions with commas / spaces stay whole)",
           len(sp) == 1 and call_attr(sp[0]) == "string_to_event_list", ecd.where(), detail=str([call_attr(c) for c in sp]), construct=ecd.ident,
           text="event list splitter")
    # pow2: positive powers of two only
    p2 = repo.func(UF, "Util.is_power2")
    chk.analysed(p2)
    rets = [x for x in walk_local(p2.node) if isinstance(x, ast.Return) and x.value is not None and not isinstance(x.value, ast.Constant)]
    ok = len(rets) == 1
    if ok:
        t = src(rets[0].value).replace(" ", "")
        ok = ("num&(num-1)" in t or "num&num-1" in t) and ("num!=0" in t or "num>0" in t or "0!=num" in t or "0<num" in t)
    chk.ob("DICT-12", "is_power2 is the bit test n & (n-1) == 0 on a non-zero number (a popcount of the printed form would accept negatives)", ok, p2.where(),
           detail=src(rets[0].value) if rets else "", construct=p2.ident, text="power of two test")


def _list_helpers(chk, repo):
    """LIST-12: the list helpers answer the empty list only for an absent value (None / the empty string) -- a bare
    truthiness test would also swallow 0, 0.0 and False, i.e. silently drop a provided value."""
    for name in ("string_to_list", "string_to_event_list", "string_to_lowercase_list", "string_to_set"):
        f = repo.try_func(UT, "Util." + name)
        if f is None:
            continue
        chk.analysed(f)
        cfg = f.cfg()
        params = [p_ for p_ in f.params() if p_ not in ("self", "cls")]
        if not params:
            continue
        p0 = params[0]
        for r in cfg.nodes_where(lambda n: n.kind == "stmt" and isinstance(n.ast, ast.Return) and n.ast.value is not None):
            v = r.ast.value
            empty = (isinstance(v, (ast.List, ast.Tuple, ast.Set)) and not v.elts) or (isinstance(v, ast.Call) and dotted(v.func) in ("list", "set") and not v.args)
            if not empty:
                continue
            g = cfg.guards_at(r.id)
            absent = g.get("%s is None" % p0) is True or g.get("%s == ''" % p0) is True or g.get('%s == ""' % p0) is True
            chk.ob("LIST-12", "Util.%s answers an empty list only for None / the empty string" % name, absent, f.where(r.ast),
                   detail="guards %s: a truthiness test also swallows 0 and False" % sorted(g.items()), construct=f.ident,
                   text="empty result guard in " + name)
        nums = [r for r in cfg.nodes_where(lambda n: n.kind == "stmt" and isinstance(n.ast, ast.Return) and isinstance(n.ast.value, ast.List)
                                          and len(n.ast.value.elts) == 1 and src(n.ast.value.elts[0]) == p0)]
        for r in nums:
            g = cfg.guards_at(r.id)
            chk.ob("LIST-12", "Util.%s wraps a single number into a one-element list" % name, any("isinstance(%s" % p0 in k and v_ is True for k, v_ in g.items()),
                   f.where(r.ast), construct=f.ident, text="number wrapped in " + name)
    chk.floor("LIST-12", 3)


def _fold_mult(e):
    """Product of the numeric constants multiplied onto the parsed number in a return expression."""
    tot = 1

    def rec(x):
        nonlocal tot
        if isinstance(x, ast.BinOp) and isinstance(x.op, ast.Mult):
            for side in (x.left, x.right):
                c = const_value(side)
                if isinstance(c, (int, float)) and isinstance(side, (ast.Constant, ast.BinOp)) and not _has_name(side):
                    tot *= c
                else:
                    rec(side)
        elif isinstance(x, ast.Call):
            for a in x.args:
                rec(a)
    rec(e)
    return tot


def _has_name(e):
    return any(isinstance(x, (ast.Name, ast.Attribute, ast.Subscript, ast.Call)) for x in ast.walk(e))


def _time_string_parsers(chk, repo):
    """TABLE-3 (use sites): wherever the repository parses a time string, the parser of the unit it needs is used directly; the result
    is never rescaled by 1000 (the two parsers differ in what a bare number means)."""
    from sa.helpers import rescaled_time_strings
    bad, n = rescaled_time_strings(repo)
    for f, x, t in bad:
        chk.ob("TABLE-3", "a time string is parsed by the parser of the unit it is used in, never parsed in the other unit and rescaled", False, f.where(x),
               detail="`%s`: a bare number changes its unit" % t, construct=f.ident, text="rescaled time string " + t)
    chk.ob("TABLE-3", "time-string parser calls of the repository examined (%d)" % n, not bad and n >= 12, "mpf:1", nontrivial=False)


def battery():
    from sa.battery import M
    Y = "mpf/config_spec.yaml"
    return [
        M("event list brace group made greedy", UF, "r'([\\w|-]+?\\{.*?\\}|[\\w|-]+)'", "r'([\\w|-]+?\\{.*\\}|[\\w|-]+)'", "REGEX-12"),
        M("or_token validators drop the spec's range", CV, "            return func(item, validation_failure_info, param)", "            return func(item, validation_failure_info)", "SIB-6"),
        M("merged specs cached on the class", CV, "    @lru_cache(1024)\n    def build_spec(self, config_spec, base_spec):\n        \"\"\"Build config spec out of two or more specs.\"\"\"\n", "    _built = {}\n\n    def build_spec(self, config_spec, base_spec):\n        \"\"\"Build config spec out of two or more specs.\"\"\"\n        if (config_spec, base_spec) in self._built:\n            return self._built[(config_spec, base_spec)]\n        self._built[(config_spec, base_spec)] = {}\n", "SHARED-0"),
        M("spec uses unknown validator", Y, "    level_x: single|int|0", "    level_x: single|integer|0", "TABLE-2"),
        M("spec gives param to bool", Y, "    disable_random: single|bool|false", "    disable_random: single|bool(0,1)|false", "TABLE-2"),
        M("spec enum default not a member", Y, "single|enum(", "single|enum(zzz_only_this,", None, nth=0),   # adding a member is harmless (twin)
        M("spec unknown item type", Y, "    level_y: single|int|0", "    level_y: scalar|int|0", "TABLE-2"),
        M("spec machine() of unknown collection", Y, "    achievements: list|machine(achievements)|", "    achievements: list|machine(achievementz)|", "TABLE-2"),
        M("int validator ignores range", CV, "            raise self.validation_error(item, validation_failure_info, \"Could not convert {} to int\".format(item))\n\n        self._validate_range_min_smaller_max(item, value, param, validation_failure_info)\n", "            raise self.validation_error(item, validation_failure_info, \"Could not convert {} to int\".format(item))\n\n", "DOM-23"),
        M("int validator drops param", CV, "    def _validate_type_int(self, item, validation_failure_info, param=None):\n        if item is None:", "    def _validate_type_int(self, item, validation_failure_info, param=None):\n        del param\n        if item is None:", ("TABLE-2", "DOM-23")),
        M("range upper bound not enforced", CV, "            if param[1] != \"NONE\" and value > float(param[1]):\n                raise self.validation_error(item, validation_failure_info,\n                                            \"{} is larger then {}\".format(value, param[1]))", "            if param[1] != \"NONE\" and value > float(param[1]):\n                self.log.warning(\"%s is larger then %s\", value, param[1])", "DOM-23"),
        M("range lower bound compares wrong element", CV, "if param[0] != \"NONE\" and value < float(param[0]):", "if param[0] != \"NONE\" and value < float(param[1]):", "DOM-23"),
        M("unknown keys only checked for dict specs", CV, "        if '__allow_others__' not in this_spec:\n            self.check_for_invalid_sections(this_spec, source, validation_failure_info)", "        if '__allow_others__' not in this_spec and base_spec:\n            self.check_for_invalid_sections(this_spec, source, validation_failure_info)", "DOM-24"),
        M("unknown key only warns", CV, "                        raise ConfigFileError('Your config contains a value for the '\n                                              'setting \"' + path_string + '\", but this is not a valid '\n                                                                          'setting name.', 2, self.log.name)", "                        pass", "DOM-24"),
        M("provided value validated against wrong key", CV, "                        this_spec[k], item=source[k],", "                        this_spec[k], item=source.get(k.lower()),", "DOM-24"),
        M("base spec overrides section", CV, "            this_base_spec = deepcopy(this_base_spec)\n            this_base_spec.update(this_spec)\n            this_spec = this_base_spec", "            this_spec.update(deepcopy(this_base_spec))", "OWN-14"),
        M("shared spec not copied", CV, "            this_base_spec = deepcopy(this_base_spec)\n", "", "OWN-14"),
        M("validation writes into merged spec", CV, "        processed_config = source\n", "        processed_config = source\n        this_spec['_validated'] = True\n", "OWN-14"),
        M("validator stores into config_spec", CV, "    def get_config_spec(self):\n        \"\"\"Return config spec.\"\"\"\n", "    def get_config_spec(self):\n        \"\"\"Return config spec.\"\"\"\n        self.config_spec['_requested'] = True\n", "OWN-14"),
        M("msec shadowed again", UF, "        if time_string.endswith('MS'):\n            return int(time_string[:-2])", "        if time_string.endswith('MS') or time_string.endswith('MSEC'):\n            return int(time_string[:-2])", "DEAD-2"),
        M("SEC branch after S strips 1", UF, "        if time_string.endswith('SEC'):\n            return int(float(time_string[:-3]) * 1000)", "        if time_string.endswith('SEC'):\n            return int(float(time_string[:-1]) * 1000)", "DEAD-2"),
        M("hour multiplier wrong", UF, "return int(float(time_string[:-1]) * 3600 * 1000)", "return int(float(time_string[:-1]) * 360 * 1000)", "TABLE-3"),
        M("day treated as 12h", UF, "return int(float(time_string[:-1]) * 86400 * 1000)", "return int(float(time_string[:-1]) * 43200 * 1000)", "TABLE-3"),
        M("secs default unit lost", UF, "        if not any(c.isalpha() for c in time_string):\n            time_string = ''.join((time_string, 's'))\n", "", "TABLE-3"),
        M("template_secs via ms", CV, "            item = Util.string_to_secs(item)", "            item = Util.string_to_ms(item) / 1000.0", "SIB-6"),
        M("template_ms builds float", CV, "            item = Util.string_to_ms(item)\n        except ValueError:\n            pass\n\n        return self.machine.placeholder_manager.build_int_template(item)", "            item = Util.string_to_ms(item)\n        except ValueError:\n            pass\n\n        return self.machine.placeholder_manager.build_float_template(item)", "SIB-6"),
        M("unknown token silently passes", CV, "        raise ConfigFileError(\"Invalid Validator '{}' in config spec {}\".format(\n                              validator, self._build_error_path(validation_failure_info)), 4, self.log.name)", "        return item", "TABLE-2"),
        # twins
        M("twin: merge via dict unpack kept order", CV, "        spec_list = [config_spec]\n", "        spec_list = [config_spec]\n        assert spec_list\n", None),
        M("twin: suffix order MSEC first", UF, "        if time_string.endswith('MS'):\n            return int(time_string[:-2])\n\n        if time_string.endswith('MSEC'):\n            return int(time_string[:-4])\n", "        if time_string.endswith('MSEC'):\n            return int(time_string[:-4])\n\n        if time_string.endswith('MS'):\n            return int(time_string[:-2])\n", None),
        M("twin: new spec entry", Y, "    level_x: single|int|0", "    level_x: single|int|0\n    level_w: single|float(0,1)|0.5", None),
        M("unconvertible bool accepted as None", CV, "        raise self.validation_error(item, validation_failure_info, \"Cannot convert value to boolean.\", 13)\n", "", "TOTAL-12"),
        M("str validator stringifies mappings", CV, "        if isinstance(item, (list, dict)):\n            raise self.validation_error(item, validation_failure_info, \"List or dict are not string\")", "        if isinstance(item, (list, tuple, set)):\n            raise self.validation_error(item, validation_failure_info, \"List or dict are not string\")", "SIB-6"),
        M("enum answers yes for any true", CV, "        if item is True and 'yes' in enum_values:", "        if item is True or 'yes' in enum_values:", "SIB-6"),
        M("numeric template guard admits floats", CV, "        if not isinstance(item, (str, int)):\n            raise self.validation_error(item, validation_failure_info, \"Template has to be string/int.\")", "        if not isinstance(item, (str, int, float)):\n            raise self.validation_error(item, validation_failure_info, \"Template has to be string/int.\")", "SIB-6"),
        M("twin: absent-section test inverted", CV, "        if source is None:\n            source = dict()\n\n        validation_failure_info = ValidationPath(parent=None,", "        if source is not None:\n            pass\n        else:\n            source = dict()\n\n        validation_failure_info = ValidationPath(parent=None,", None),
        M("empty-string section treated as absent", CV, "        if source is None:\n            source = dict()\n\n        validation_failure_info = ValidationPath(parent=None,", "        if source is None or source == '':\n            source = dict()\n\n        validation_failure_info = ValidationPath(parent=None,", "SIB-6"),
        M("template_ms accepts any type", CV, "        self._assert_int_float_template(item, validation_failure_info)\n\n        # try to convert to int. if we fail it will be a template", "        # try to convert to int. if we fail it will be a template", "SIB-6"),
        M("list helper swallows 0", "mpf/core/utility_functions.py", "        if isinstance(string, str):\n            # empty string is an empty list\n            if string == '':\n                return []\n\n            # Convert commas to spaces", "        if not string:\n            return []\n        if isinstance(string, str):\n            # Convert commas to spaces", "LIST-12"),
        M("unknown-key scan stops at the first known key", CV, "                if not isinstance(k, dict) and k not in spec and k[0] != '_':\n", "                if isinstance(k, dict) or k in spec or k[0] == '_':\n                    return\n                if True:\n", "DOM-24"),
        M("enum checked case-insensitively but returned as written", CV, "        try:\n            item = item.lower()\n        except AttributeError:\n            pass\n\n        if item is None and \"none\" in enum_values:\n            return None\n        if str(item) in enum_values:\n            return str(item)", "        if item is None and \"none\" in enum_values:\n            return None\n        if str(item).lower() in enum_values:\n            return str(item)", "MEMBER-12"),
        M("enum yes/no literal mismatch", CV, "        if item is True and 'yes' in enum_values:\n            return 'yes'", "        if item is True and 'yes' in enum_values:\n            return 'true'", "MEMBER-12"),
        M("twin: enum value bound to a local first", CV, "        if str(item) in enum_values:\n            return str(item)", "        if str(item) in enum_values:\n            return str(item)  # member", None),
        M("time string parsed in seconds and rescaled to ms", "mpf/devices/switch.py", "            ms = Util.string_to_ms(ev_time)", "            ms = int(Util.string_to_secs(ev_time) * 1000)", "TABLE-3"),
        M("some provided keys are returned unvalidated", CV, "            if k in source:  # validate the entry that exists\n", "            if k in source and k != 'debug':  # validate the entry that exists\n", "DOM-24"),
        M("keys named like templates are not validated", CV, "            if this_spec[k] == 'ignore' or k[0] == '_':\n                continue", "            if this_spec[k] == 'ignore' or k[0] == '_' or k.endswith('_events'):\n                continue", "DOM-24"),
        M("unknown keys of some sections are accepted", CV, "                if not isinstance(k, dict) and k not in spec and k[0] != '_':", "                if not isinstance(k, dict) and k not in spec and k[0] != '_' and len(spec) > 1:", "DOM-24"),
        M("fractional minutes truncated to whole seconds before scaling", UT, "            return int(float(time_string[:-1]) * 60 * 1000)", "            return int(float(time_string[:-1]) * 60) * 1000", "TABLE-3"),
        M("kivy colour no longer lower-cased before the hex cutter", CV, "        color_string = str(item).lower()\n", "        color_string = str(item)\n", "REGEX-12"),
        M("twin: kivy hex cutter knows both cases", CV, "re.split('([0-9a-f]{2})', color_string)", "re.split('([0-9a-fA-F]{2})', color_string)", None),
        M("hex recogniser accepts any text that starts with six hex digits", "mpf/core/utility_functions.py", "return Util.hex_matcher.fullmatch(str(string)) is not None", "return Util.hex_matcher.match(str(string)) is not None", "REGEX-12"),
        M("bool validator passes 1 / 0 through unconverted", CV, "        if isinstance(item, bool):\n            return item", "        if item in (True, False):\n            return item", "PASS-12"),
        M("dict setting split like an event list", CV, "            if not isinstance(item, dict):\n                raise self.validation_error(item, validation_failure_info, \"Item is not a dict.\", 12)", "            item = Util.event_config_to_dict(item)", "DICT-12"),
        M("power of two by popcount", UF, "        return num != 0 and ((num & (num - 1)) == 0)", "        return bin(num).count(\"1\") == 1", "DICT-12"),
        M("colour list of any length accepted", CV, "            return int(color[0]), int(color[1]), int(color[2])\n        except (IndexError, ValueError) as e:", "            return tuple(int(x) for x in color)\n        except (TypeError, ValueError) as e:", "DICT-12"),
        M("event list split by the plain list splitter", UF, "            config = Util.string_to_event_list(config)", "            config = Util.string_to_list(config)", "DICT-12"),
    ]


def thorough(chk):
    from sa.battery import run_battery
    run_battery(chk, battery())
