"""C02 — queue, relay and boolean events (structural clauses).

FLOW-2  queue-object aliasing       PAIR-1  async adapter wait/clear
DOM-4   sequential dispatch shape   DOM-5   relay / boolean semantics
PAIR-2  every internal wait() is discharged (cleared, stored where a clear reads it, or captured)
TABLE-0 event-type tokens and namedtuple indices agree between poster and dispatcher
TYPE-1  QueuedEvent typestate methods
"""
import ast

from sa.model import src, short, dotted, call_attr, kwarg, walk_local, AnalysisError, assigned_targets
from sa.index import get_index

EV = "mpf/core/events.py"
EM = "EventManager"


def check(chk):
    repo = chk.repo
    chk.explanation = ("C02: queue-object aliasing over all post_queue call sites; wait/clear pairing of every "
                       "internal QueuedEvent.wait() site (whole repo); shape of the sequential dispatcher; "
                       "relay/boolean branches; token/index agreement. Lost wake-ups of arbitrary user handlers are not decided.")
    _flow2(chk)
    _pair1(chk)
    _dom4(chk)
    _dom5(chk)
    _pair2(chk)
    _keyed_waits(chk)
    _start_wait_taken_only_when_starting(chk)
    # relay: what earlier handlers relayed reaches later handlers only through the per-handler merge of the *current* kwargs
    from sa.rules.c01 import _merge_and_condition
    _merge_and_condition(chk, chk.repo.func(EV, EM + "._run_handlers"))
    # the queue-event runner as well: a handler's condition is evaluated at that handler's turn (after the waits of all earlier handlers),
    # on the merged kwargs
    _merge_and_condition(chk, chk.repo.func(EV, EM + "._run_handlers_sequential"))
    # "in priority order" includes handlers registered through replace_handler: the priority it is given is the priority it registers with
    from sa.helpers import forwarded
    rh_ = chk.repo.func(EV, EM + ".replace_handler")
    ah_ = chk.repo.func(EV, EM + ".add_handler")
    chk.analysed(rh_)
    ac_ = [c for c in rh_.calls() if call_attr(c) == "add_handler"]
    chk.need(len(ac_) == 1, "FLOW-1", "replace_handler registers through add_handler", rh_)
    forwarded(chk, "FLOW-1", rh_, ac_[0], ah_, same=["event", "handler", "priority"], require_all=True)
    # ... and the order of the list itself: every registration is followed by the priority sort (shared with C01)
    from sa.rules.c01 import _sort_rule
    _sort_rule(chk, ah_)
    # a wait that was released is forgotten: the relay player clears the waits it holds for a context and then drops its record of them (a
    # second clear of the same wait raises "Not locked" inside the mode's stop and the wait of the current queue event is never released)
    qrc = chk.repo.func("mpf/config_players/queue_relay_player.py", "QueueRelayPlayer.clear_context")
    chk.analysed(qrc)
    qcfg = qrc.cfg()
    rs_ = [n.id for n, c in qcfg.calls_named("_reset_instance_dict") if c.args and src(c.args[0]) == "context"]
    cl_ = [n.id for n, c in qcfg.calls_named("clear") if src(c.func.value) == "queue"]
    w_ = qcfg.must_pass(qcfg.entry.id, rs_) if rs_ else [qcfg.entry.id]
    chk.ob("PAIR-2", "the relay player forgets the waits of a context on every path after releasing them", bool(cl_) and w_ is None, qrc.where(), construct=qrc.ident,
           text="released relay waits forgotten")
    _table0(chk)
    _type1(chk)


# ----------------------------------------------------------------- FLOW-2
def _removes_queue(fn, var):
    """Statements in fn that remove 'queue' from dict `var`."""
    out = []
    for n in walk_local(fn):
        if isinstance(n, ast.Call) and isinstance(n.func, ast.Attribute) and n.func.attr == "pop" \
                and dotted(n.func.value) == var and n.args and isinstance(n.args[0], ast.Constant) and n.args[0].value == "queue":
            out.append(n)
        if isinstance(n, ast.Delete):
            for t in n.targets:
                if isinstance(t, ast.Subscript) and dotted(t.value) == var and isinstance(t.slice, ast.Constant) \
                        and t.slice.value == "queue":
                    out.append(n)
    return out


def _filters_queue(expr):
    """dict comprehension / call that provably drops the 'queue' key."""
    if isinstance(expr, ast.DictComp):
        for g in expr.generators:
            for cond in g.ifs:
                t = src(cond)
                if "'queue'" in t and ("!=" in t or "not in" in t):
                    return True
    return False


def _derived_from(fn, name, source):
    """Is local `name` assigned (anywhere in fn) from an expression mentioning `source`
    without filtering 'queue'?  Returns (derived, filtered)."""
    derived = filtered = False
    for n in walk_local(fn):
        if isinstance(n, ast.Assign) and any(isinstance(t, ast.Name) and t.id == name for t in n.targets):
            if any(isinstance(x, ast.Name) and x.id == source for x in ast.walk(n.value)):
                derived = True
                if _filters_queue(n.value):
                    filtered = True
    return derived, filtered


def _flow2(chk):
    repo = chk.repo
    idx = get_index(repo)
    sites = 0
    for name in ("post_queue", "post_queue_async"):
        for u in idx.uses(name):
            if u.call is None or u.func is None:
                continue
            if u.relpath == EV and u.scope in (EM + ".post_queue_async",):
                continue    # the async wrapper forwards its own **kwargs verbatim by design (same event)
            f = u.func
            kw = f.vararg_kw
            stars = [k.value for k in u.call.keywords if k.arg is None]
            sites += 1
            for s in stars:
                verdict = True
                why = ""
                if isinstance(s, ast.Name):
                    if kw and s.id == kw:
                        has_param_queue = "queue" in f.params()
                        rem = _removes_queue(f.node, kw)
                        # removal must dominate the call
                        ok_rem = False
                        if rem:
                            cfg = f.cfg()
                            calln = [n for n in cfg.nodes if n.kind != "branch" and any(c is u.call for c in n.calls())]
                            for r in rem:
                                rn = [n for n in cfg.nodes if n.kind != "branch" and any(x is r for x in n.walk())]
                                if rn and calln and cfg.dominates(rn[0].id, calln[0].id):
                                    ok_rem = True
                        verdict = has_param_queue or ok_rem
                        why = "forwards its own **%s (may contain the outer `queue`) into another queue event" % kw
                    elif kw:
                        derived, filtered = _derived_from(f.node, s.id, kw)
                        if derived and not filtered:
                            rem = _removes_queue(f.node, s.id)
                            verdict = bool(rem)
                            why = "forwards a dict derived from **%s without removing `queue`" % kw
                elif isinstance(s, ast.Attribute) and dotted(s.value) == "self" and u.cls is not None:
                    # a field of the object: tainted when any method stores its own **kwargs (or an unfiltered copy) there
                    tainted_by = []
                    cls_obj = repo.modules[u.relpath].classes.get(u.cls) if isinstance(u.cls, str) else u.cls
                    for m_ in (cls_obj.methods.values() if cls_obj is not None else []):
                        mk = m_.vararg_kw
                        if not mk:
                            continue
                        for a_ in walk_local(m_.node):
                            if isinstance(a_, ast.Assign) and any(src(t) == src(s) for t in a_.targets) and \
                                    any(isinstance(x, ast.Name) and x.id == mk for x in ast.walk(a_.value)) and not _filters_queue(a_.value):
                                tainted_by.append(m_.qualname)
                    if tainted_by:
                        verdict = False
                        why = "forwards %s, which %s fills with its own **kwargs (may contain an outer `queue`)" % (src(s), ", ".join(sorted(set(tainted_by))))
                elif kw and any(isinstance(x, ast.Name) and x.id == kw for x in ast.walk(s)) and not _filters_queue(s):
                    verdict = False
                    why = "forwards an expression over **%s without removing `queue`" % kw
                chk.ob("FLOW-2", "%s in %s does not forward an outer QueuedEvent" % (name, u.scope), verdict, u.where(),
                       detail=why, construct=u.ident, text="%s forwards %s" % (name, src(s)))
            if not stars:
                chk.ob("FLOW-2", "%s in %s passes explicit arguments only" % (name, u.scope), True, u.where(), nontrivial=False)
    chk.floor("FLOW-2", 15)
    # stored start kwargs are re-posted only with plain post (no queue semantics)
    f = repo.func("mpf/core/mode.py", "Mode._started")
    chk.analysed(f)
    for c in f.calls():
        if call_attr(c) in ("post_queue", "post_queue_async") and "start_event_kwargs" in src(c):
            chk.ob("FLOW-2", "stored start kwargs are not forwarded into a queue event", False, f.where(c),
                   construct=f.ident, text="post_queue with start_event_kwargs")


# ----------------------------------------------------------------- PAIR-1
def _pair1(chk):
    repo = chk.repo
    f = repo.func(EV, EM + "._async_handler_coroutine")
    g = repo.func(EV, EM + "._async_handler_done")
    h = repo.func(EV, EM + ".add_async_handler")
    chk.analysed(f, g, h)
    cfg = f.cfg()
    waits = [n for n, c in cfg.calls_named("wait") if dotted(c.func.value) == "queue"]
    tasks = [n for n, c in cfg.calls_named("create_task", "ensure_future")]
    chk.ob("PAIR-1", "async adapter registers the wait before starting the task",
           bool(waits) and bool(tasks) and all(cfg.dominates(waits[0].id, t.id) for t in tasks), f.where(),
           construct=f.ident, text="wait dominates create_task")
    dcb = [c for n, c in cfg.calls_named("add_done_callback")]
    ok = any("_async_handler_done" in src(c) and "queue" in src(c) for c in dcb)
    chk.ob("PAIR-1", "task completion is wired to the clearing callback with the same queue", ok, f.where(),
           construct=f.ident, text="done callback wiring")
    cfg = g.cfg()
    clears = [n.id for n, c in cfg.calls_named("clear") if dotted(c.func.value) == "queue"]
    w = cfg.must_pass(cfg.entry.id, clears, ignore_exc=False)
    chk.ob("PAIR-1", "done-callback clears the wait on every non-raising path (cancellation included)", w is None and bool(clears),
           g.where(), path=cfg.fmt_path(w, EV) if w else None, construct=g.ident, text="clear on all paths")
    # CancelledError handled
    handled = any(isinstance(x, ast.ExceptHandler) and x.type is not None and "CancelledError" in src(x.type)
                  for x in ast.walk(g.node))
    chk.ob("PAIR-1", "a cancelled task still clears its wait", handled, g.where(), construct=g.ident,
           text="CancelledError handled")
    ok = any("_async_handler_coroutine" in src(c) for c in h.calls() if call_attr(c) == "add_handler")
    chk.ob("PAIR-1", "add_async_handler registers the adapter", ok, h.where(), construct=h.ident, text="adapter registered")


# ------------------------------------------------------------------ DOM-4
def _dom4(chk):
    repo = chk.repo
    f = repo.func(EV, EM + "._run_handlers_sequential")
    chk.analysed(f)
    cfg = f.cfg()
    calls = [(n, c) for n, c in cfg.calls_named("callback") if isinstance(c.func, ast.Attribute)]
    chk.need(calls, "DOM-4", "the queue runner calls each handler", f)
    hn, hc = calls[0]
    loops = [h for h in cfg.nodes if h.kind == "loop"]
    chk.need(loops, "DOM-4", "the queue runner loops over the handlers", f)
    head = loops[0]
    # a queue event is never aborted: every registered handler whose condition holds runs -- no `break` / `return` inside the handler
    # loop (a handler's return value means nothing for queue events; `False` aborts only boolean events)
    early = [y for y in ast.walk(head.ast) if isinstance(y, (ast.Break, ast.Return))]
    chk.ob("DOM-4", "a queue event runs every handler: the handler loop is never left early", not early, f.where(early[0]) if early else f.where(head.ast),
           detail="lower-priority handlers are skipped and the completion callback fires without them" if early else "", construct=f.ident,
           text="queue event handler loop left early")
    awaits = [n for n in cfg.nodes_where(lambda n: n.kind in ("stmt", "test") and n.has_await())]
    qa = [n for n in awaits if ".event.wait()" in n.text(200) or ".wait()" in n.text(200)]
    chk.ob("DOM-4", "sequential dispatcher awaits the queue's release", bool(qa), f.where(), construct=f.ident,
           text="await on queue event present")
    for a in qa:
        inloop = any(x is a.ast for st in head.ast.body for x in ast.walk(st))
        chk.ob("DOM-4", "the await is inside the handler loop (no later handler starts while a wait is outstanding)",
               inloop, f.where(a.ast), construct=f.ident, text="await in loop")
        chk.ob("DOM-4", "the await follows the handler call in the same iteration", cfg.dominates(hn.id, a.id),
               f.where(a.ast), construct=f.ident, text="await after call")
        facts = dict(cfg.facts_at(a.id))
        wf = [k for k, v in facts.items() if k.endswith(".waiter") and v is True]
        chk.ob("DOM-4", "the await happens iff the handler registered a wait", bool(wf), f.where(a.ast),
               detail="facts %s" % sorted(facts.items()), construct=f.ident, text="await guard")
        from sa.cfg import canon_set
        loop_guards = {k: v for k, v in cfg.guards_at(a.id).items() if any(x is t.ast for t in cfg.nodes if t.kind == "test" and src(t.ast) == k
                                                                           for st in head.ast.body for x in ast.walk(st))}
        others = {kv for kv in canon_set(loop_guards) if not kv[0].endswith(".waiter")}
        chk.ob("DOM-4", "nothing but the registered wait decides whether the dispatcher waits (not the callback, not the event)", not others,
               f.where(a.ast), detail="additional conditions on the wait: %s" % sorted(others), construct=f.ident, text="extra condition on the wait")
        # a fresh asyncio.Event is installed before awaiting
        ev_sets = [n for n in cfg.nodes_where(lambda n: n.kind == "stmt" and isinstance(n.ast, ast.Assign) and
                                              any(src(t).endswith(".event") for t in n.ast.targets) and
                                              "Event(" in src(n.ast.value))]
        chk.ob("DOM-4", "a fresh asyncio.Event is installed before the await",
               bool(ev_sets) and all(cfg.dominates(e.id, a.id) for e in ev_sets), f.where(a.ast), construct=f.ident,
               text="event installed")
        # no path from the handler call to the next iteration that skips the waiter test
        tests = [t for t in cfg.nodes if t.kind == "test" and src(t.ast).endswith(".waiter")]
        w = cfg.path_avoiding(hn.id, [head.id], [t.id for t in tests], ignore_exc=True)
        chk.ob("DOM-4", "every iteration checks for an outstanding wait before the next handler", w is None and bool(tests),
               f.where(hc), path=cfg.fmt_path(w, EV) if w else None, construct=f.ident, text="waiter test bypass")
    # the completion callback fires on every way out of the runner (also when the handlers were removed before its first step)
    cbs = [(n, c) for n, c in cfg.calls_named("callback") if isinstance(c.func, ast.Name)]
    chk.need(cbs, "DOM-4", "the queue runner calls the completion callback", f)
    via = [n.id for n, _ in cbs] + [b.id for b in cfg.nodes if b.kind == "branch" and src(b.ast) == "callback" and b.value is False]
    w = cfg.must_pass(cfg.entry.id, via)
    chk.ob("DOM-4", "every returning path of the queue runner fires the completion callback (if one was given)", w is None, f.where(),
           detail="the task starts one loop iteration after the event was dispatched: handlers removed in between (a mode stopped in the same "
                  "drain) must not leave the event without completion - post_queue_async would wait forever",
           construct=f.ident, text="queue runner returns without the completion callback", path=cfg.fmt_path(w, f) if w else None, nontrivial=True)
    ids_cb = [n.id for n, _ in cbs]
    twice_ = [n for n, _ in cbs if cfg.path_avoiding(n.id, ids_cb, [], ignore_exc=True) is not None]
    chk.ob("DOM-4", "the completion callback fires at most once on any path of the queue runner", not twice_, f.where(twice_[0].ast) if twice_ else f.where(),
           detail="a second call site is reachable after %s" % twice_[0].text(40) if twice_ else "", construct=f.ident, text="completion callback twice")
    for n, c in cbs:
        inloop = any(x is c for st in head.ast.body for x in ast.walk(st))
        chk.ob("DOM-4", "the completion callback is outside the handler loop (fires once)", not inloop or not cfg.path_avoiding(n.id, [head.id], [], ignore_exc=True),
               f.where(c), construct=f.ident, text="completion callback inside the loop")
    # the queue object handed to the handler: popped from merged kwargs or fresh per handler
    qdefs = [n for n in cfg.nodes_where(lambda n: n.kind == "stmt" and isinstance(n.ast, ast.Assign) and
                                        any(isinstance(t, ast.Name) and t.id == "queue" for t in n.ast.targets))]
    fresh = [n for n in qdefs if "QueuedEvent(" in src(n.ast.value)]
    chk.ob("DOM-4", "a handler without a forwarded queue gets a fresh QueuedEvent per call",
           bool(fresh) and all(any(x is n.ast for st in head.ast.body for x in ast.walk(st)) for n in fresh), f.where(),
           construct=f.ident, text="fresh queue per handler")
    qk = kwarg(hc, "queue")
    chk.ob("DOM-4", "the handler is called with queue=<that object>", qk is not None and src(qk) == "queue", f.where(hc),
           construct=f.ident, text="queue kwarg")
    chk.floor("DOM-4", 7)


# ------------------------------------------------------------------ DOM-5
def _dom5(chk):
    repo = chk.repo
    f = repo.func(EV, EM + "._run_handlers")
    g = repo.func(EV, EM + "._process_event")
    chk.analysed(f, g)
    cfg = f.cfg()
    loops = [h for h in cfg.nodes if h.kind == "loop"]
    chk.need(loops, "DOM-5", "_run_handlers loops over the handlers", f)
    head = loops[0]
    # result variable comes from the handler call
    res_defs = [n for n in cfg.nodes_where(lambda n: n.kind == "stmt" and isinstance(n.ast, ast.Assign) and
                                           isinstance(n.ast.value, ast.Call) and call_attr(n.ast.value) == "callback")]
    chk.need(res_defs, "DOM-5", "_run_handlers keeps each handler's result", f)
    rv = src(res_defs[0].ast.targets[0])
    # relay update
    ups = [(n, c) for n, c in cfg.calls_named("update") if dotted(c.func.value) == "kwargs"]
    chk.ob("DOM-5", "relay: posted kwargs are updated from a handler's dict result", bool(ups), f.where(),
           construct=f.ident, text="kwargs.update present")
    for n, c in ups:
        facts = dict(cfg.facts_at(n.id))
        ok = facts.get("ev_type == 'relay'") is True and facts.get("isinstance(%s, dict)" % rv) is True \
            and len(c.args) == 1 and src(c.args[0]) == rv
        chk.ob("DOM-5", "kwargs.update(result) only for relay events with a dict result", ok, f.where(c),
               detail="facts %s" % sorted(facts.items()), construct=f.ident, text="update guard")
        inloop = any(x is c for st in head.ast.body for x in ast.walk(st))
        chk.ob("DOM-5", "the update happens inside the loop so later handlers see it", inloop, f.where(c),
               construct=f.ident, text="update in loop")
    # merged kwargs are rebuilt from `kwargs` inside the loop (after the update of the previous iteration)
    mdefs = [n for n in cfg.nodes_where(lambda n: n.kind == "stmt" and isinstance(n.ast, ast.Assign) and
                                        any(isinstance(t, ast.Name) and t.id == "merged_kwargs" for t in n.ast.targets))]
    for n in mdefs:
        inloop = any(x is n.ast for st in head.ast.body for x in ast.walk(st))
        chk.ob("DOM-5", "merged kwargs are rebuilt per handler", inloop, f.where(n.ast), construct=f.ident,
               text="merge in loop")
    # boolean stop
    brk = [n for n in cfg.nodes_where(lambda n: n.kind == "stmt" and isinstance(n.ast, ast.Break))]
    good_brk = 0
    for n in brk:
        facts = dict(cfg.facts_at(n.id))
        ok = facts.get("ev_type == 'boolean'") is True and facts.get("%s is False" % rv) is True
        if ok:
            good_brk += 1
        chk.ob("DOM-5", "the handler loop is left early only for a boolean event whose handler returned False", ok,
               f.where(n.ast), detail="facts %s" % sorted(facts.items()), construct=f.ident, text="break guard")
    chk.ob("DOM-5", "boolean: dispatch stops at the first False", good_brk >= 1, f.where(), construct=f.ident,
           text="boolean break present")
    # ... and *whenever* that happens: nothing else takes part in the decision (sufficiency; the "only for" above is necessity)
    from sa.helpers import exact_selection
    for n in brk:
        exact_selection(chk, "DOM-5", "a boolean event is aborted whenever a handler returned False (no further condition)", f, cfg, n, head,
                        {("ev_type == 'boolean'", True), ("%s is False" % rv, True)}, text="break exactly on boolean False", every=False)
    for n, c in ups:
        exact_selection(chk, "DOM-5", "a relay handler's dict result is merged whenever it is a dict (no further condition)", f, cfg, n, head,
                        {("ev_type == 'relay'", True), ("isinstance(%s, dict)" % rv, True)}, text="relay update exactly on dict result", every=False)
    evr = [n for n in cfg.nodes_where(lambda n: n.kind == "stmt" and isinstance(n.ast, ast.Assign) and
                                      src(n.ast.targets[0]) == "kwargs['ev_result']")]
    for n in evr:
        facts = dict(cfg.facts_at(n.id))
        ok = facts.get("ev_type == 'boolean'") is True and facts.get("%s is False" % rv) is True and src(n.ast.value) == "False"
        chk.ob("DOM-5", "ev_result=False is recorded exactly on the boolean-False path", ok, f.where(n.ast),
               construct=f.ident, text="ev_result guard")
    chk.ob("DOM-5", "boolean: the False result is reported to the callback", bool(evr), f.where(), construct=f.ident,
           text="ev_result recorded")
    # a `continue`/skip between the call and the checks would hide a False
    w = None
    chk_tests = [t for t in cfg.nodes if t.kind == "test" and src(t.ast) in ("ev_type == 'boolean'",)]
    if chk_tests:
        w = cfg.path_avoiding(res_defs[0].id, [head.id], [t.id for t in chk_tests], ignore_exc=True)
    chk.ob("DOM-5", "every handler result is examined before the next handler", bool(chk_tests) and w is None,
           f.where(), path=cfg.fmt_path(w, EV) if w else None, construct=f.ident, text="result examined")
    # returns the last result
    rets = [n for n in cfg.nodes_where(lambda n: n.kind == "stmt" and isinstance(n.ast, ast.Return))]
    chk.ob("DOM-5", "_run_handlers returns the last handler result", bool(rets) and all(
        n.ast.value is not None and src(n.ast.value) == rv for n in rets), f.where(), construct=f.ident, text="return result")
    # _process_event: same dict object goes to handlers and to the callback
    rh = [c for c in g.calls() if call_attr(c) == "_run_handlers"]
    if not rh:
        chk.missing("DOM-5", "_process_event runs the handlers", g)
        return
    passed = src(rh[0].args[2]) if len(rh[0].args) >= 3 else src(kwarg(rh[0], "kwargs"))
    apps = [c for c in g.calls() if call_attr(c) == "append" and "callback_queue" in src(c.func)]
    same = bool(apps) and all(isinstance(c.args[0], ast.Tuple) and src(c.args[0].elts[1]) == passed for c in apps)
    chk.ob("DOM-5", "relay: the callback receives the very dict the handlers updated", same and passed == "kwargs",
           g.where(), detail="handlers get %s" % passed, construct=g.ident, text="same dict to callback")
    tpass = src(rh[0].args[1]) if len(rh[0].args) >= 2 else "?"
    chk.ob("DOM-5", "the event type reaches the handler loop", tpass == "ev_type", g.where(rh[0]), construct=g.ident,
           text="ev_type forwarded")
    # the result of the handlers is reported to the callback as ev_result (boolean False is stored by the loop itself)
    gcfg = g.cfg()
    rdefs = [n for n in gcfg.nodes if n.kind == "stmt" and isinstance(n.ast, ast.Assign) and call_attr(n.ast.value) == "_run_handlers"
             and isinstance(n.ast.targets[0], ast.Name)]
    if rdefs:
        rname = rdefs[0].ast.targets[0].id
        stores = [n for n in gcfg.nodes if n.kind == "stmt" and isinstance(n.ast, ast.Assign)
                  and src(n.ast.targets[0]) in ("%s['ev_result']" % passed, '%s["ev_result"]' % passed)]
        ok = bool(stores) and all(src(n.ast.value) == rname for n in stores)
        chk.ob("DOM-5", "the handlers' result is handed to the callback as ev_result", ok, g.where(), construct=g.ident,
               text="ev_result = result stored before the callback is queued")
        for n in stores:
            facts = dict(gcfg.facts_at(n.id))
            extra = {k: v for k, v in facts.items() if k not in ("callback", rname) and not k.startswith("self._debug")}
            chk.ob("DOM-5", "ev_result is stored whenever there is a callback and a result", facts.get("callback") is True
                   and facts.get(rname, True) is True and not extra, g.where(n.ast), detail="facts %s" % sorted(facts.items()),
                   construct=g.ident, text="ev_result store guard")
            apps_n = [a for a, c in gcfg.calls_named("append") if "callback_queue" in src(c.func)]
            before = all(gcfg.path_avoiding(a.id, [n.id], [], ignore_exc=True) is None for a in apps_n)
            chk.ob("DOM-5", "ev_result is stored before the callback is queued", before, g.where(n.ast), construct=g.ident,
                   text="ev_result stored after queueing")
    else:
        chk.missing("DOM-5", "_process_event keeps the handlers' result", g)
    chk.floor("DOM-5", 10)


# ------------------------------------------------------------------ PAIR-2
# Frozen table of the repository's own wait sites whose queue is parked in a
# field: (relpath, Class.method, field) -> methods that must clear that field.
PARKED = {
    ("mpf/core/mode.py", "Mode.start", "_mode_start_wait_queue"): ["Mode._mode_stopped_callback", "Mode._stopped", "Mode.mode_stop", "Mode._mode_started_callback"],
    ("mpf/core/mode_controller.py", "ModeController._ball_ending", "queue"): ["ModeController._mode_stopped_callback", "ModeController._ball_ending"],
    ("mpf/modes/game/code/game.py", "Game._stop_game_modes", "_stopping_queue"): ["Game._game_mode_stopped"],
}


def _queue_like(name):
    return name is not None and (name == "queue" or name.endswith("_queue") or name.endswith(".queue"))


def _keyed_waits(chk):
    """PAIR-2k: where the registration key of a clearing callback is remembered per wait (stored under the queue), several waits can be
    outstanding at once; the callback then removes *its own* registration through that key and clears *its own* queue.  Removing by
    method (`remove_handler(self.cb)`) drops the handlers of all the other outstanding waits, which are then never cleared.
    Also the stop loops: every mode that has to stop is waited for -- the selection in the loop is exactly the stated condition."""
    repo = chk.repo
    n = 0
    for cls in repo.all_classes("mpf/"):
        for m in cls.methods.values():
            for a in walk_local(m.node):
                if not (isinstance(a, ast.Assign) and isinstance(a.value, ast.Call) and call_attr(a.value) == "add_handler" and kwarg(a.value, "queue") is not None
                        and isinstance(a.targets[0], ast.Name)):
                    continue
                key, q = a.targets[0].id, src(kwarg(a.value, "queue"))
                cb = a.value.args[1] if len(a.value.args) > 1 else kwarg(a.value, "handler")
                if cb is None or not src(cb).startswith("self."):
                    continue
                stores = [x for x in walk_local(m.node) if isinstance(x, ast.Assign) and isinstance(x.targets[0], ast.Subscript) and src(x.targets[0].slice) == q
                          and src(x.value) == key]
                if not stores:
                    continue
                n += 1
                cbn = src(cb)[5:]
                chk.analysed(m)
                table = src(stores[0].targets[0].value)
                for m2 in cls.methods.values():
                    for c in m2.calls():
                        if call_attr(c) in ("remove_handler", "remove_handler_by_event") and any(src(x) == src(cb) for x in list(c.args) + [k.value for k in c.keywords]):
                            chk.ob("PAIR-2", "%s.%s (clears one wait, registered per queue) is removed only through its own key" % (cls.name, cbn), False,
                                   m2.where(c), detail="`%s` removes the handlers of every outstanding wait; the other queues are never cleared" % short(c, 70),
                                   construct=m2.ident, text="clearing callback %s removed by method in %s" % (cbn, m2.name))
                f = cls.methods.get(cbn)
                chk.need(f is not None, "PAIR-2", "%s has the clearing callback %s" % (cls.name, cbn), m)
                chk.analysed(f)
                cfg = f.cfg()
                rk = [nn for nn, c in cfg.calls_named("remove_handler_by_key") if c.args and isinstance(c.args[0], ast.Subscript) and src(c.args[0].slice) == "queue"]
                cl = [nn for nn, c in cfg.calls_named("clear") if src(c.func.value) == "queue"]
                fg = [nn for nn in cfg.nodes if nn.kind == "stmt" and isinstance(nn.ast, ast.Delete) and any(isinstance(t, ast.Subscript) and src(t.slice) == "queue" for t in nn.ast.targets)]
                exits = [x.id for x in cfg.nodes if x.kind == "exit"]
                ok = len(rk) == 1 and len(cl) == 1 and len(fg) == 1 and all(cfg.path_avoiding(cfg.entry.id, exits, [x.id]) is None for x in (rk[0], cl[0], fg[0]))
                chk.ob("PAIR-2", "%s.%s removes its own registration (by the key stored for its queue), forgets it and clears its queue on every path" % (cls.name, cbn),
                       ok, f.where(), construct=f.ident, text="keyed clearing callback " + cbn)
    chk.ob("PAIR-2", "keyed clearing callbacks examined", n >= 1, "mpf:1", detail=str(n), nontrivial=False)
    # stop loops: who is waited for
    from sa.helpers import stop_loop_selection
    stop_loop_selection(chk, "PAIR-2", "game", "one already stopping still has to finish")
    stop_loop_selection(chk, "PAIR-2", "ball", "one already stopping still has to finish")


def _start_wait_taken_only_when_starting(chk):
    """PAIR-2w: Mode.start parks the queue of the event that started it (use_wait_queue) and waits on it; the wait is released when the
    mode has stopped.  A request that is *refused* (no game, already active, already starting) must leave that queue alone: the wait
    it would take is released by nobody (the running cycle releases the queue it parked last), and the parked queue of the cycle that
    is running would be overwritten.  So park + wait come after every refusal exit: they are dominated by `self._starting = True`."""
    repo = chk.repo
    f = repo.func("mpf/core/mode.py", "Mode.start")
    chk.analysed(f)
    cfg = f.cfg()
    mark = [n for n in cfg.nodes if n.kind == "stmt" and isinstance(n.ast, ast.Assign) and src(n.ast.targets[0]) == "self._starting" and src(n.ast.value) == "True"]
    park = [n for n in cfg.nodes if n.kind == "stmt" and isinstance(n.ast, ast.Assign) and src(n.ast.targets[0]) == "self._mode_start_wait_queue"]
    wtc = [(n, c) for n, c in cfg.calls_named("wait") if "queue" in src(c.func.value)]
    wt = [n for n, _ in wtc]
    chk.need(len(mark) == 1 and park and wt, "PAIR-2", "Mode.start marks itself starting, parks the start queue and waits on it", f)
    rets = [n for n in cfg.nodes if n.kind == "stmt" and isinstance(n.ast, ast.Return)]
    refusals = [r for r in rets if not cfg.dominates(mark[0].id, r.id)]
    for n in park + wt:
        ok = cfg.dominates(mark[0].id, n.id) and all(cfg.path_avoiding(n.id, [r.id], [], ignore_exc=True) is None for r in refusals)
        chk.ob("PAIR-2", "Mode.start touches the start queue only once the request is accepted (after every refusal exit)", ok, f.where(n.ast),
               detail="a refused start that waits on its queue is never released, and it overwrites the queue the running cycle has to release",
               construct=f.ident, text="start queue touched before acceptance: " + n.text(40))
    chk.ob("PAIR-2", "refusal exits of Mode.start examined", len(refusals) >= 3, f.where(), detail=str(len(refusals)), nontrivial=False)
    g = cfg.guards_at(wt[0].id)
    ok = g.get("'queue' in kwargs") is True and g.get("self.config['mode']['use_wait_queue']") is True
    chk.ob("PAIR-2", "the wait is taken exactly for use_wait_queue modes started by a queue event", ok, f.where(wt[0].ast), construct=f.ident, text="start wait guard")
    ok = src(park[0].ast.value).replace('"', "'") == "kwargs['queue']" and src(wtc[0][1].func.value) == "self._mode_start_wait_queue" and cfg.dominates(park[0].id, wt[0].id)
    chk.ob("PAIR-2", "the queue waited on is the one that was parked: the queue of the starting event", ok, f.where(wt[0].ast), construct=f.ident, text="start wait object")


def _pair2(chk, only=None):
    repo = chk.repo
    idx = get_index(repo)
    n_sites = 0
    for u in idx.uses("wait"):
        if u.call is None or u.func is None or u.call.args or u.call.keywords:
            continue
        if only is not None and u.relpath != only:
            continue
        rt = u.recv_text
        if not _queue_like(rt):
            continue
        # asyncio primitives are awaited; QueuedEvent.wait() is a plain call statement
        if isinstance(u.parent, ast.Call) and False:
            continue
        f = u.func
        # skip awaited waits (asyncio.Event etc.)
        awaited = False
        for x in ast.walk(f.node):
            if isinstance(x, ast.Await) and any(y is u.call for y in ast.walk(x)):
                awaited = True
        if awaited or "asyncio" in rt:
            continue
        if u.relpath == EV and u.scope.startswith("QueuedEvent"):
            continue
        n_sites += 1
        chk.analysed(f)
        cfg = f.cfg()
        wn = [n for n in cfg.nodes if n.kind != "branch" and any(c is u.call for c in n.calls())]
        if not wn:
            continue
        wn = wn[0]
        q = rt
        qroot = q.split(".")[-1] if q.startswith("self.") else q
        # discharge sites
        dis = []
        fields = set()
        for n in cfg.nodes:
            if n.kind == "branch":
                continue
            for x in n.walk():
                # immediate clear
                if isinstance(x, ast.Call) and call_attr(x) == "clear" and dotted(x.func.value) == q:
                    dis.append(n.id)
                # parked in a field / container / handed on
                if isinstance(x, (ast.Assign,)):
                    if any(isinstance(y, (ast.Name, ast.Attribute)) and dotted(y) == q for y in ast.walk(x.value)):
                        for t in x.targets:
                            if isinstance(t, ast.Attribute) and dotted(t.value) == "self":
                                dis.append(n.id)
                                fields.add(t.attr)
                            elif isinstance(t, ast.Subscript):
                                dis.append(n.id)
                    for t in x.targets:
                        if isinstance(t, ast.Subscript) and any(dotted(y) == q for y in ast.walk(t.slice) if isinstance(y, (ast.Name, ast.Attribute))):
                            dis.append(n.id)
                # the bound method q.clear is taken as a value (stop_callback = queue.clear)
                if isinstance(x, ast.Attribute) and x.attr == "clear" and dotted(x.value) == q and isinstance(x.ctx, ast.Load):
                    dis.append(n.id)
                if isinstance(x, ast.Call) and x is not u.call:
                    # q passed on as an argument / captured by a lambda or partial
                    for a in list(x.args) + [k.value for k in x.keywords]:
                        for y in ast.walk(a):
                            if isinstance(y, (ast.Name, ast.Attribute)) and dotted(y) == q and not (
                                    isinstance(x.func, ast.Attribute) and x.func.value is y):
                                dis.append(n.id)
        if q.startswith("self."):
            fields.add(q.split(".", 1)[1])
            # already parked: the wait itself is on the field
            dis.append(wn.id)
        # every path from the wait to the exit passes a discharge, or a discharge dominates the wait
        pre = any(cfg.dominates(d, wn.id) for d in dis)
        w = None if pre else cfg.must_pass(wn.id, dis, ignore_exc=True)
        chk.ob("PAIR-2", "wait() in %s is cleared, parked in a field or handed to a clearing callback on every path" % u.scope,
               w is None, u.where(), path=cfg.fmt_path(w, u.relpath) if w else None,
               detail="a path leaves the handler with the wait registered and no reference kept: the queue event can never finish",
               construct=u.ident, text="undischarged wait on " + q)
        # parked fields must be cleared somewhere in the class
        c = f.cls
        for fld in sorted(fields):
            clearers = []
            for k in repo.mro(c):
                for m in k.methods.values():
                    for x in ast.walk(m.node):
                        if isinstance(x, ast.Call) and call_attr(x) == "clear" and dotted(x.func.value) == "self." + fld:
                            clearers.append(m.qualname)
            key = (u.relpath, u.scope, fld)
            chk.ob("PAIR-2", "parked queue self.%s (waited in %s) has a clearing method" % (fld, u.scope), bool(clearers),
                   u.where(), detail="no `self.%s.clear()` in the class hierarchy" % fld, construct=u.ident,
                   text="no clearer for self." + fld)
            if key in PARKED:
                want = [w for w in PARKED[key]]
                ok = any(cn in want for cn in clearers)
                chk.ob("PAIR-2", "self.%s is cleared by one of the tabled completion methods" % fld, ok, u.where(),
                       detail="clearers now: %s" % clearers, construct=u.ident, text="tabled clearer for self." + fld)
    # a parked queue whose clear is guarded by the field's own truthiness must be forgotten once cleared:
    # otherwise the next pass clears the same (already released) QueuedEvent again -> "Not locked"
    for c in repo.all_classes():
        for m in c.methods.values():
            for x in ast.walk(m.node):
                if isinstance(x, ast.Call) and call_attr(x) == "clear" and isinstance(x.func.value, ast.Attribute) and \
                        dotted(x.func.value.value) == "self" and _queue_like(x.func.value.attr) and not x.args:
                    fld = x.func.value.attr
                    cfg = m.cfg()
                    cn = [n for n in cfg.nodes if n.kind != "branch" and any(y is x for y in n.calls())]
                    if not cn:
                        continue
                    g = cfg.guards_at(cn[0].id)
                    if g.get("self." + fld) is True or g.get("self.%s is not None" % fld) is True:
                        resets = [n.id for n in cfg.nodes_where(lambda n: n.kind == "stmt" and isinstance(n.ast, ast.Assign) and
                                                                 any(src(t) == "self." + fld for t in n.ast.targets))]
                        w = cfg.must_pass(cn[0].id, resets, ends=[cfg.exit.id])
                        chk.analysed(m)
                        chk.ob("PAIR-2", "%s forgets the parked queue self.%s once it cleared it" % (m.qualname, fld), bool(resets) and w is None,
                               m.where(x), detail="the guard `if self.%s:` stays true: the next pass clears the released QueuedEvent again (AssertionError 'Not locked')" % fld,
                               construct=m.ident, text="parked queue self.%s not reset after clear" % fld)
    chk.floor("PAIR-2", 12 if only is None else 2)
    # the two counting waits: nothing-to-wait-for branch clears immediately
    f = repo.func("mpf/core/mode_controller.py", "ModeController._ball_ending")
    chk.analysed(f)
    cfg = f.cfg()
    cl = [(n, c) for n, c in cfg.calls_named("clear") if src(c.func.value) == "self.queue"]
    ok = False
    for n, c in cl:
        facts = dict(cfg.facts_at(n.id))
        if facts.get("self.mode_stop_count") is False:
            # after the loop over modes
            loops = [h for h in cfg.nodes if h.kind == "loop"]
            if loops and not any(x is c for st in loops[0].ast.body for x in ast.walk(st)):
                ok = True
    chk.ob("PAIR-2", "_ball_ending clears at once when no mode has to stop", ok, f.where(),
           detail="with no auto-stopping game mode the ball_ending queue would never be released", construct=f.ident,
           text="immediate clear when count is zero")
    g = repo.func("mpf/core/mode_controller.py", "ModeController._mode_stopped_callback")
    cfg = g.cfg()
    dec = [n for n in cfg.nodes_where(lambda n: n.kind == "stmt" and isinstance(n.ast, ast.AugAssign) and
                                      src(n.ast.target) == "self.mode_stop_count" and isinstance(n.ast.op, ast.Sub))]
    cl = [(n, c) for n, c in cfg.calls_named("clear") if src(c.func.value) == "self.queue"]
    ok = bool(dec) and bool(cl) and all(dict(cfg.facts_at(n.id)).get("self.mode_stop_count") is False and
                                        cfg.dominates(dec[0].id, n.id) for n, c in cl)
    chk.ob("PAIR-2", "the last stopping mode clears the ball_ending queue (count decremented first, clear at zero)", ok,
           g.where(), construct=g.ident, text="clear at zero")
    f = repo.func("mpf/core/mode_controller.py", "ModeController._ball_ending")
    cfg = f.cfg()
    incs = [n for n in cfg.nodes_where(lambda n: n.kind == "stmt" and isinstance(n.ast, ast.AugAssign) and
                                       src(n.ast.target) == "self.mode_stop_count")]
    stops = [(n, c) for n, c in cfg.calls_named("stop") if "_mode_stopped_callback" in src(c)]
    ok = bool(incs) and bool(stops) and all(any(cfg.dominates(i.id, n.id) for i in incs) for n, c in stops)
    chk.ob("PAIR-2", "every mode stop that will call back is counted first", ok, f.where(), construct=f.ident,
           text="count before stop")
    # Game._stop_game_modes: wait only if something was registered, stored before any callback can run
    f = repo.func("mpf/modes/game/code/game.py", "Game._stop_game_modes")
    g = repo.func("mpf/modes/game/code/game.py", "Game._game_mode_stopped")
    chk.analysed(f, g)
    cfg = f.cfg()
    waits = [(n, c) for n, c in cfg.calls_named("wait") if dotted(c.func.value) == "queue"]
    ok = bool(waits) and all(dict(cfg.facts_at(n.id)).get("self._stopping_modes") is True for n, c in waits)
    chk.ob("PAIR-2", "game end waits only when a game mode is actually stopping", ok, f.where(), construct=f.ident,
           text="conditional wait")
    cfg = g.cfg()
    cl = [(n, c) for n, c in cfg.calls_named("clear") if src(c.func.value) == "self._stopping_queue"]
    rem = [(n, c) for n, c in cfg.calls_named("remove") if src(c.func.value) == "self._stopping_modes"]
    ok = bool(cl) and bool(rem) and all(dict(cfg.facts_at(n.id)).get("self._stopping_modes") is False and
                                        cfg.dominates(rem[0][0].id, n.id) for n, c in cl)
    chk.ob("PAIR-2", "the last stopped game mode releases the game-ending queue", ok, g.where(), construct=g.ident,
           text="release at empty")


# ---------------------------------------------------------------- TABLE-0
def _table0(chk):
    repo = chk.repo
    m = repo.mod(EV)
    em = repo.cls(EV, EM)
    # event type tokens: what the posting API passes vs what the dispatcher tests
    tokens = {}
    for name in ("post", "post_boolean", "post_queue", "post_relay"):
        f = repo.func(EV, EM + "." + name)
        posts = [c for c in f.calls() if call_attr(c) == "_post"]
        if not posts:
            chk.missing("TABLE-0", "%s hands the event to _post" % name, f)
            tokens[name] = "<missing>"
            continue
        a = posts[0].args[1] if len(posts[0].args) > 1 else kwarg(posts[0], "ev_type")
        tokens[name] = a.value if isinstance(a, ast.Constant) else src(a)
    want = {"post": None, "post_boolean": "boolean", "post_queue": "queue", "post_relay": "relay"}
    for k, v in want.items():
        chk.ob("TABLE-0", "%s posts with event type %r" % (k, v), tokens[k] == v, repo.func(EV, EM + "." + k).where(),
               detail="passes %r" % (tokens[k],), construct=EV + "::" + EM + "." + k, text="type token %r" % (tokens[k],))
    tested = set()
    for fn in ("process_event_queue", "_run_handlers"):
        f = repo.func(EV, EM + "." + fn)
        for x in ast.walk(f.node):
            if isinstance(x, ast.Compare) and len(x.ops) == 1 and isinstance(x.ops[0], ast.Eq) \
                    and isinstance(x.comparators[0], ast.Constant) and isinstance(x.comparators[0].value, str) \
                    and ("type" in src(x.left)):
                tested.add(x.comparators[0].value)
                chk.ob("TABLE-0", "dispatcher tests a type token that the posting API produces (%r)" % x.comparators[0].value,
                       x.comparators[0].value in want.values(), f.where(x), construct=f.ident,
                       text="tested token %r" % x.comparators[0].value)
    chk.ob("TABLE-0", "every special event type is tested by the dispatcher", {"queue", "relay", "boolean"} <= tested,
           repo.func(EV, EM + ".process_event_queue").where(), detail="tested: %s" % sorted(tested),
           construct=EV + "::dispatcher", text="tokens tested")
    # namedtuple index agreement
    fields = {}
    for name in ("PostedEvent", "RegisteredHandler"):
        v = m.globals.get(name)
        chk.require(isinstance(v, ast.Call) and len(v.args) >= 2, "C02: namedtuple %s vanished" % name)
        try:
            fields[name] = list(ast.literal_eval(v.args[1]))
        except Exception:
            raise AnalysisError("C02: namedtuple %s fields not literal" % name)
    f = repo.func(EV, EM + ".process_event_queue")
    KW2FIELD = {"event": "event", "ev_type": "type", "callback": "callback"}
    for c in f.calls():
        if call_attr(c) in ("_process_event", "_process_queue_event"):
            for k in c.keywords:
                v = k.value
                if isinstance(v, ast.Subscript) and isinstance(v.slice, ast.Constant) and isinstance(v.slice.value, int):
                    i = v.slice.value
                    fld = fields["PostedEvent"][i] if i < len(fields["PostedEvent"]) else None
                    want_f = KW2FIELD.get(k.arg, "kwargs" if k.arg is None else None)
                    chk.ob("TABLE-0", "PostedEvent[%d] is passed as %s" % (i, k.arg or "**kwargs"), fld == want_f, f.where(v),
                           detail="field %d is %r" % (i, fld), construct=f.ident, text="index %d as %s" % (i, k.arg))
                elif isinstance(v, ast.Attribute):
                    want_f = KW2FIELD.get(k.arg, "kwargs" if k.arg is None else None)
                    chk.ob("TABLE-0", "PostedEvent.%s is passed as %s" % (v.attr, k.arg or "**kwargs"), v.attr == want_f,
                           f.where(v), construct=f.ident, text="attr %s as %s" % (v.attr, k.arg))
    g = repo.func(EV, EM + "._post")
    for c in g.calls():
        if call_attr(c) == "PostedEvent":
            names = [src(a) for a in c.args]
            ok = names == ["event", "ev_type", "callback", "kwargs"][:len(names)] and len(names) == 4
            if c.keywords:
                ok = all(KW2FIELD.get(src(k.value), src(k.value)) == k.arg for k in c.keywords)
            chk.ob("TABLE-0", "PostedEvent is built in field order", ok and fields["PostedEvent"] == ["event", "type", "callback", "kwargs"],
                   g.where(c), detail="fields %s, args %s" % (fields["PostedEvent"], names), construct=g.ident,
                   text="PostedEvent construction")
    h = repo.func(EV, EM + ".add_handler")
    for c in h.calls():
        if call_attr(c) == "RegisteredHandler":
            names = [src(a) for a in c.args]
            wantn = {"callback": "handler", "priority": "priority", "kwargs": "kwargs", "key": "key", "condition": "condition",
                     "blocking_facility": "blocking_facility"}
            ok = len(names) == len(fields["RegisteredHandler"]) and all(
                wantn.get(fld) == a for fld, a in zip(fields["RegisteredHandler"], names))
            chk.ob("TABLE-0", "RegisteredHandler is built in field order", ok, h.where(c),
                   detail="fields %s, args %s" % (fields["RegisteredHandler"], names), construct=h.ident,
                   text="RegisteredHandler construction")
    # indexed reads of handler tuples: [0] callback, [2] kwargs
    for f in em.methods.values():
        for x in ast.walk(f.node):
            if isinstance(x, ast.Compare) and isinstance(x.left, ast.Subscript) and isinstance(x.left.value, ast.Name) \
                    and x.left.value.id in ("rh", "handler_tup", "handler") and isinstance(x.left.slice, ast.Constant):
                i = x.left.slice.value
                rhs = src(x.comparators[0])
                want_f = {"handler": "callback", "method": "callback", "kwargs": "kwargs"}.get(rhs)
                if want_f:
                    fld = fields["RegisteredHandler"][i] if i < len(fields["RegisteredHandler"]) else None
                    chk.ob("TABLE-0", "handler tuple index %d compared with %s" % (i, rhs), fld == want_f, f.where(x),
                           detail="field %d is %r" % (i, fld), construct=f.ident, text="rh[%d] vs %s" % (i, rhs))
    chk.floor("TABLE-0", 14)


# ----------------------------------------------------------------- TYPE-1
def _type1(chk):
    repo = chk.repo
    w = repo.func(EV, "QueuedEvent.wait")
    c = repo.func(EV, "QueuedEvent.clear")
    chk.analysed(w, c)
    cfg = w.cfg()
    sets = [n for n in cfg.nodes_where(lambda n: n.kind == "stmt" and isinstance(n.ast, ast.Assign) and
                                       src(n.ast.targets[0]) == "self.waiter")]
    ok = bool(sets) and all(src(n.ast.value) == "True" and dict(cfg.facts_at(n.id)).get("self.waiter") is False for n in sets)
    chk.ob("TYPE-1", "QueuedEvent.wait registers the wait and refuses a double wait", ok, w.where(), construct=w.ident,
           text="wait typestate")
    wp = cfg.must_pass(cfg.entry.id, [n.id for n in sets])
    chk.ob("TYPE-1", "QueuedEvent.wait always ends with the wait registered", wp is None, w.where(), construct=w.ident,
           text="wait sets flag")
    cfg = c.cfg()
    sets = [n for n in cfg.nodes_where(lambda n: n.kind == "stmt" and isinstance(n.ast, ast.Assign) and
                                       src(n.ast.targets[0]) == "self.waiter")]
    ok = bool(sets) and all(src(n.ast.value) == "False" and dict(cfg.facts_at(n.id)).get("self.waiter") is True for n in sets)
    chk.ob("TYPE-1", "QueuedEvent.clear releases the wait and refuses a clear without wait", ok, c.where(), construct=c.ident,
           text="clear typestate")
    ev = [(n, cc) for n, cc in cfg.calls_named("set") if src(cc.func.value) == "self.event"]
    ok = bool(ev) and all(dict(cfg.facts_at(n.id)).get("self.event") is True for n, cc in ev)
    # every path on which an event exists sets it
    tests = [b for b in cfg.nodes if b.kind == "branch" and src(b.ast) == "self.event" and b.value is True]
    wpath = None
    for b in tests:
        wpath = wpath or cfg.must_pass(b.id, [n.id for n, _ in ev])
    chk.ob("TYPE-1", "clear wakes the sequential dispatcher (event.set) whenever one is waiting", ok and wpath is None and bool(tests),
           c.where(), construct=c.ident, text="event set on clear")
    # the flag is released before the event is set (dispatcher re-checks waiter)
    if sets and ev:
        chk.ob("TYPE-1", "flag released before the dispatcher is woken", cfg.dominates(sets[0].id, ev[0][0].id), c.where(),
               construct=c.ident, text="order flag/event")


def battery():
    from sa.battery import M
    E = EV
    MC = "mpf/core/mode_controller.py"
    G = "mpf/modes/game/code/game.py"
    return [
        M("early completion falls through to the normal completion", EV, "            if callback:\n                callback(**kwargs)\n            return\n\n        # Now let's call", "            if callback:\n                callback(**kwargs)\n\n        # Now let's call", "DOM-4"),
        M("relay player keeps the waits it released", "mpf/config_players/queue_relay_player.py", "            queue.clear()\n\n        self._reset_instance_dict(context)\n", "            queue.clear()\n", "PAIR-2"),
        M("stop callbacks removed from the list while it is walked", "mpf/core/mode.py", "        for callback in self.stop_callbacks:\n            callback()\n\n        self.stop_callbacks = []\n", "        for callback in self.stop_callbacks:\n            self.stop_callbacks.remove(callback)\n            callback()\n", ("ITERMUT-0", "PAIR-2")),
        M("handler list re-sorted only when the raw priority says so", EV, "        if len(self.registered_handlers[event]) > 1:\n            self.registered_handlers[event].sort(key=lambda x: x.priority, reverse=True)", "        if len(self.registered_handlers[event]) > 1 and self.registered_handlers[event][-2].priority < priority:\n            self.registered_handlers[event].sort(key=lambda x: x.priority, reverse=True)", "SORT-1"),
        M("queue runner returns without completion when the handlers vanished", EV, "        if event not in self.registered_handlers:\n            if callback:\n                callback(**kwargs)\n            return\n\n        # Now let's call the handlers one-by-one, including any kwargs\n        for handler in self.registered_handlers[event][:]:\n            # use slice above so we don't process new handlers that came\n            # in while we were processing previous handlers\n\n            # merge the post's kwargs with the registered handler's kwargs\n            # in case of conflict, handlers kwargs will win\n            merged_kwargs = dict(list(kwargs.items()) + list(handler.kwargs.items()))", "        if event not in self.registered_handlers:\n            return\n\n        # Now let's call the handlers one-by-one, including any kwargs\n        for handler in self.registered_handlers[event][:]:\n            # use slice above so we don't process new handlers that came\n            # in while we were processing previous handlers\n\n            # merge the post's kwargs with the registered handler's kwargs\n            # in case of conflict, handlers kwargs will win\n            merged_kwargs = dict(list(kwargs.items()) + list(handler.kwargs.items()))", "DOM-4"),
        M("twin: queue runner walks an empty list when the handlers vanished", EV, "        if event not in self.registered_handlers:\n            if callback:\n                callback(**kwargs)\n            return\n\n        # Now let's call the handlers one-by-one, including any kwargs\n        for handler in self.registered_handlers[event][:]:\n            # use slice above so we don't process new handlers that came\n            # in while we were processing previous handlers\n\n            # merge the post's kwargs with the registered handler's kwargs\n            # in case of conflict, handlers kwargs will win\n            merged_kwargs = dict(list(kwargs.items()) + list(handler.kwargs.items()))", "        for handler in self.registered_handlers.get(event, [])[:]:\n            merged_kwargs = dict(list(kwargs.items()) + list(handler.kwargs.items()))", None),
        M("Mode.start forwards queue again", "mpf/core/mode.py", "callback=self._started, **starting_kwargs)", "callback=self._started, **kwargs)", "FLOW-2"),
        M("handler forwards kwargs into queue event", "mpf/devices/ball_hold.py", "    def _hold_ball(", "    def _hold_ball_x(self, **kwargs):\n        self.machine.events.post_queue('x', callback=None, **kwargs)\n\n    def _hold_ball(", "FLOW-2"),
        M("done-callback skips clear when cancelled", E, "        except asyncio.CancelledError:\n            pass\n        queue.clear()", "        except asyncio.CancelledError:\n            return\n        queue.clear()", "PAIR-1"),
        M("task before wait", E, "        queue.wait()\n        task = asyncio.create_task(_coroutine(**kwargs))", "        task = asyncio.create_task(_coroutine(**kwargs))\n        queue.wait()", "PAIR-1"),
        M("await moved after loop", E, "            if queue.waiter:\n                queue.event = asyncio.Event()\n                await queue.event.wait()\n\n        if self._debug:", "        if queue.waiter:\n            queue.event = asyncio.Event()\n            await queue.event.wait()\n\n        if self._debug:", "DOM-4"),
        M("no await on wait", E, "            if queue.waiter:\n                queue.event = asyncio.Event()\n                await queue.event.wait()\n", "            if queue.waiter:\n                queue.event = asyncio.Event()\n", "DOM-4"),
        M("shared queue for all handlers", E, "            try:\n                queue = merged_kwargs.pop('queue')\n            except KeyError:\n                queue = QueuedEvent(self.debug_log)\n", "            queue = merged_kwargs.pop('queue', shared_queue)\n", "DOM-4"),
        M("relay update for any type", E, "            if ev_type == 'relay' and isinstance(result, dict):", "            if isinstance(result, dict):", "DOM-5"),
        M("boolean break on falsy", E, "            if ev_type == 'boolean' and result is False:", "            if ev_type == 'boolean' and not result:", "DOM-5"),
        M("boolean never breaks", E, "                    self.debug_log(\"Aborting future event processing\")\n                break", "                    self.debug_log(\"Aborting future event processing\")", "DOM-5"),
        M("relay handlers get a copy", E, "result = self._run_handlers(event, ev_type, kwargs)", "result = self._run_handlers(event, ev_type, dict(kwargs))", "DOM-5"),
        M("ball_ending never cleared without modes", MC, "        if not self.mode_stop_count:\n            self.queue.clear()\n\n    def _mode_stopped_callback", "    def _mode_stopped_callback", "PAIR-2"),
        M("mode stop not counted", MC, "                self.mode_stop_count += 1\n", "", "PAIR-2"),
        M("game end waits unconditionally", G, "        if self._stopping_modes:\n            queue.wait()\n            self._stopping_queue = queue", "        queue.wait()\n        self._stopping_queue = queue", "PAIR-2"),
        M("game end queue not stored", G, "            queue.wait()\n            self._stopping_queue = queue", "            queue.wait()", "PAIR-2"),
        M("wait queue never cleared", "mpf/core/mode.py", "            self._mode_start_wait_queue.clear()\n", "", "PAIR-2"),
        M("wait queue cleared but kept", "mpf/core/mode.py", "            self._mode_start_wait_queue.clear()\n            self._mode_start_wait_queue = None", "            self._mode_start_wait_queue.clear()", "PAIR-2"),
        M("post_relay posts as queue", E, "self._post(event, 'relay', callback, **kwargs)", "self._post(event, 'queue', callback, **kwargs)", "TABLE-0"),
        M("dispatcher tests wrong token", E, "if event.type == \"queue\":", "if event.type == \"queued\":", "TABLE-0"),
        M("namedtuple field order swapped", E, "namedtuple(\"PostedEvent\", [\"event\", \"type\", \"callback\", \"kwargs\"])", "namedtuple(\"PostedEvent\", [\"event\", \"callback\", \"type\", \"kwargs\"])", "TABLE-0"),
        M("double wait allowed", E, "        if self.waiter:\n            raise AssertionError(\"Double lock\")\n", "", "TYPE-1"),
        M("clear does not wake", E, "        if self.event:\n            self.event.set()", "        if self.event:\n            pass", "TYPE-1"),
        # twins
        M("twin: pop queue before forwarding", "mpf/core/mode.py", "        starting_kwargs = {key: value for key, value in kwargs.items() if key != 'queue'}", "        starting_kwargs = dict(kwargs)\n        starting_kwargs.pop('queue', None)", None),
        M("twin: waiter test via local", E, "            if queue.waiter:\n                queue.event = asyncio.Event()\n                await queue.event.wait()", "            if queue.waiter:\n                queue.event = asyncio.Event()\n                released = queue.event\n                await queue.event.wait()", None),
        M("twin: reordered independent stmts", G, "        self._stopping_modes.remove(mode)\n        if not self._stopping_modes:\n            self._stopping_queue.clear()\n            self._stopping_queue = None", "        self._stopping_modes.remove(mode)\n        if not self._stopping_modes:\n            q = self._stopping_queue\n            self._stopping_queue.clear()\n            self._stopping_queue = None", None),
        M("wait ignored when the event has no callback", EV, "            if queue.waiter:\n                queue.event = asyncio.Event()", "            if queue.waiter and callback:\n                queue.event = asyncio.Event()", "DOM-4"),
        M("starting event re-posted with the stored start kwargs", "mpf/core/mode.py", "callback=self._started, **starting_kwargs)", "callback=self._started, **self.start_event_kwargs)", "FLOW-2"),
        M("relay wait's handler removed by method (drops every other outstanding relay)", "mpf/config_players/queue_relay_player.py", "        self.machine.events.remove_handler_by_key(instance_dict[queue])\n        del instance_dict[queue]", "        self.machine.events.remove_handler(self._callback)\n        del instance_dict[queue]", "PAIR-2"),
        M("relay callback keeps its registration record", "mpf/config_players/queue_relay_player.py", "        self.machine.events.remove_handler_by_key(instance_dict[queue])\n        del instance_dict[queue]\n", "        self.machine.events.remove_handler_by_key(instance_dict[queue])\n", "PAIR-2"),
        M("game stop does not wait for a mode that is already stopping", G, "            if mode.is_game_mode and mode.active:\n                self._stopping_modes.append(mode)", "            if mode.is_game_mode and mode.active and not mode.stopping:\n                self._stopping_modes.append(mode)", "PAIR-2"),
        M("ball end does not wait for a mode that is already stopping", MC, "            if mode.auto_stop_on_ball_end:\n", "            if mode.auto_stop_on_ball_end and not mode.stopping:\n", "PAIR-2"),
        M("twin: game stop loop with an early continue", G, "            if mode.is_game_mode and mode.active:\n                self._stopping_modes.append(mode)\n                mode.stop(callback=partial(self._game_mode_stopped, mode=mode))", "            if not mode.is_game_mode or not mode.active:\n                continue\n            self._stopping_modes.append(mode)\n            mode.stop(callback=partial(self._game_mode_stopped, mode=mode))", None),
        M("game mode asked to stop before it is noted as awaited", G, "                self._stopping_modes.append(mode)\n                mode.stop(callback=partial(self._game_mode_stopped, mode=mode))", "                mode.stop(callback=partial(self._game_mode_stopped, mode=mode))\n                self._stopping_modes.append(mode)", "PAIR-2"),
        M("queue event aborted by a handler returning False", E, "            handler.callback(queue=queue, **merged_kwargs)\n", "            result = handler.callback(queue=queue, **merged_kwargs)\n            if result is False:\n                break\n", "DOM-4"),
        M("merge fast path decided by a stale flag", E, "        result = None\n        for handler in self.registered_handlers[event][:]:", "        result = None\n        has_kwargs = bool(kwargs)\n        for handler in self.registered_handlers[event][:]:", "FLOW-1", also=[(E, "            if handler.kwargs and kwargs:", "            if handler.kwargs and has_kwargs:")]),
        M("refused start waits on its queue", "mpf/core/mode.py", "        if self.config['mode']['game_mode'] and not (self.machine.game and self.player):", "        if self.config['mode']['use_wait_queue'] and 'queue' in kwargs:\n            self._mode_start_wait_queue = kwargs['queue']\n            self._mode_start_wait_queue.wait()\n\n        if self.config['mode']['game_mode'] and not (self.machine.game and self.player):", "PAIR-2"),
        M("replace_handler registers at the default priority", EV, "        return self.add_handler(event, handler, priority, **kwargs)", "        return self.add_handler(event, handler, **kwargs)", "FLOW-1"),
    ]


def thorough(chk):
    from sa.battery import run_battery
    run_battery(chk, battery())
