"""C10 — hardware switch-to-coil rules match the enabled devices (structural clauses).

PAIR-11 every installed rule's handle is stored where disable() finds and clears it; the controller's HardwareRule keeps
        every resource the setter created and clear_hw_rule releases all of them
FLAG-2  enable/disable flag protocol; nothing acts (or re-arms itself) while disabled
OWN-12  who may install / clear rules
TABLE-1 default control events; every X_events key of a device section has an event_X method
DOM-20  a tilt ends the ball
"""
import ast

from sa.model import src, short, dotted, call_attr, kwarg, walk_local, AnalysisError, const_value
from sa import yamlmini
from sa.index import get_index

FL = "mpf/devices/flipper.py"
AF = "mpf/devices/autofire.py"
KB = "mpf/devices/kickback.py"
PC = "mpf/core/platform_controller.py"
RULES = ["set_pulse_on_hit_rule", "set_delayed_pulse_on_hit_rule", "set_pulse_on_hit_and_release_rule",
         "set_pulse_on_hit_and_enable_and_release_rule", "set_pulse_on_hit_and_release_and_disable_rule",
         "set_pulse_on_hit_and_enable_and_release_and_disable_rule"]


def check(chk):
    repo = chk.repo
    idx = get_index(repo)
    chk.explanation = ("C10: every rule handle returned by the platform controller is stored and cleared by disable(); the "
                       "controller stores and releases every resource of a rule; enable/disable flag protocol and no action "
                       "while disabled; who-may-call for rule setters; default enable/disable events in the config spec and "
                       "existence of event_X for every X_events key; tilt ends the ball. Equality of the installed rule set "
                       "with the enabled set over histories is not decided.")
    fl = repo.cls(FL, "Flipper")
    af = repo.cls(AF, "AutofireCoil")

    # ------------------------------------------------------------ PAIR-11 (devices)
    n_rule = 0
    for c in (fl, af):
        for f in c.methods.values():
            cfg = None
            for call in f.calls():
                if call_attr(call) in RULES and (dotted(call.func.value) or "").endswith("platform_controller"):
                    cfg = cfg or f.cfg()
                    chk.analysed(f)
                    n_rule += 1
                    par = _parent(f.node, call)
                    stored = None
                    if isinstance(par, ast.Assign):
                        t = par.targets[0]
                        if isinstance(t, ast.Attribute) and dotted(t.value) == "self":
                            stored = "self." + t.attr
                        elif isinstance(t, ast.Name):
                            for x in walk_local(f.node):
                                if isinstance(x, ast.Call) and call_attr(x) == "append" and x.args and src(x.args[0]) == t.id and \
                                        (dotted(x.func.value) or "").startswith("self."):
                                    # the append must follow on every path
                                    an = [n for n in cfg.nodes if n.kind != "branch" and any(y is x for y in n.calls())]
                                    sn = [n for n in cfg.nodes if n.kind == "stmt" and n.ast is par]
                                    if an and sn and cfg.must_pass(sn[0].id, [a.id for a in an]) is None:
                                        stored = dotted(x.func.value)
                    elif isinstance(par, ast.Call) and call_attr(par) == "append" and (dotted(par.func.value) or "").startswith("self."):
                        stored = dotted(par.func.value)
                    chk.ob("PAIR-11", "%s.%s keeps the handle of the rule it installs (%s)" % (c.name, f.name, call_attr(call)), stored is not None,
                           f.where(call), detail="a rule whose handle is dropped can never be cleared", construct=f.ident,
                           text="rule handle dropped in %s.%s" % (c.name, f.name))
                    if stored:
                        want = "self._active_rules" if c is fl else "self._rule"
                        chk.ob("PAIR-11", "the handle goes where %s.disable looks for it (%s)" % (c.name, want), stored == want, f.where(call),
                               detail="stored in " + stored, construct=f.ident, text="rule handle stored in " + stored)
    chk.need(n_rule >= 7, "PAIR-11", "flippers / autofires install their rules through the platform controller", repo.func(FL, "Flipper.enable"), "found %d of 7 installation sites" % n_rule)
    f = fl.methods["disable"]
    chk.analysed(f)
    cfg = f.cfg()
    loops = [h for h in cfg.nodes if h.kind == "loop" and src(h.ast.iter) in ("self._active_rules", "list(self._active_rules)", "self._active_rules[:]")]
    ok = bool(loops) and any(call_attr(c) == "clear_hw_rule" and src(c.args[0]) == src(loops[0].ast.target) for st in loops[0].ast.body for c in ast.walk(st)
                             if isinstance(c, ast.Call))
    chk.ob("PAIR-11", "Flipper.disable clears every stored rule", ok, f.where(), construct=f.ident, text="flipper clears rules")
    rs = [n for n in cfg.nodes_where(lambda n: n.kind == "stmt" and isinstance(n.ast, ast.Assign) and src(n.ast.targets[0]) == "self._active_rules")]
    ok = bool(rs) and bool(loops) and src(rs[0].ast.value) in ("[]", "list()") and cfg.dominates(loops[0].id, rs[0].id)
    chk.ob("PAIR-11", "Flipper.disable forgets the handles after clearing them", ok, f.where(), construct=f.ident, text="flipper resets list")
    f = af.methods["disable"]
    chk.analysed(f)
    cfg = f.cfg()
    cl = [(n, c) for n, c in cfg.calls_named("clear_hw_rule")]
    ok = bool(cl) and all(src(c.args[0]) == "self._rule" for n, c in cl)
    chk.ob("PAIR-11", "AutofireCoil.disable clears the stored rule", ok, f.where(), construct=f.ident, text="autofire clears rule")
    # both branches of AutofireCoil.enable install exactly one rule
    f = af.methods["enable"]
    cfg = f.cfg()
    inst = [n for n in cfg.nodes_where(lambda n: n.kind == "stmt" and isinstance(n.ast, ast.Assign) and src(n.ast.targets[0]) == "self._rule")]
    setf = [n for n in cfg.nodes_where(lambda n: n.kind == "stmt" and isinstance(n.ast, ast.Assign) and src(n.ast.targets[0]) == "self._enabled"
                                       and src(n.ast.value) == "True")]
    ok = bool(setf) and bool(inst) and cfg.must_pass(setf[0].id, [n.id for n in inst]) is None
    chk.ob("PAIR-11", "an enabled autofire always has its rule installed", ok, f.where(), construct=f.ident, text="autofire installs on every path")

    # ------------------------------------------------------------ PAIR-11 (controller)
    pc = repo.cls(PC, "PlatformController")
    for r in RULES:
        f = pc.methods.get(r)
        chk.require(f is not None, "C10: PlatformController.%s vanished" % r)
        chk.analysed(f)
        rets = [x for x in walk_local(f.node) if isinstance(x, ast.Return) and isinstance(x.value, ast.Call) and call_attr(x.value) == "HardwareRule"]
        chk.ob("PAIR-11", "%s returns a HardwareRule" % r, len(rets) == 1, f.where(), construct=f.ident, text="returns HardwareRule")
        if len(rets) != 1:
            continue
        hr = rets[0].value
        kw = {k.arg: k.value for k in hr.keywords}
        sws = [src(e) for e in kw["switch_settings"].elts] if isinstance(kw.get("switch_settings"), ast.List) else []
        # every switch configured in this setter is in the rule (so clear_hw_rule clears it on the platform)
        conf = [src(x.targets[0]) for x in walk_local(f.node) if isinstance(x, ast.Assign) and isinstance(x.value, ast.Call) and
                call_attr(x.value) == "_get_configured_switch"]
        chk.ob("PAIR-11", "%s: the HardwareRule lists every switch the platform rule uses" % r, sorted(sws) == sorted(conf) and bool(conf), f.where(hr),
               detail="configured %s, stored %s" % (conf, sws), construct=f.ident, text="rule switches %s vs %s" % (conf, sws))
        ok = src(kw.get("driver_settings")) == "driver_settings" and src(kw.get("platform")) == "platform" and src(kw.get("switch_key")) == "switch_key"
        chk.ob("PAIR-11", "%s: the HardwareRule keeps platform, driver settings and the PSU switch-handler key" % r, ok, f.where(hr), construct=f.ident,
               text="rule fields")
        has_sw = any(isinstance(x, ast.Assign) and "software_eos_handler" in src(x.targets[0]) for x in walk_local(f.node))
        ok = src(kw.get("software_rule_handler")) == ("software_eos_handler" if has_sw else "None")
        chk.ob("PAIR-11", "%s: a software EOS handler created for the rule is stored in it" % r, ok, f.where(hr), construct=f.ident,
               text="software handler stored")
        # the platform call uses the same settings objects
        pcs = [c for c in f.calls() if call_attr(c) == r and dotted(c.func.value) == "platform"]
        ok = len(pcs) == 1 and all(s in [src(a) for a in pcs[0].args] for s in conf + ["driver_settings"])
        chk.ob("PAIR-11", "%s installs the platform rule with those very switches and driver settings" % r, ok, f.where(), construct=f.ident,
               text="platform call args")
    f = pc.methods["clear_hw_rule"]
    chk.analysed(f)
    cfg = f.cfg()
    loops = [h for h in cfg.nodes if h.kind == "loop" and src(h.ast.iter) == "rule.switch_settings"]
    ok = bool(loops) and any(call_attr(c) == "clear_hw_rule" and [src(a) for a in c.args] == [src(loops[0].ast.target), "rule.driver_settings"]
                             for st in loops[0].ast.body for c in ast.walk(st) if isinstance(c, ast.Call))
    chk.ob("PAIR-11", "clear_hw_rule clears the platform rule of every switch of the rule", ok, f.where(), construct=f.ident, text="clear loop")
    rm = [(n, c) for n, c in cfg.calls_named("remove_switch_handler_by_key")]
    ok = bool(rm) and all(src(c.args[0]) == "rule.switch_key" and cfg.guards_at(n.id) == {"rule.switch_key": True} for n, c in rm)
    chk.ob("PAIR-11", "clear_hw_rule removes the PSU switch handler when one was registered", ok, f.where(), construct=f.ident, text="switch key removed")
    sp = [(n, c) for n, c in cfg.calls_named("stop")]
    ok = bool(sp) and all(src(c.func.value) == "rule.software_rule_handler" and cfg.guards_at(n.id) == {"rule.software_rule_handler": True} for n, c in sp)
    chk.ob("PAIR-11", "clear_hw_rule stops a software EOS handler when one exists", ok, f.where(), construct=f.ident, text="software handler stopped")
    se = repo.cls(PC, "SoftwareEosRepulseManager")
    st = se.methods["stop"]
    ok = any(call_attr(c) == "remove_switch_handler_by_keys" and src(c.args[0]) == "self._handlers" for c in st.calls())
    init = se.methods["__init__"]
    adds = [c for c in init.calls() if call_attr(c) in ("add_switch_handler", "add_switch_handler_obj")]
    stored = [x for x in ast.walk(init.node) if isinstance(x, ast.Call) and call_attr(x) == "append" and src(x.func.value) == "self._handlers"]
    chk.ob("PAIR-11", "the software EOS manager keeps the keys of all its switch handlers and removes them on stop", ok and bool(adds) and
           (len(stored) >= len(adds) or any(isinstance(x, ast.Assign) and src(x.targets[0]) == "self._handlers" and len(getattr(x.value, "elts", [])) >= len(adds)
                                            for x in walk_local(init.node))), st.where(), detail="%d handlers, %d stored" % (len(adds), len(stored)),
           construct=se.ident, text="software eos handlers")
    chk.floor("PAIR-11", 24)

    # ------------------------------------------------------------ FLAG-2
    for c, nm in ((fl, "Flipper"), (af, "AutofireCoil")):
        f = c.methods["enable"]
        cfg = f.cfg()
        setf = [n for n in cfg.nodes_where(lambda n: n.kind == "stmt" and isinstance(n.ast, ast.Assign) and src(n.ast.targets[0]) == "self._enabled"
                                           and src(n.ast.value) == "True")]
        ok = len(setf) == 1 and cfg.guards_at(setf[0].id).get("self._enabled") is False
        chk.ob("FLAG-2", "%s.enable does nothing when already enabled (each rule installed once)" % nm, ok, f.where(), construct=f.ident,
               text="enable guard " + nm)
        rules = [n for n in cfg.nodes_where(lambda n: n.kind != "branch") if any(call_attr(x) in RULES or (call_attr(x) or "").startswith("_enable_")
                                                                                for x in n.calls())]
        ok = bool(setf) and bool(rules) and all(cfg.dominates(setf[0].id, r.id) for r in rules)
        chk.ob("FLAG-2", "%s.enable sets the flag before installing rules" % nm, ok, f.where(), construct=f.ident, text="flag before rules " + nm)
        f = c.methods["disable"]
        cfg = f.cfg()
        clrf = [n for n in cfg.nodes_where(lambda n: n.kind == "stmt" and isinstance(n.ast, ast.Assign) and src(n.ast.targets[0]) == "self._enabled"
                                           and src(n.ast.value) == "False")]
        clears = [n for n, cc in cfg.calls_named("clear_hw_rule")]
        ok = len(clrf) == 1 and all(cfg.guards_at(n.id).get("self._enabled") is True or cfg.guards_at(n.id).get("not self._enabled") is False
                                    for n in clrf + clears)
        chk.ob("FLAG-2", "%s.disable clears rules and the flag only when enabled" % nm, ok and bool(clears), f.where(), construct=f.ident,
               text="disable guard " + nm)
        w = None
        en = [b for b in cfg.nodes if b.kind == "branch" and src(b.ast) == "self._enabled" and ((b.value is True) if True else False)]
        # every path of an enabled device through disable() clears the rules and the flag
        starts = [b.id for b in cfg.nodes if b.kind == "branch" and ((src(b.ast) == "self._enabled" and b.value is True))]
        # a loop that clears each rule counts by its header (zero rules = nothing to clear)
        lp = [h.id for h in cfg.nodes if h.kind == "loop" and any(call_attr(x) == "clear_hw_rule" for st in h.ast.body for x in ast.walk(st)
                                                                  if isinstance(x, ast.Call))]
        for s_ in starts:
            w = w or cfg.must_pass(s_, [n.id for n in clrf]) or cfg.must_pass(s_, [n.id for n in clears] + lp)
        chk.ob("FLAG-2", "%s.disable of an enabled device always removes its rules and clears the flag" % nm, bool(starts) and w is None, f.where(),
               construct=f.ident, text="disable completes " + nm)
    # flipper software flip
    f = fl.methods["sw_flip"]
    cfg = f.cfg()
    acts = [(n, c) for n, c in cfg.calls_named("pulse", "enable") if "self.config[" in src(c.func.value)]
    ok = bool(acts) and all(cfg.guards_at(n.id).get("self._enabled") is True or cfg.guards_at(n.id).get("not self._enabled") is False for n, c in acts)
    chk.ob("FLAG-2", "a software flip energises coils only while the flipper is enabled", ok, f.where(), construct=f.ident, text="sw_flip guard")
    mk = [n for n in cfg.nodes_where(lambda n: n.kind == "stmt" and isinstance(n.ast, ast.Assign) and src(n.ast.targets[0]) == "self._sw_flipped")]
    ok = bool(mk) and all(any(cfg.dominates(m.id, n.id) for m in mk) for n, c in acts)
    chk.ob("FLAG-2", "a software flip is remembered before coils are energised", ok, f.where(), construct=f.ident, text="sw_flipped mark")
    f = fl.methods["disable"]
    cfg = f.cfg()
    rel = [(n, c) for n, c in cfg.calls_named("sw_release")]
    ok = bool(rel) and all(cfg.guards_at(n.id).get("self._sw_flipped") is True for n, c in rel)
    chk.ob("FLAG-2", "disabling a software-flipped flipper releases its coils", ok, f.where(), construct=f.ident, text="disable releases")
    f = fl.methods["sw_release"]
    calls = [(src(c.func.value), call_attr(c)) for c in f.calls() if call_attr(c) == "disable"]
    ok = ("self.config['main_coil']", "disable") in calls and ("self.config['hold_coil']", "disable") in calls
    chk.ob("FLAG-2", "sw_release switches off main and hold coil", ok, f.where(), construct=f.ident, text="sw_release coils")
    rcfg = f.cfg()
    main_off = [n.id for n, c in rcfg.calls_named("disable") if src(c.func.value) == "self.config['main_coil']"]
    w = rcfg.must_pass(rcfg.entry.id, main_off) if main_off else [rcfg.entry.id]
    chk.ob("FLAG-2", "every returning path of sw_release switches the main coil off (whatever the button or the enabled flag say)", w is None,
           f.where(), construct=f.ident,
           detail="disable() removes the hardware rules first and then relies on sw_release: if that returns early while the cabinet button "
                  "is held, nothing is left that will ever release the coil",
           text="sw_release main coil off on every path", path=rcfg.fmt_path(w, f) if w and len(w) > 1 else None, nontrivial=True)
    hold_off = [n for n, c in rcfg.calls_named("disable") if src(c.func.value) == "self.config['hold_coil']"]
    from sa.cfg import canon_set as _cs
    ok = bool(hold_off) and all(set(_cs(rcfg.guards_at(n.id))) <= set(_cs({"self.config['hold_coil']": True})) for n in hold_off)
    chk.ob("FLAG-2", "sw_release switches the hold coil off whenever there is one", ok, f.where(), construct=f.ident, text="sw_release hold coil guard")
    clr = [n.id for n in rcfg.nodes if n.kind == "stmt" and isinstance(n.ast, ast.Assign) and src(n.ast.targets[0]) == "self._sw_flipped" and
           src(n.ast.value) == "False"]
    w = rcfg.must_pass(rcfg.entry.id, clr) if clr else [rcfg.entry.id]
    chk.ob("FLAG-2", "every returning path of sw_release forgets the software flip", w is None, f.where(), construct=f.ident, text="sw_release clears the mark")
    # autofire: a hit on a disabled device has no effect (no counting, no self re-enable)
    for c, rel in ((af, AF), (repo.cls(KB, "Kickback"), KB)):
        f = c.methods["_hit"]
        chk.analysed(f)
        cfg = f.cfg()
        effects = []
        for n in cfg.nodes_where(lambda n: n.kind != "branch"):
            for x in n.calls():
                nm = call_attr(x)
                if nm in ("disable", "enable", "post") or (nm in ("add", "reset", "add_if_doesnt_exist") and "delay" in src(x.func.value)) or \
                        (nm == "append" and "_timeout_hits" in src(x.func.value)) or nm == "mark_playfield_active_from_device_action":
                    effects.append((n, nm))
        chk.ob("FLAG-2", "%s._hit has effects" % c.name, bool(effects), f.where(), construct=f.ident, text="hit effects")
        for n, nm in effects:
            g = cfg.guards_at(n.id)
            ok = g.get("self._enabled") is True or g.get("not self._enabled") is False
            chk.ob("FLAG-2", "%s._hit: `%s` happens only while the device is enabled" % (c.name, nm), ok, f.where(n.ast),
                   detail="a disabled device that counts hits re-enables itself through the timeout delay: a rule appears with no game running",
                   construct=f.ident, text="hit effect %s while disabled" % nm)
    f = af.methods["_hit"]
    cfg = f.cfg()
    re_ = [(n, c) for n, c in cfg.calls_named("add") if "delay" in src(c.func.value) and "self.enable" in src(c)]
    dis = [n for n, c in cfg.calls_named("disable") if dotted(c.func.value) == "self"]
    ok = bool(re_) and bool(dis) and all(cfg.dominates(d.id, n.id) for d in dis for n, c in re_)
    chk.ob("FLAG-2", "the timeout disables first and re-enables later through a named delay", ok, f.where(), construct=f.ident, text="timeout order")
    nm_ = [src(c.args[2]) if len(c.args) > 2 else src(kwarg(c, "name")) for n, c in re_]
    f = af.methods["disable"]
    cfg = f.cfg()
    rm = [n.id for n, c in cfg.calls_named("remove") if "delay" in src(c.func.value) and nm_ and nm_[0].strip("'\"") in src(c)]
    w = cfg.must_pass(cfg.entry.id, rm)
    chk.ob("FLAG-2", "every disable (also of an already disabled device) cancels a pending timeout re-enable", bool(rm) and w is None, f.where(),
           path=cfg.fmt_path(w, AF) if w else None, construct=f.ident, text="disable cancels re-enable")
    chk.floor("FLAG-2", 13)

    # ------------------------------------------------------------ OWN-12
    allowed = {FL, AF}
    n_own = 0
    for r in RULES + ["clear_hw_rule"]:
        for u in idx.uses(r):
            if u.call is None:
                continue
            if not (u.recv_text or "").endswith("platform_controller"):
                continue
            n_own += 1
            chk.ob("OWN-12", "hardware rules are installed / cleared through the controller only by flippers and autofires (%s)" % u.scope,
                   u.relpath in allowed, u.where(), construct=u.ident, text="%s in %s" % (r, u.scope))
    chk.expect(n_own >= 9, "C10: controller call sites lost (%d)" % n_own)

    # ------------------------------------------------------------ TABLE-1
    spec = yamlmini.load(repo.read_text("mpf/config_spec.yaml"), "mpf/config_spec.yaml")
    mpfc = yamlmini.load(repo.read_text("mpf/mpfconfig.yaml"), "mpf/mpfconfig.yaml", sections=("mpf",))

    def default(section, key):
        v = spec.get(section, {}).get(key)
        return [x.strip() for x in v.split("|")[2].split(",")] if isinstance(v, str) and v.count("|") == 2 else None
    for sect in ("flippers", "autofire_coils"):
        d = default(sect, "enable_events")
        chk.ob("TABLE-1", "%s are enabled by default exactly when a ball starts" % sect, d == ["ball_started"],
               "mpf/config_spec.yaml:%s" % spec[sect].lines.get("enable_events", 0), detail=str(d), construct="mpf/config_spec.yaml::%s:enable_events" % sect,
               text="%s enable_events %s" % (sect, d))
    for sect in ("flippers", "autofire_coils", "kickbacks"):
        d = default(sect, "disable_events") or []
        ok = "ball_will_end" in d and "service_mode_entered" in d
        chk.ob("TABLE-1", "%s are disabled by default when the ball ends and when service mode is entered" % sect, ok,
               "mpf/config_spec.yaml:%s" % spec[sect].lines.get("disable_events", 0), detail=str(d),
               construct="mpf/config_spec.yaml::%s:disable_events" % sect, text="%s disable_events %s" % (sect, sorted(d)))
    # every *_events key of a device section has an event_* method on the device class
    n_ev = 0
    for sect, path in mpfc["mpf"]["device_modules"].items():
        if sect not in spec or not isinstance(path, str):
            continue
        modname, _, cn = path.rpartition(".")
        m = repo.by_modname.get(modname)
        if m is None or cn not in m.classes:
            continue
        c = m.classes[cn]
        for key, v in spec[sect].items():
            if not (isinstance(v, str) and key.endswith("_events") and key != "control_events" and v.startswith("event_handler|")):
                continue
            n_ev += 1
            meth = repo.lookup_method(c, "event_" + key[:-7])
            chk.ob("TABLE-1", "%s.%s has a handler method event_%s on %s" % (sect, key, key[:-7], cn), meth is not None,
                   "mpf/config_spec.yaml:%s" % spec[sect].lines.get(key, 0), detail="the control event would raise at mode start / boot",
                   construct="mpf/config_spec.yaml::%s:%s" % (sect, key), text="missing event_%s on %s" % (key[:-7], cn))
    chk.expect(n_ev >= 100, "C10: control-event keys lost (%d)" % n_ev)
    # the handlers for enable/disable call enable()/disable()
    for c in (fl, af):
        for ev, tgt in (("event_enable", "enable"), ("event_disable", "disable")):
            f = c.methods[ev]
            ok = [call_attr(x) for x in f.calls() if dotted(getattr(x.func, "value", None)) == "self"] == [tgt] or \
                tgt in [call_attr(x) for x in f.calls() if isinstance(x.func, ast.Attribute) and dotted(x.func.value) == "self"]
            chk.ob("TABLE-1", "%s.%s calls %s()" % (c.name, ev, tgt), ok, f.where(), construct=f.ident, text="%s -> %s" % (ev, tgt))
        chk.ob("TABLE-1", "%s: on the same event disable outranks enable" % c.name,
               (c.methods["event_disable"].node and _prio(c.methods["event_disable"]) > _prio(c.methods["event_enable"])), c.where(),
               detail="priorities disable %s enable %s" % (_prio(c.methods["event_disable"]), _prio(c.methods["event_enable"])), construct=c.ident,
               text="disable/enable priority")

    # ------------------------------------------------------------ DOM-20
    f = repo.func("mpf/modes/tilt/code/tilt.py", "Tilt.tilt")
    chk.analysed(f)
    cfg = f.cfg()
    eb = [n for n, c in cfg.calls_named("end_ball")]
    mark = [n for n in cfg.nodes_where(lambda n: n.kind == "stmt" and isinstance(n.ast, ast.Assign) and src(n.ast.targets[0]) == "self.machine.game.tilted")]
    w = cfg.must_pass(mark[0].id, [n.id for n in eb]) if mark else [0]
    chk.ob("DOM-20", "a tilt always ends the ball (ball_will_end then disables flippers and autofires)", bool(eb) and w is None, f.where(),
           path=cfg.fmt_path(w, "mpf/modes/tilt/code/tilt.py") if w else None, construct=f.ident, text="tilt ends ball")
    ok = any("'tilt'" in src(c) for c in f.calls() if call_attr(c) == "post")
    chk.ob("DOM-20", "a tilt posts the tilt event", ok, f.where(), construct=f.ident, text="tilt event")
    from sa.helpers import game_ended_only_through_its_api
    game_ended_only_through_its_api(chk, "DOM-20")
    # a slam tilt ends the game whatever else is going on: with a game, every path of slam_tilt() marks the game slam tilted (also while a tilt is
    # draining or the game is ending) and goes on to tilt(); the game loop plays no extra ball on a slam tilted machine - otherwise the
    # next ball_started writes the flipper and autofire rules back after the slam tilt
    from sa.cfg import canon_set as _cs10, canon_fact as _cf10
    from sa.helpers import positive as _pos10
    stf = repo.func("mpf/modes/tilt/code/tilt.py", "Tilt.slam_tilt")
    chk.analysed(stf)
    scfg_ = stf.cfg()
    marks_ = [n for n in scfg_.nodes if n.kind == "stmt" and isinstance(n.ast, ast.Assign) and src(n.ast.targets[0]) == "self.machine.game.slam_tilted" and src(n.ast.value) == "True"]
    chk.need(marks_, "DOM-20", "Tilt.slam_tilt marks the game slam tilted", stf)
    for n in marks_:
        got = _pos10(set(_cs10(scfg_.guards_at(n.id))))
        chk.ob("DOM-20", "a slam tilt marks the game slam tilted whenever there is a game (also during a tilt or while the game is ending)", got == _pos10({_cf10("self.machine.game", True)}),
               stf.where(n.ast), detail="marked under %s" % sorted(got), construct=stf.ident, text="slam tilt mark condition")
        tl = [x.id for x, c in scfg_.calls_named("tilt") if dotted(c.func.value) == "self"]
        w_ = scfg_.must_pass(n.id, tl) if tl else [n.id]
        chk.ob("DOM-20", "a slam tilt goes on to tilt the machine", w_ is None, stf.where(n.ast), construct=stf.ident, text="slam tilt tilts")
    grun = repo.func("mpf/modes/game/code/game.py", "Game._run")
    chk.analysed(grun)
    wl_ = [x for x in ast.walk(grun.node) if isinstance(x, ast.While) and any(isinstance(c, ast.Call) and call_attr(c) == "_award_extra_ball" for st in x.body for c in ast.walk(st))]
    chk.need(wl_, "DOM-20", "the game loop plays the player's extra balls", grun)
    wl_ = [min(wl_, key=lambda w_: len(list(ast.walk(w_))))]
    t_ = wl_[0].test
    conj = [src(v).strip("()") for v in t_.values] if isinstance(t_, ast.BoolOp) and isinstance(t_.op, ast.And) else [src(t_).strip("()")]
    chk.ob("DOM-20", "no extra ball is played on a slam tilted machine", "not self.slam_tilted" in conj, grun.where(wl_[0]), detail="loop condition: " + src(t_),
           construct=grun.ident, text="extra ball loop on a slam tilted machine")
    # the tilt switches are armed by every start of the tilt mode: what mode_stop takes away (service mode stops every mode) mode_start puts back
    TL_ = "mpf/modes/tilt/code/tilt.py"
    tcls = repo.cls(TL_, "Tilt")
    reg, rem, mstart, mstop = (tcls.methods.get(k) for k in ("_register_switch_handlers", "_remove_switch_handlers", "mode_start", "mode_stop"))
    chk.need(reg is not None and rem is not None and mstart is not None and mstop is not None, "DOM-20",
             "Tilt has mode_start / mode_stop and the switch handler registration / removal helpers", repo.func(TL_, "Tilt.tilt"))
    chk.analysed(reg, rem, mstart, mstop)
    scfg = mstart.cfg()
    regs = [n.id for n, c in scfg.calls_named("_register_switch_handlers") if dotted(c.func.value) == "self"]
    w = scfg.must_pass(scfg.entry.id, regs) if regs else [scfg.entry.id]
    chk.ob("DOM-20", "every start of the tilt mode registers the tilt switch handlers", w is None, mstart.where(), construct=mstart.ident,
           detail="mode_stop removes them (every visit of the service mode stops and restarts the tilt mode); registered once at boot they are "
                  "gone after the first restart: the machine never tilts again and no rule is removed on a tilt",
           text="tilt switches armed at mode start", path=scfg.fmt_path(w, mstart) if w and len(w) > 1 else None, nontrivial=True)
    others = [m_.qualname for m_ in tcls.methods.values() if m_ is not mstart and any(call_attr(c) == "_register_switch_handlers" for c in m_.calls())]
    chk.ob("DOM-20", "the tilt switch handlers are registered from mode_start only (not twice)", not others, tcls.where(), detail=", ".join(others),
           construct=tcls.ident, text="tilt switch registration sites")

    def _pairs(fn, api):
        out = set()
        for lp in [x for x in walk_local(fn.node) if isinstance(x, ast.For)]:
            tag = [src(y) for y in ast.walk(lp.iter) if isinstance(y, ast.Subscript) and src(y.value) == "self.tilt_config"]
            for c in ast.walk(lp):
                if isinstance(c, ast.Call) and call_attr(c) in api:
                    cb = kwarg(c, "callback")
                    out.add((tag[0] if tag else None, src(cb) if cb is not None else None))
        return out
    pr, pm = _pairs(reg, {"add_switch_handler_obj", "add_switch_handler"}), _pairs(rem, {"remove_switch_handler", "remove_switch_handler_obj"})
    chk.ob("DOM-20", "mode_stop removes exactly the (switch tag, callback) pairs that mode_start registers", pr == pm and len(pr) >= 3, rem.where(),
           detail="registered %s, removed %s" % (sorted(map(str, pr)), sorted(map(str, pm))), construct=rem.ident, text="tilt switch handler pairs")
    # when the tilt is over (settle time passed) the game's tilted flag is cleared - whenever there is a game, whatever else is pending:
    # a flag left set makes tilt() and tilt_warning() return early for the rest of the game (rules stay installed on a tilted machine)
    td = repo.func("mpf/modes/tilt/code/tilt.py", "Tilt._tilt_done")
    chk.analysed(td)
    tcfg = td.cfg()
    clr_ = [n for n in tcfg.nodes if n.kind == "stmt" and isinstance(n.ast, ast.Assign) and src(n.ast.targets[0]) == "self.machine.game.tilted" and src(n.ast.value) == "False"]
    from sa.cfg import canon_set, canon_fact
    from sa.helpers import positive
    ok = len(clr_) == 1 and positive(set(canon_set(tcfg.guards_at(clr_[0].id)))) == positive({canon_fact("self.tilt_settle_ms_remaining", False), canon_fact("self.machine.game", True)})
    chk.ob("DOM-20", "the end of a tilt clears the game's tilted flag whenever a game exists (nothing else decides)", ok, td.where(),
           detail="guards %s" % sorted(tcfg.guards_at(clr_[0].id).items()) if clr_ else "no reset", construct=td.ident, text="tilted flag cleared at tilt end")
    rel = [n for n, c in tcfg.calls_named("clear") if src(c.func.value) == "self.ball_ending_tilted_queue"]
    rmh = [n for n, c in tcfg.calls_named("remove_handlers_by_keys")]
    ok = len(rel) == 1 and len(rmh) == 1 and tcfg.guards_at(rmh[0].id).get("self.tilt_settle_ms_remaining") is False and \
        len([k for k in tcfg.guards_at(rmh[0].id) if "settle" not in k]) == 0
    chk.ob("DOM-20", "the end of a tilt releases a held ball_ending queue and removes the tilt's own event handlers", ok, td.where(), construct=td.ident,
           text="tilt end clean-up")
    # a tilt is ignored while the game says it is already tilted: that flag must not survive a game (the game mode object is reused);
    # every flag of the game that makes tilt() return early is reset at game start, before anything is awaited
    early = set()
    for b in cfg.nodes:
        if b.kind == "branch" and b.value is True and src(b.ast).startswith("self.machine.game.") and any(
                isinstance(cfg.nodes[s_].ast, ast.Return) for s_ in cfg.reachable([b.id], include_start=False) if cfg.nodes[s_].kind == "stmt" and
                cfg.nodes[s_].lineno is not None and cfg.nodes[s_].lineno <= (mark[0].lineno if mark else 10 ** 9)):
            early.add(src(b.ast)[len("self.machine.game."):])
    GMF = "mpf/modes/game/code/game.py"
    run = repo.func(GMF, "Game._run")
    chk.analysed(run)
    rcfg = run.cfg()
    first_await = sorted([n for n in rcfg.nodes if n.kind in ("stmt", "test") and n.has_await()], key=lambda n: n.lineno or 0)
    for attr in sorted(early):
        resets = [n for n in rcfg.nodes if n.kind == "stmt" and isinstance(n.ast, ast.Assign) and src(n.ast.targets[0]) == "self." + attr and src(n.ast.value) == "False"]
        ok = bool(resets) and bool(first_await) and any(rcfg.dominates(n.id, first_await[0].id) for n in resets)
        chk.ob("DOM-20", "the game flag `%s` that makes a tilt be ignored is cleared when a game starts" % attr, ok, run.where(),
               detail="a game stopped while tilted would leave the flag set: every tilt of the next game is ignored, the rules stay installed on a tilted machine",
               construct=run.ident, text="tilt-ignoring flag %s not reset at game start" % attr)
    chk.ob("DOM-20", "flags that make tilt() return early examined", {"tilted", "ending"} <= early, f.where(), detail=str(sorted(early)), nontrivial=False)
    # the tilt ends the ball through game.end_ball(), which raises the end-ball flag; a tilt that arrives while the ball is still starting
    # must not be wiped: the flag is cleared before anything is awaited in _run_ball, and end_ball() raises that very flag
    rb = repo.func(GMF, "Game._run_ball")
    chk.analysed(rb)
    bcfg = rb.cfg()
    clr = [n for n, c in bcfg.calls_named("clear") if src(c.func.value) == "self._end_ball_event"]
    aw = [n for n in bcfg.nodes if n.kind in ("stmt", "test") and n.has_await()]
    ok = len(clr) == 1 and bool(aw) and all(bcfg.dominates(clr[0].id, a.id) for a in aw) and any("_end_ball_event.wait()" in a.text(200) for a in aw)
    chk.ob("DOM-20", "a tilt during ball start is not lost: the end-ball flag is cleared before anything is awaited and then waited for", ok, rb.where(),
           detail="cleared after the start sequence, a tilt that arrived meanwhile is wiped: ball_started installs the rules on a tilted machine", construct=rb.ident,
           text="end flag cleared after an await")
    eb_ = repo.func(GMF, "Game.end_ball")
    ok = any(call_attr(c) == "set" and src(c.func.value) == "self._end_ball_event" for c in eb_.calls())
    chk.ob("DOM-20", "end_ball() raises the flag _run_ball waits for", ok, eb_.where(), construct=eb_.ident, text="end_ball sets flag")


def _prio(f):
    pr = [d for d in f.node.decorator_list if isinstance(d, ast.Call) and call_attr(d) == "event_handler"]
    return const_value(pr[0].args[0]) if pr else -1


def _parent(root, node):
    for x in ast.walk(root):
        for ch in ast.iter_child_nodes(x):
            if ch is node:
                return x
    return None


def battery():
    from sa.battery import M
    Y = "mpf/config_spec.yaml"
    return [
        M("flipper rule handle dropped", FL, "            HoldRuleSettings(power=self._get_hold_power())\n        )\n        self._active_rules.append(rule)\n\n    def _enable_main_coil_pulse_rule", "            HoldRuleSettings(power=self._get_hold_power())\n        )\n\n    def _enable_main_coil_pulse_rule", "PAIR-11"),
        M("flipper disable keeps handles", FL, "        self._active_rules = []\n", "", "PAIR-11"),
        M("flipper disable clears first rule only", FL, "        for rule in self._active_rules:\n            # disable all rules\n            self.machine.platform_controller.clear_hw_rule(rule)", "        for rule in self._active_rules[:1]:\n            # disable all rules\n            self.machine.platform_controller.clear_hw_rule(rule)", "PAIR-11"),
        M("autofire delayed rule not stored", AF, "            self._rule = self.machine.platform_controller.set_delayed_pulse_on_hit_rule(", "            self.machine.platform_controller.set_delayed_pulse_on_hit_rule(", "PAIR-11"),
        M("rule forgets EOS switch", PC, "        return HardwareRule(platform=platform, switch_settings=[enable_settings, disable_settings],\n                            driver_settings=driver_settings, switch_key=switch_key,\n                            software_rule_handler=software_eos_handler)", "        return HardwareRule(platform=platform, switch_settings=[enable_settings],\n                            driver_settings=driver_settings, switch_key=switch_key,\n                            software_rule_handler=software_eos_handler)", "PAIR-11", nth=1),
        M("software eos handler not stored", PC, "                            software_rule_handler=software_eos_handler)", "                            software_rule_handler=None)", "PAIR-11", nth=1),
        M("clear_hw_rule keeps PSU handler", PC, "        if rule.switch_key:\n            self.machine.switch_controller.remove_switch_handler_by_key(rule.switch_key)\n", "", "PAIR-11"),
        M("double enable installs twice", FL, "        # prevent duplicate enable\n        if self._enabled:\n            return\n", "", "FLAG-2"),
        M("autofire disable without guard", AF, "        if not self._enabled:\n            return\n        self._enabled = False\n", "        self._enabled = False\n", "FLAG-2"),
        M("sw_release leaves the coil to the hardware rule while the button is held", FL, "        self._sw_flipped = False\n\n        # disable the flipper coil(s)\n", "        self._sw_flipped = False\n        if self._enabled and self.config['activation_switch'].state:\n            return\n\n        # disable the flipper coil(s)\n", "FLAG-2"),
        M("sw_flip while disabled", FL, "        if not self._enabled:\n            return\n\n        self._sw_flipped = True", "        self._sw_flipped = True", "FLAG-2"),
        M("disable leaves sw flip energised", FL, "        if self._sw_flipped:\n            # disable the coils if activated via sw_flip\n            self.sw_release()\n", "", "FLAG-2"),
        M("hits counted while disabled", AF, "        if not self._enabled:\n            return\n        if not self._ball_search_in_progress:\n            self.playfield.mark_playfield_active_from_device_action(self.name)", "        if self._enabled and not self._ball_search_in_progress:\n            self.playfield.mark_playfield_active_from_device_action(self.name)", "FLAG-2"),
        M("disable keeps pending re-enable", AF, "        self.delay.remove(\"_timeout_enable_delay\")\n\n        if not self._enabled:\n            return", "        if not self._enabled:\n            return\n        self.delay.remove(\"_timeout_enable_delay\")", "FLAG-2"),
        M("ball search installs rule", "mpf/core/ball_search.py", "    def enable(self, **kwargs):", "    def _raw(self, a, b):\n        self.machine.platform_controller.set_pulse_on_hit_rule(a, b)\n\n    def enable(self, **kwargs):", "OWN-12"),
        M("autofire stays on in service", Y, "    disable_events: event_handler|event_handler:ms|ball_will_end, service_mode_entered", "    disable_events: event_handler|event_handler:ms|ball_will_end", "TABLE-1", nth=0),
        M("flippers on at game start", Y, "    enable_events: event_handler|event_handler:ms|ball_started", "    enable_events: event_handler|event_handler:ms|ball_started, game_started", "TABLE-1", nth=1),
        M("spec key without handler", Y, "    sw_flip_events: event_handler|event_handler:ms|None", "    sw_flip_events: event_handler|event_handler:ms|None\n    sw_hold_events: event_handler|event_handler:ms|None", "TABLE-1"),
        M("enable outranks disable", FL, "    @event_handler(10)\n    def event_disable", "    @event_handler(0)\n    def event_disable", "TABLE-1"),
        M("slam tilt ignored during a tilt", "mpf/modes/tilt/code/tilt.py", "        if not self.machine.game:\n            return\n\n        self.machine.game.slam_tilted = True", "        if not self.machine.game or self.machine.game.tilted:\n            return\n\n        self.machine.game.slam_tilted = True", "DOM-20"),
        M("extra balls played after a slam tilt", "mpf/modes/game/code/game.py", "            while self.player.extra_balls and not self.slam_tilted:", "            while self.player.extra_balls and not self.ending:", "DOM-20"),
        M("tilt switches armed once at boot", "mpf/modes/tilt/code/tilt.py", "    def mode_start(self, **kwargs):\n        \"\"\"Start mode.\"\"\"\n        self._register_switch_handlers()\n", "        self._register_switch_handlers()\n\n    def mode_start(self, **kwargs):\n        \"\"\"Start mode.\"\"\"\n", "DOM-20"),
        M("slam tilt switch left registered", "mpf/modes/tilt/code/tilt.py", "            self.machine.switch_controller.remove_switch_handler(\n                switch_name=switch.name,\n                callback=self.slam_tilt)", "            pass", "DOM-20"),
        M("tilt without ball end", "mpf/modes/tilt/code/tilt.py", "        self.machine.game.end_ball()\n\n    def _tilted_ball_drain", "\n    def _tilted_ball_drain", "DOM-20"),
        # twins
        M("twin: append via call result", FL, "        rule = self.machine.platform_controller.set_pulse_on_hit_and_release_rule(", "        rule = self.machine.platform_controller.set_pulse_on_hit_and_release_rule(  # main", None),
        M("twin: extra disable event", Y, "    disable_events: event_handler|event_handler:ms|ball_will_end, service_mode_entered", "    disable_events: event_handler|event_handler:ms|ball_will_end, service_mode_entered, tilt", None, nth=0),
        M("tilted flag survives the game", "mpf/modes/game/code/game.py", "        self.tilted = False\n        self.ending = False\n        self.num_players = 0", "        self.ending = False\n        self.num_players = 0", "DOM-20"),
        M("tilt during ball start is wiped", "mpf/modes/game/code/game.py", "        self._end_ball_event.clear()\n        await self._start_ball(is_extra_ball)", "        await self._start_ball(is_extra_ball)\n        self._end_ball_event.clear()", "DOM-20"),
        M("ball search gives up by stopping the game mode directly", "mpf/core/ball_search.py", "                self.info_log(\"Ending the game\")\n                self.machine.game.end_game()", "                self.info_log(\"Ending the game\")\n                self.machine.game.stop()", "DOM-20"),
        M("tilted flag cleared only with a held ball_ending queue", "mpf/modes/tilt/code/tilt.py", "            if self.machine.game:\n                self.machine.game.tilted = False\n", "            if self.machine.game and self.ball_ending_tilted_queue:\n                self.machine.game.tilted = False\n", "DOM-20"),
    ]


def thorough(chk):
    from sa.battery import run_battery
    run_battery(chk, battery())
