"""C07 — mode lifecycle is well-formed and leaves nothing behind (structural clauses).

TRACE-2 event chain of start / stop           FLAG-1  start/stop flag protocol (incl. no return between flag and event)
OWN-7   tracked registration inside Mode      DOM-15  every clean-up step is on the stop chain and resets its container
SIB-1   config players with per-context state override clear_context and reset it; PAIR-8 unload
PAIR-9  mode devices: what device_loaded_in_mode registers permanently, device_removed_from_mode removes
FLAG-5  enable/disable idempotence guards read the state they write
SORT-2 / OWN-8 active_modes
"""
import ast

from sa.model import src, short, dotted, call_attr, kwarg, walk_local, AnalysisError, const_value
from sa.helpers import is_snapshot
from sa.index import get_index

MD = "mpf/core/mode.py"
MC = "mpf/core/mode_controller.py"
CP = "mpf/core/config_player.py"
ED = "mpf/core/enable_disable_mixin.py"


def _event_text(call):
    """Event-name expression of a post* call, normalised."""
    e = call.args[0] if call.args else kwarg(call, "event")
    if e is None:
        return None
    t = src(e)
    t = t.replace("MODE_STARTING_EVENT_TEMPLATE.format(self.name)", "'mode_{}_starting'.format(self.name)")
    for a, b in (("'mode_' + self.name + '_", "'mode_{}_"), ):
        if t.startswith(a):
            t = b + t[len(a):-1] + "'.format(self.name)"
    return t.replace('"', "'")


def _posts(func):
    out = []
    for c in func.calls():
        if call_attr(c) in ("post", "post_queue", "post_boolean", "post_relay", "post_async", "post_queue_async") and \
                (dotted(c.func.value) or "").endswith("events"):
            out.append(c)
    return out


def _closure(repo, cls, f, depth=3):
    seen = {f.ident: f}
    todo = [f]
    for _ in range(depth):
        nxt = []
        for g in todo:
            for x in ast.walk(g.node):
                if isinstance(x, ast.Call) and isinstance(x.func, ast.Attribute):
                    m = None
                    if dotted(x.func.value) == "self":
                        m = repo.lookup_method(cls, x.func.attr)
                    elif isinstance(x.func.value, ast.Call) and call_attr(x.func.value) == "super" and g.cls is not None:
                        m = repo.lookup_method(g.cls, x.func.attr, skip_self=True)
                    if m is not None and m.ident not in seen:
                        seen[m.ident] = m
                        nxt.append(m)
        todo = nxt
    return list(seen.values())


def check(chk):
    repo = chk.repo
    idx = get_index(repo)
    chk.explanation = ("C07: the start/stop callback chains post the six lifecycle events in order; flag protocol incl. "
                       "'no exit between setting _starting and posting the starting event'; handler registration inside "
                       "Mode is tracked; every clean-up step lies on the stop chain and resets its container; config "
                       "players that keep per-context state clear it; mode devices remove what they registered; "
                       "idempotence guards read the state they write; active_modes owned and sorted by ModeController. "
                       "Registry equality for arbitrary user mode code is not decided.")
    mode = repo.cls(MD, "Mode")
    m = {n: repo.func(MD, "Mode." + n) for n in ("start", "_started", "_mode_started_callback", "stop", "_stopped",
                                                "_mode_stopped_callback", "add_mode_event_handler", "_remove_mode_event_handlers",
                                                "_remove_mode_switch_handlers", "_remove_mode_devices", "_add_mode_devices",
                                                "_setup_device_control_events")}
    chk.analysed(*m.values())
    _handler_keys(chk, repo)
    _own_scope(chk, repo)
    # the start queue a mode parks is released and forgotten when the mode has stopped (shared with C02: a queue reference that survives
    # the cycle is cleared again by the next stop and aborts it half way: handlers and devices of that cycle stay registered)
    from sa.rules import c02 as _c02
    _c02._pair2(chk, only="mpf/core/mode.py")
    _c02._start_wait_taken_only_when_starting(chk)
    from sa.helpers import unload_cleanup_unconditional
    unload_cleanup_unconditional(chk, "PAIR-8")
    # a built-in mode that registers switch handlers itself removes exactly those when it stops: the tilt mode's (switch tag, callback) pairs agree
    # between _register_switch_handlers and _remove_switch_handlers
    TLF = "mpf/modes/tilt/code/tilt.py"
    tcls_ = chk.repo.cls(TLF, "Tilt")

    def _tpairs(fn, api):
        out = set()
        for lp in [x for x in walk_local(fn.node) if isinstance(x, ast.For)]:
            tag = [src(y) for y in ast.walk(lp.iter) if isinstance(y, ast.Subscript) and src(y.value) == "self.tilt_config"]
            for c in ast.walk(lp):
                if isinstance(c, ast.Call) and call_attr(c) in api:
                    cb = kwarg(c, "callback")
                    out.add((tag[0] if tag else None, src(cb) if cb is not None else None))
        return out
    reg_, rem_ = tcls_.methods["_register_switch_handlers"], tcls_.methods["_remove_switch_handlers"]
    chk.analysed(reg_, rem_)
    pr_, pm_ = _tpairs(reg_, {"add_switch_handler_obj", "add_switch_handler"}), _tpairs(rem_, {"remove_switch_handler", "remove_switch_handler_obj"})
    chk.ob("PAIR-9", "the tilt mode removes exactly the (switch tag, callback) pairs it registered", pr_ == pm_ and len(pr_) >= 3, rem_.where(),
           detail="registered %s, removed %s" % (sorted(map(str, pr_)), sorted(map(str, pm_))), construct=rem_.ident, text="tilt switch handler pairs")
    # the switch controller finds a handler by (callback, state, hold time): a device or mode that registered a handler with a hold time removes it
    # with that same hold time - with the default (0) the removal finds nothing and the handler outlives the mode
    def _sw_calls(c_, names):
        out = []
        for m_ in c_.methods.values():
            for x in m_.calls():
                a_ = call_attr(x)
                if a_ not in names or not isinstance(x.func, ast.Attribute):
                    continue
                if a_ in ("add_handler", "remove_handler") and "events" in src(x.func.value):
                    continue
                cb = kwarg(x, "callback")
                if cb is None and x.args:
                    cb = x.args[0] if a_ in ("add_handler", "remove_handler") else (x.args[1] if len(x.args) > 1 else None)
                ms = kwarg(x, "ms")
                out.append((m_, x, src(cb) if cb is not None else None, src(ms) if ms is not None else "0"))
        return out
    n_tp = 0
    for c_ in list(chk.repo.all_classes("mpf/devices/")) + list(chk.repo.all_classes("mpf/modes/")):
        adds = [t for t in _sw_calls(c_, {"add_handler", "add_switch_handler", "add_switch_handler_obj"}) if t[3] != "0" and t[2]]
        if not adds:
            continue
        rems = _sw_calls(c_, {"remove_handler", "remove_switch_handler", "remove_switch_handler_obj"})
        for m_, x, cb, ms in adds:
            for rm_, rx, rcb, rms in rems:
                if rcb != cb:
                    continue
                n_tp += 1
                chk.analysed(m_, rm_)
                chk.ob("PAIR-9", "%s removes the timed switch handler %s with the hold time it was registered with (%s)" % (c_.name, cb, ms), rms == ms,
                       rm_.where(rx), detail="registered with ms=%s in %s, removed with ms=%s: handlers are matched by (callback, state, ms), the removal "
                       "finds nothing and the handler outlives the mode" % (ms, m_.name, rms), construct=rm_.ident,
                       text="timed handler %s removed with ms=%s, registered with ms=%s" % (cb, rms, ms))
    chk.ob("PAIR-9", "timed switch handler add/remove pairs found (%d)" % n_tp, n_tp >= 1, "mpf/devices:1", text="timed handler pairs present")
    _gate7(chk)
    # the start callback belongs to one start request: every accepted start stores the callback it was given (None included), so a callback of
    # an earlier cycle cannot fire for a later start
    stf = chk.repo.func(MD, "Mode.start")
    chk.analysed(stf)
    stc = stf.cfg()
    sets_ = [n for n in stc.nodes if n.kind == "stmt" and isinstance(n.ast, ast.Assign) and src(n.ast.targets[0]) == "self.start_callback"]
    acc_ = [n for n in stc.nodes if n.kind == "stmt" and isinstance(n.ast, ast.Assign) and src(n.ast.targets[0]) == "self._starting" and src(n.ast.value) == "True"]
    ok_ = bool(sets_) and all(src(n.ast.value) == "callback" for n in sets_) and bool(acc_) and \
        stc.must_pass(acc_[0].id, [n.id for n in sets_]) is None and not any("callback" in k for n in sets_ for k in stc.guards_at(n.id))
    chk.ob("PAIR-8", "every accepted start stores the callback of that request (also None): no callback survives into a later start", ok_, stf.where(sets_[0].ast) if sets_ else stf.where(),
           detail="guards %s" % [sorted(stc.guards_at(n.id).items()) for n in sets_], construct=stf.ident, text="start callback per request")
    # ... and the device's in-flight progress goes with it: a sequence shot forgets its half-finished sequences on every path of the unload (with
    # their time-outs cleared they could never expire: the next run of the mode would complete them with the last step alone)
    ss_ = chk.repo.func("mpf/devices/sequence_shot.py", "SequenceShot.device_removed_from_mode")
    chk.analysed(ss_)
    scfg_ = ss_.cfg()
    rs_ = [n.id for n, c in scfg_.calls_named("reset_all_sequences")]
    w_ = scfg_.must_pass(scfg_.entry.id, rs_) if rs_ else [scfg_.entry.id]
    chk.ob("PAIR-8", "SequenceShot: unloading the device drops its sequences in progress on every path", w_ is None, ss_.where(), construct=ss_.ident,
           text="sequences in progress survive unload")
    # the game waits for every active game mode when it stops, also one whose own stop is already in flight (shared with C02 / C06):
    # otherwise that mode is still active - handlers, devices and all - when machine.game is gone
    from sa.helpers import stop_loop_selection
    stop_loop_selection(chk, "PAIR-8", "game", "a game mode still stopping when the game stops is left active outside of a game")
    # a config player never plays for a mode that has stopped: a queue event held by another handler iterates over a snapshot of the handlers,
    # so the player's callback can still be called after mode_stop removed it; the entry it would create under the stopped mode's context is
    # cleared by nobody
    cpc = repo.func("mpf/core/config_player.py", "ConfigPlayer.config_play_callback")
    chk.analysed(cpc)
    ccfg = cpc.cfg()
    pl_ = [(n, c) for n, c in ccfg.calls_named("play") if dotted(c.func.value) == "self"]
    chk.need(len(pl_) == 1, "PAIR-8", "config_play_callback plays through self.play", cpc)
    from sa.helpers import feasible_paths
    bad = [(pth, fx) for pth, fx in feasible_paths(ccfg, ccfg.entry.id, [pl_[0][0].id]) if fx.get("mode") is True and fx.get("mode.active") is not True and
           fx.get("not mode.active") is not False]
    chk.ob("PAIR-8", "a config player plays for a mode only while that mode is active (a callback called late, from a held queue event, does nothing)", not bad,
           cpc.where(pl_[0][1]), path=ccfg.fmt_path(bad[0][0], "mpf/core/config_player.py") if bad else None, construct=cpc.ident,
           text="config player plays for an inactive mode")
    kw = {k.arg: src(k.value) for k in pl_[0][1].keywords}
    ok = kw.get("context") == "context" and kw.get("settings") == "settings" and kw.get("calling_context") == "calling_context" and kw.get("priority") == "priority"
    ctx = [x for x in walk_local(cpc.node) if isinstance(x, ast.Assign) and src(x.targets[0]) == "context"]
    ok = ok and sorted(src(x.value) for x in ctx) == sorted(["mode.name", "'_global'"])
    chk.ob("PAIR-8", "what it plays is registered under the mode's own context (its name; `_global` without a mode), which mode_stop clears", ok, cpc.where(),
           detail=str(kw), construct=cpc.ident, text="config player context")

    # ------------------------------------------------------------ TRACE-2
    CHAIN = [
        ("start", [("post", "'mode_{}_will_start'.format(self.name)", None), ("post_queue", "'mode_{}_starting'.format(self.name)", "self._started")]),
        ("_started", [("post", "'mode_{}_started'.format(self.name)", "self._mode_started_callback")]),
        ("stop", [("post", "'mode_{}_will_stop'.format(self.name)", None), ("post_queue", "'mode_{}_stopping'.format(self.name)", "self._stopped")]),
        ("_stopped", [("post", "'mode_{}_stopped'.format(self.name)", "self._mode_stopped_callback")]),
    ]
    for fn, want in CHAIN:
        f = m[fn]
        cfg = f.cfg()
        got = []
        nodes = []
        for n in sorted(cfg.nodes_where(lambda n: n.kind != "branch"), key=lambda n: (n.lineno or 0)):
            for c in n.calls():
                if call_attr(c) in ("post", "post_queue", "post_boolean", "post_relay") and (dotted(c.func.value) or "").endswith("events"):
                    t = _event_text(c)
                    if t and "mode_{}_" in t:
                        cb = kwarg(c, "callback")
                        got.append((call_attr(c), t, src(cb) if cb is not None else None))
                        nodes.append(n)
        chk.ob("TRACE-2", "Mode.%s posts %s" % (fn, " then ".join(w[1].split("_", 2)[2].split("'")[0] for w in want)), got == want, f.where(),
               detail="found %s" % got, construct=f.ident, text="lifecycle posts of %s: %s" % (fn, got))
        for a, b in zip(nodes, nodes[1:]):
            chk.ob("TRACE-2", "Mode.%s posts its events in this order on every path" % fn, cfg.dominates(a.id, b.id), f.where(b.ast),
                   construct=f.ident, text="order in " + fn)
    f = m["_mode_started_callback"]
    ok = any(call_attr(c) == "mode_start" for c in f.calls())
    chk.ob("TRACE-2", "user mode_start() runs after the started event", ok, f.where(), construct=f.ident, text="mode_start hook")
    chk.floor("TRACE-2", 5)

    # ------------------------------------------------------------ FLAG-1
    f = m["start"]
    cfg = f.cfg()
    setf = [n for n in cfg.nodes_where(lambda n: n.kind == "stmt" and isinstance(n.ast, ast.Assign) and src(n.ast.targets[0]) == "self._starting"
                                       and src(n.ast.value) == "True")]
    chk.need(setf, "FLAG-1", "Mode.start marks the mode as starting", f)
    g = cfg.guards_at(setf[0].id)
    chk.ob("FLAG-1", "start is accepted only when neither active nor starting", g.get("self._active") is False and g.get("self._starting") is False,
           f.where(setf[0].ast), detail="guards %s" % sorted(g.items()), construct=f.ident, text="start guards")
    pq = [n for n, c in cfg.calls_named("post_queue") if "starting" in (_event_text(c) or "")]
    chk.expect(bool(pq), "C07: starting queue event vanished")
    w = cfg.must_pass(setf[0].id, [n.id for n in pq], ends=[cfg.exit.id], ignore_exc=True)
    chk.ob("FLAG-1", "once _starting is set every path posts the starting event (no exit leaves the mode stuck in 'starting')", w is None,
           f.where(setf[0].ast), path=cfg.fmt_path(w, MD) if w else None,
           detail="a refused start after the flag is set blocks every later start with 'already starting'", construct=f.ident,
           text="exit between _starting and starting event")
    posts = [n for n, c in cfg.calls_named("post", "post_queue") if "mode_{}_" in (_event_text(c) or "")]
    chk.ob("FLAG-1", "_starting is set before the first lifecycle event", all(cfg.dominates(setf[0].id, p.id) for p in posts), f.where(),
           construct=f.ident, text="flag before events")
    # every return before the flag is a refusal without side effects on the lifecycle
    f2 = m["_started"]
    cfg2 = f2.cfg()
    act = [n for n in cfg2.nodes_where(lambda n: n.kind == "stmt" and isinstance(n.ast, ast.Assign) and src(n.ast.targets[0]) == "self.active"
                                       and src(n.ast.value) == "True")]
    clr = [n for n in cfg2.nodes_where(lambda n: n.kind == "stmt" and isinstance(n.ast, ast.Assign) and src(n.ast.targets[0]) == "self._starting"
                                       and src(n.ast.value) == "False")]
    p2 = [n for n, c in cfg2.calls_named("post") if "started" in (_event_text(c) or "")]
    ok = bool(act) and bool(clr) and bool(p2) and all(cfg2.dominates(a.id, p.id) and cfg2.dominates(c_.id, p.id) for a in act for c_ in clr for p in p2)
    chk.ob("FLAG-1", "_started makes the mode active and clears _starting before posting started", ok, f2.where(), construct=f2.ident,
           text="_started flags")
    f = m["stop"]
    cfg = f.cfg()
    mark = [n for n in cfg.nodes_where(lambda n: n.kind == "stmt" and isinstance(n.ast, ast.Assign) and src(n.ast.targets[0]) == "self.stopping"
                                       and src(n.ast.value) == "True")]
    chk.need(mark, "FLAG-1", "Mode.stop marks the mode as stopping", f)
    g = cfg.guards_at(mark[0].id)
    chk.ob("FLAG-1", "stop is accepted only when active and not already stopping", g.get("self._active") is True and g.get("self.stopping") is False,
           f.where(mark[0].ast), detail="guards %s" % sorted(g.items()), construct=f.ident, text="stop guards")
    pq = [n for n, c in cfg.calls_named("post_queue") if "stopping" in (_event_text(c) or "")]
    w = cfg.must_pass(mark[0].id, [n.id for n in pq], ends=[cfg.exit.id]) if pq else [0]
    chk.ob("FLAG-1", "once stopping is set every path posts the stopping event", w is None, f.where(mark[0].ast), construct=f.ident,
           text="exit between stopping and stopping event")
    cbs = [n for n, c in cfg.calls_named("append") if src(c.func.value) == "self.stop_callbacks"]
    ok = bool(cbs) and all(cfg.guards_at(n.id).get("self._active") is True and cfg.guards_at(n.id).get("callback") is True and
                           "self.stopping" not in cfg.guards_at(n.id) for n in cbs)
    chk.ob("FLAG-1", "a stop callback is remembered for a running mode even when it is already stopping", ok, f.where(), construct=f.ident,
           text="stop callback registration")
    f = m["_stopped"]
    cfg = f.cfg()
    a0 = [n for n in cfg.nodes_where(lambda n: n.kind == "stmt" and isinstance(n.ast, ast.Assign) and src(n.ast.targets[0]) == "self.active"
                                     and src(n.ast.value) == "False")]
    s0 = [n for n in cfg.nodes_where(lambda n: n.kind == "stmt" and isinstance(n.ast, ast.Assign) and src(n.ast.targets[0]) == "self.stopping"
                                     and src(n.ast.value) == "False")]
    w1 = cfg.must_pass(cfg.entry.id, [n.id for n in a0])
    w2 = cfg.must_pass(cfg.entry.id, [n.id for n in s0])
    chk.ob("FLAG-1", "_stopped clears active and stopping on every path", bool(a0) and bool(s0) and w1 is None and w2 is None, f.where(),
           construct=f.ident, text="_stopped flags")
    chk.floor("FLAG-1", 6)

    # ------------------------------------------------------------ OWN-7
    ALLOWED_PERMANENT = {"configure_mode_settings": "start_events handlers live as long as the mode object (they start the mode)"}
    for meth in mode.methods.values():
        for c in meth.calls():
            if call_attr(c) in ("add_handler", "add_async_handler", "replace_handler") and (dotted(c.func.value) or "").endswith("machine.events"):
                ok = meth.name == "add_mode_event_handler" or meth.name in ALLOWED_PERMANENT
                chk.ob("OWN-7", "Mode.%s registers event handlers only through the tracked add_mode_event_handler" % meth.name, ok, meth.where(c),
                       detail="an untracked handler survives the mode", construct=meth.ident, text="untracked add_handler in " + meth.name)
    f = m["add_mode_event_handler"]
    cfg = f.cfg()
    reg = [n for n in cfg.nodes_where(lambda n: n.kind == "stmt" and isinstance(n.ast, ast.Assign) and isinstance(n.ast.value, ast.Call)
                                      and call_attr(n.ast.value) == "add_handler")]
    track = [n for n, c in cfg.calls_named("add", "append") if src(c.func.value) == "self.event_handlers"]
    ok = bool(reg) and bool(track) and cfg.must_pass(reg[0].id, [t.id for t in track]) is None and \
        src(track[0].ast.value.args[0] if isinstance(track[0].ast, ast.Expr) else track[0].ast) and \
        any(src(c.args[0]) == src(reg[0].ast.targets[0]) for _, c in cfg.calls_named("add", "append") if src(c.func.value) == "self.event_handlers")
    chk.ob("OWN-7", "add_mode_event_handler records the key of every handler it registers", ok, f.where(), construct=f.ident, text="key tracked")
    pr = [c for c in f.calls() if call_attr(c) == "add_handler"]
    ok = bool(pr) and len(pr[0].args) >= 3 and "self.priority" in src(pr[0].args[2]) and "priority" in src(pr[0].args[2]).replace("self.priority", "")
    chk.ob("OWN-7", "mode handlers run at mode priority + handler priority", ok, f.where(), construct=f.ident, text="handler priority")
    # switch handlers registered by Mode are tracked in switch_handlers
    for meth in mode.methods.values():
        for c in meth.calls():
            if call_attr(c) in ("add_switch_handler", "add_switch_handler_obj"):
                stmt_ok = any(isinstance(x, ast.Call) and call_attr(x) == "append" and src(x.func.value) == "self.switch_handlers" for x in ast.walk(meth.node))
                chk.ob("OWN-7", "switch handlers registered in Mode.%s are tracked" % meth.name, stmt_ok, meth.where(c), construct=meth.ident,
                       text="untracked switch handler in " + meth.name)

    # ------------------------------------------------------------ DOM-15
    STEPS = [
        ("stop", "_remove_mode_switch_handlers", "stopping=True"),
        ("stop", "delay.clear", "stopping=True"),
        ("_mode_stopped_callback", "_remove_mode_event_handlers", None),
        ("_mode_stopped_callback", "_remove_mode_devices", None),
    ]
    for fn, step, after in STEPS:
        f = m[fn]
        cfg = f.cfg()
        if "." in step:
            recv, name = step.split(".")
            nodes = [n for n, c in cfg.calls_named(name) if src(c.func.value) == "self." + recv]
        else:
            nodes = [n for n, c in cfg.calls_named(step) if src(c.func.value) == "self"]
        start = cfg.entry.id
        if after:
            mk = [n for n in cfg.nodes_where(lambda n: n.kind == "stmt" and isinstance(n.ast, ast.Assign) and src(n.ast.targets[0]) == "self.stopping")]
            start = mk[0].id if mk else start
        pre = any(cfg.dominates(n.id, start) for n in nodes)
        w = None if pre else cfg.must_pass(start, [n.id for n in nodes], ends=[cfg.exit.id])
        chk.ob("DOM-15", "Mode.%s always runs %s" % (fn, step), bool(nodes) and w is None, f.where(), path=cfg.fmt_path(w, MD) if w else None,
               construct=f.ident, text="%s in %s" % (step, fn))
    f = m["_mode_stopped_callback"]
    cfg = f.cfg()
    cleanup = [n for n, c in cfg.calls_named("_remove_mode_event_handlers", "_remove_mode_devices") if src(c.func.value) == "self"]
    cb_calls = [n for n in cfg.nodes if n.kind != "branch" and any(isinstance(c.func, ast.Name) and c.func.id in ("callback", "cb") for c in n.calls())]
    ok = bool(cleanup) and bool(cb_calls) and all(cfg.path_avoiding(cb.id, [cl.id], [], ignore_exc=True) is None for cb in cb_calls for cl in cleanup)
    chk.ob("DOM-15", "the stop callbacks run after the mode's handlers and devices are gone (a callback may start the mode again)", ok, f.where(),
           detail="clean-up after the callbacks wipes what a restart from a callback has just registered", construct=f.ident,
           text="stop callbacks before clean-up")
    f = m["_stopped"]
    cfg = f.cfg()
    loops = [h for h in cfg.nodes if h.kind == "loop" and src(h.ast.iter) == "self.stop_methods"]
    ok = bool(loops) and cfg.must_pass(cfg.entry.id, [h.id for h in loops]) is None
    chk.ob("DOM-15", "_stopped runs every registered stop method (config players, plugins)", ok, f.where(), construct=f.ident, text="stop methods loop")
    if loops:
        body = " ".join(src(st) for st in loops[0].ast.body)
        chk.ob("DOM-15", "each stop method is called with its stored argument", "item[0](item[1])" in body.replace(" ", ""), f.where(loops[0].ast),
               construct=f.ident, text="stop method call form")
    if loops:
        from sa.helpers import inloop_guards
        callnodes = [n for n in cfg.nodes if n.kind == "stmt" and any(y is st for st in loops[0].ast.body for y in [n.ast]) and any(True for _ in n.calls())]
        ok = bool(callnodes) and all(not inloop_guards(cfg, n.id, loops[0].id) for n in callnodes) and \
            not any(isinstance(y, (ast.Break, ast.Return, ast.Continue)) for y in ast.walk(loops[0].ast))
        chk.ob("DOM-15", "every registered stop method runs - unconditionally, the loop is never left early", ok, f.where(loops[0].ast), construct=f.ident,
               text="stop methods run unconditionally")
    # what a start method hands back is its undo: every such result is recorded for _stopped
    fs = m["start"]
    scfg = fs.cfg()
    rec = [(n, c) for n, c in scfg.calls_named("append") if src(c.func.value) == "self.stop_methods"]
    chk.need(len(rec) == 1, "DOM-15", "Mode.start records the stop methods returned by the start methods", fs)
    rn, rc = rec[0]
    lh = [h for h in scfg.nodes if h.kind == "loop" and any(y is rc for y in ast.walk(h.ast))]
    chk.need(lh, "DOM-15", "Mode.start runs the start methods in a loop", fs)
    from sa.helpers import exact_selection
    arg0 = src(rc.args[0]) if rc.args else "?"
    exact_selection(chk, "DOM-15", "every non-empty result of a start method is recorded as a stop method (no further condition)", fs, scfg, rn, lh[-1],
                    {(arg0, True)}, text="stop method recorded exactly")
    d = [x for x in scfg.nodes if x.kind == "stmt" and isinstance(x.ast, ast.Assign) and src(x.ast.targets[0]) == arg0 and isinstance(x.ast.value, ast.Call)]
    ok = len(d) == 1 and src(d[0].ast.value.func) == "%s.method" % src(lh[-1].ast.target) and src(lh[-1].ast.iter) == "self.machine.mode_controller.start_methods" \
        and scfg.dominates(d[0].id, rn.id)
    chk.ob("DOM-15", "the recorded value is what this iteration's start method returned", ok, fs.where(rc), construct=fs.ident, text="stop method source")
    RESETS = [("_stopped", "self.stop_methods"), ("_remove_mode_event_handlers", "self.event_handlers"),
              ("_remove_mode_switch_handlers", "self.switch_handlers"), ("_remove_mode_devices", "self.mode_devices"),
              ("_mode_stopped_callback", "self.stop_callbacks")]
    for fn, cont in RESETS:
        f = m.get(fn) or repo.func(MD, "Mode." + fn)
        cfg = f.cfg()
        rs = [n for n in cfg.nodes_where(lambda n: n.kind == "stmt" and isinstance(n.ast, ast.Assign) and src(n.ast.targets[0]) == cont)] + \
             [n for n, c in cfg.calls_named("clear") if src(c.func.value) == cont]
        aliases_ = {x.targets[0].id for x in ast.walk(f.node) if isinstance(x, ast.Assign) and isinstance(x.targets[0], ast.Name)
                    and src(x.value) in (cont, "list(%s)" % cont, "%s[:]" % cont, "set(%s)" % cont)}
        lp_live = [h for h in cfg.nodes if h.kind == "loop" and src(h.ast.iter) == cont]
        lp_copy = [h for h in cfg.nodes if h.kind == "loop" and (src(h.ast.iter) in ("list(%s)" % cont, "%s[:]" % cont) or src(h.ast.iter) in aliases_)]
        lp = lp_live + lp_copy
        # walking the live container: it is emptied afterwards; walking a copy / a swapped-out alias: the order is free
        ok = bool(rs) and bool(lp) and all(cfg.dominates(h.id, r.id) for h in lp_live for r in rs) and \
            cfg.must_pass(cfg.entry.id, [r.id for r in rs]) is None
        chk.ob("DOM-15", "Mode.%s visits every entry of %s and then empties it" % (fn, cont), ok, f.where(), construct=f.ident,
               text="reset of " + cont)
    f = m["_remove_mode_event_handlers"]
    ok = any(call_attr(c) == "remove_handler_by_key" and src(c.args[0]) == "key" for c in f.calls())
    chk.ob("DOM-15", "tracked event handlers are removed by their keys", ok, f.where(), construct=f.ident, text="remove by key")
    f = m["_remove_mode_switch_handlers"]
    lp_ = [x for x in ast.walk(f.node) if isinstance(x, ast.For)]
    ok = bool(lp_) and any(isinstance(c, ast.Call) and call_attr(c) in ("remove_switch_handler_by_key", "remove_switch_handler_by_keys") and c.args and
                           src(c.args[0]) == src(lp_[0].target) for c in ast.walk(lp_[0])) or \
        any(call_attr(c) == "remove_switch_handler_by_keys" and c.args and src(c.args[0]) == "self.switch_handlers" for c in f.calls())
    chk.ob("DOM-15", "tracked switch handlers are removed by their keys", ok, f.where(), construct=f.ident, text="remove switch handlers by key")
    # add_mode_event_handler hands everything to the event manager and returns the key
    f = m["add_mode_event_handler"]
    ah = [c for c in f.calls() if call_attr(c) == "add_handler"]
    if ah:
        c = ah[0]
        a = [src(x) for x in c.args]
        kws = {k.arg: src(k.value) for k in c.keywords}
        ok = a[:2] == ["event", "handler"] and kws.get("mode") == "self" and kws.get(None) == "kwargs"
        chk.ob("OWN-7", "add_mode_event_handler passes event, handler, the mode and the handler kwargs on", ok, f.where(c), detail="%s %s" % (a, kws),
               construct=f.ident, text="add_mode_event_handler forwarding")
    fcfg = f.cfg()
    rets = [r for r in fcfg.nodes if r.kind == "stmt" and isinstance(r.ast, ast.Return)]
    ok = bool(rets) and all(r.ast.value is not None and src(r.ast.value) == "key" for r in rets) and fcfg.must_pass(fcfg.entry.id, [r.id for r in rets]) is None
    chk.ob("OWN-7", "add_mode_event_handler returns the handler's key", ok, f.where(), construct=f.ident, text="add_mode_event_handler return")
    f = m["_remove_mode_devices"]
    ok = any(call_attr(c) == "device_removed_from_mode" for c in f.calls())
    chk.ob("DOM-15", "every mode device is told that the mode unloads", ok, f.where(), construct=f.ident, text="device_removed_from_mode")
    f = m["_add_mode_devices"]
    cfg = f.cfg()
    ld = [n for n, c in cfg.calls_named("device_loaded_in_mode")]
    tr = [n for n, c in cfg.calls_named("add") if src(c.func.value) == "self.mode_devices"]
    ok = bool(ld) and bool(tr) and all(cfg.dominates(t.id, l_.id) for t in tr for l_ in ld)
    chk.ob("DOM-15", "a device is tracked in mode_devices before it is loaded into the mode", ok, f.where(), construct=f.ident, text="device tracked")
    chk.floor("DOM-15", 10)

    # ------------------------------------------------------------ SIB-1 / PAIR-8
    base = repo.cls(CP, "ConfigPlayer")
    n_players = 0
    for c in repo.subclasses(base):
        writes = []
        # names bound to the per-context dict: locals assigned from _get_instance_dict(...) and, transitively, the
        # parameters of own methods that receive such a local
        alias_of = {m.name: set() for m in c.methods.values()}
        for meth in c.methods.values():
            for x in walk_local(meth.node):
                if isinstance(x, ast.Assign) and isinstance(x.value, ast.Call) and call_attr(x.value) == "_get_instance_dict" and \
                        isinstance(x.targets[0], ast.Name):
                    alias_of[meth.name].add(x.targets[0].id)
        changed = True
        while changed:
            changed = False
            for meth in c.methods.values():
                for call in [x for x in ast.walk(meth.node) if isinstance(x, ast.Call) and isinstance(x.func, ast.Attribute)
                             and src(x.func.value) in ("self", "cls") and x.func.attr in c.methods]:
                    callee = c.methods[call.func.attr]
                    params = [p_ for p_ in callee.params() if p_ not in ("self", "cls")]
                    if any(d in ("staticmethod",) for d in callee.decorators()):
                        params = callee.params()
                    for i, a in enumerate(call.args):
                        if isinstance(a, ast.Name) and a.id in alias_of[meth.name] and i < len(params) and params[i] not in alias_of[callee.name]:
                            alias_of[callee.name].add(params[i])
                            changed = True
        for meth in c.methods.values():
            aliases = alias_of[meth.name]
            for x in ast.walk(meth.node):
                tgt = None
                if isinstance(x, (ast.Assign, ast.AugAssign)):
                    tg = x.targets if isinstance(x, ast.Assign) else [x.target]
                    for t in tg:
                        if isinstance(t, ast.Subscript):
                            b = t.value
                            if (isinstance(b, ast.Name) and b.id in aliases) or (isinstance(b, ast.Call) and call_attr(b) == "_get_instance_dict"):
                                tgt = t
                if isinstance(x, ast.Call) and call_attr(x) in ("setdefault", "update") and isinstance(x.func.value, ast.Name) and x.func.value.id in aliases:
                    tgt = x
                if tgt is not None and meth.name != "clear_context":
                    writes.append((meth, tgt))
        if not writes:
            continue
        n_players += 1
        cc = repo.lookup_method(c, "clear_context")
        overridden = cc is not None and cc.cls is not base
        chk.analysed(cc)
        chk.ob("SIB-1", "%s keeps per-context state (%s) and overrides clear_context" % (c.name, writes[0][0].name), overridden, c.where(),
               detail="state stored in the instance dict survives the mode: stale on the next start", construct=c.ident,
               text="clear_context missing in " + c.name)
        if overridden:
            resets = any(call_attr(x) == "_reset_instance_dict" for x in cc.calls()) or \
                any(call_attr(x) == "clear" and "_get_instance_dict" in src(x) for x in cc.calls())
            chk.ob("SIB-1", "%s.clear_context resets the per-context state" % c.name, resets, cc.where(), construct=cc.ident,
                   text="clear_context without reset in " + c.name)
            # the undo: when the records hold objects (devices, shows, ...) clear_context does something with each of them
            loops_cc = [x for x in ast.walk(cc.node) if isinstance(x, ast.For) and "_get_instance_dict" in src(x.iter)]
            stores_obj = any(isinstance(t, ast.Subscript) and isinstance(getattr(t, "ctx", None), ast.Store) for _m, t in writes if isinstance(t, ast.Subscript))
            if loops_cc:
                for lp in loops_cc:
                    tv = {x.id for x in ast.walk(lp.target) if isinstance(x, ast.Name)} - {"_"}
                    acts = [c_ for st in lp.body for c_ in ast.walk(st) if isinstance(c_, ast.Call) and
                            ({x.id for x in ast.walk(c_) if isinstance(x, ast.Name)} & tv)]
                    chk.ob("SIB-1", "%s.clear_context acts on every record it walks (removes what play registered)" % c.name, bool(acts), cc.where(lp),
                           detail="the loop over the per-context records has no effect: what the player set at devices stays after the mode",
                           construct=cc.ident, text="clear_context loop without effect in " + c.name)
            # the reset uses the same context key as the writer
            wctx = set()
            for meth in c.methods.values():
                if meth.name == "clear_context":
                    continue
                for x in ast.walk(meth.node):
                    if isinstance(x, ast.Call) and call_attr(x) == "_get_instance_dict" and x.args:
                        wctx.add(src(x.args[0]))
            rctx = {src(x.args[0]) for x in cc.calls() if call_attr(x) in ("_reset_instance_dict", "_get_instance_dict") and x.args}
            chk.ob("SIB-1", "%s reads/clears the context key it writes" % c.name, bool(wctx) and wctx <= rctx | {"context"} and rctx <= wctx | {"context"},
                   cc.where(), detail="written %s, cleared %s" % (sorted(wctx), sorted(rctx)), construct=cc.ident,
                   text="context key agreement in " + c.name)
    chk.expect(n_players >= 5, "C07: config players with per-context state lost (%d)" % n_players)
    f = repo.func(CP, "ConfigPlayer.mode_stop")
    chk.analysed(f)
    cfg = f.cfg()
    un = [n for n, c in cfg.calls_named("unload_player_events")]
    cl = [(n, c) for n, c in cfg.calls_named("clear_context")]
    ok = bool(un) and bool(cl) and cfg.must_pass(cfg.entry.id, [n.id for n in un]) is None and cfg.must_pass(cfg.entry.id, [n.id for n, _ in cl]) is None
    chk.ob("PAIR-8", "a stopping mode unloads the player's handlers and clears its context", ok, f.where(), construct=f.ident, text="mode_stop steps")
    for n, c in cl:
        chk.ob("PAIR-8", "the cleared context is the mode's name (the key play() uses)", c.args and src(c.args[0]) == "mode.name", f.where(c),
               construct=f.ident, text="clear_context arg")
    pops = [c for c in f.calls() if call_attr(c) == "pop" and src(c.func.value) == "self.mode_event_keys"]
    chk.ob("PAIR-8", "the keys registered at mode start are taken out of the table", bool(pops) and src(pops[0].args[0]) == "mode", f.where(),
           construct=f.ident, text="keys popped")
    g = repo.func(CP, "ConfigPlayer.mode_start")
    st = [x for x in walk_local(g.node) if isinstance(x, ast.Assign) and src(x.targets[0]) == "self.mode_event_keys[mode]"]
    rt = [x for x in walk_local(g.node) if isinstance(x, ast.Return)]
    ok = bool(st) and bool(rt) and src(rt[0].value).replace(" ", "") in ("self.mode_stop,mode", "(self.mode_stop,mode)")
    chk.ob("PAIR-8", "mode_start stores the keys and returns (mode_stop, mode) as the stop method", ok, g.where(), construct=g.ident, text="mode_start")
    h = repo.func(CP, "ConfigPlayer.unload_player_events")
    chk.analysed(h)
    ok = any(call_attr(c) == "remove_handlers_by_keys" and src(c.args[0]) == "key_list[0]" for c in h.calls())
    ok2 = any(call_attr(c) == "cancel" for c in h.calls()) and any(isinstance(x, ast.For) and "key_list[1]" in src(x.iter) for x in walk_local(h.node))
    chk.ob("PAIR-8", "unload removes every registered handler key", ok, h.where(), construct=h.ident, text="unload keys")
    chk.ob("PAIR-8", "unload cancels every condition subscription", ok2, h.where(), construct=h.ident, text="unload subscriptions")
    r_ = repo.func(CP, "ConfigPlayer.register_player_events")
    rets = [x for x in walk_local(r_.node) if isinstance(x, ast.Return)]
    ok = bool(rets) and src(rets[0].value).replace(" ", "") in ("key_list,subscription_list", "(key_list,subscription_list)")
    app = any(call_attr(c) == "append" and src(c.func.value) == "key_list" and any(call_attr(y) == "add_handler" for y in ast.walk(c)) for c in r_.calls())
    chk.ob("PAIR-8", "register returns (keys, subscriptions) in the order unload reads them, every handler key is collected", ok and app, r_.where(),
           construct=r_.ident, text="register result")

    # ------------------------------------------------------------ PAIR-9
    EVREG = {"add_handler", "add_async_handler"}
    SWREG = {"add_switch_handler", "add_switch_handler_obj"}
    EVREM = {"remove_handler", "remove_handler_by_key", "remove_handlers_by_keys", "remove_handler_by_event"}
    SWREM = {"remove_switch_handler", "remove_switch_handler_by_key", "remove_switch_handler_by_keys", "remove_switch_handler_obj"}
    n_dev = 0
    md = repo.cls("mpf/core/mode_device.py", "ModeDevice")
    for c in repo.subclasses(md):
        dl = c.methods.get("device_loaded_in_mode")
        if dl is None:
            continue
        dr = repo.lookup_method(c, "device_removed_from_mode")
        fs_l = _closure(repo, c, dl)
        fs_r = _closure(repo, c, dr) if dr is not None else []
        regs = []
        for f_ in fs_l:
            if f_.name in ("_initialize", "__init__"):
                continue
            for x in ast.walk(f_.node):
                if isinstance(x, ast.Call) and isinstance(x.func, ast.Attribute):
                    nm = x.func.attr
                    recv = dotted(x.func.value) or ""
                    if nm in EVREG and recv.endswith("machine.events"):
                        regs.append(("event", f_, x))
                    elif nm in SWREG and recv.endswith("switch_controller"):
                        regs.append(("switch", f_, x))
                    elif nm == "add_handler" and not recv.endswith("events") and "switch" in recv:
                        regs.append(("switch", f_, x))
        if not regs:
            continue
        n_dev += 1
        rem_calls = []
        for f_ in fs_r:
            for x in ast.walk(f_.node):
                if isinstance(x, ast.Call) and isinstance(x.func, ast.Attribute) and (x.func.attr in EVREM | SWREM or x.func.attr == "remove_handler"):
                    rem_calls.append((f_, x))
        for kind, f_, x in regs:
            chk.analysed(f_)
            # where is the registration result kept?
            container = _result_container(f_.node, x)
            handler = kwarg(x, "handler") or kwarg(x, "callback") or (x.args[1] if len(x.args) > 1 else None)
            htxt = src(handler) if handler is not None else "?"
            ok = False
            for rf, rc in rem_calls:
                rtxt = src(rc)
                if container and ("self." + container) in rtxt:
                    ok = True
                if container:
                    # loop `for key in self.<container>: remove_handler_by_key(key)`
                    for lp in [y for y in ast.walk(rf.node) if isinstance(y, ast.For) and ("self." + container) in src(y.iter)]:
                        if any(z is rc for z in ast.walk(lp)):
                            ok = True
                if htxt != "?" and any(src(a) == htxt for a in list(rc.args) + [k.value for k in rc.keywords]):
                    ok = True
            chk.ob("PAIR-9", "%s: the %s handler `%s` registered when the device is loaded into a mode is removed when the mode unloads it" % (
                c.name, kind, htxt), ok, f_.where(x), detail="registration kept in %s; removals in device_removed_from_mode: %s" % (
                container, [short(rc, 50) for _, rc in rem_calls][:4]), construct=c.ident, text="%s handler %s not removed" % (kind, htxt))
    chk.expect(n_dev >= 6, "C07: mode devices with permanent registrations lost (%d)" % n_dev)
    # base hooks
    bl = md.methods["device_loaded_in_mode"]
    br = md.methods["device_removed_from_mode"]
    ok = any(isinstance(x, ast.Assign) and src(x.targets[0]) == "self.mode" and src(x.value) == "mode" for x in walk_local(bl.node)) and \
        any(isinstance(x, ast.Assign) and src(x.targets[0]) == "self.mode" and src(x.value) == "None" for x in walk_local(br.node))
    chk.ob("PAIR-9", "ModeDevice remembers its mode while loaded and forgets it afterwards", ok, bl.where(), construct=md.ident, text="mode ref pairing")
    # mode devices that run something periodic / delayed of their own stop it on every path when the mode unloads them
    for c_ in repo.subclasses(md, strict=False):
        own_activity = [m_ for m_ in c_.methods.values() if any(call_attr(x) in ("schedule_interval", "schedule_once") for x in m_.calls())]
        if not own_activity or "stop" not in c_.methods:
            continue
        dr_ = repo.lookup_method(c_, "device_removed_from_mode")
        if dr_ is None or dr_.cls is md:
            chk.ob("PAIR-9", "%s (runs a periodic task) is stopped when its mode unloads it" % c_.name, False, c_.where(), construct=c_.ident,
                   text="no unload hook in " + c_.name)
            continue
        dcfg = dr_.cfg()
        stops = [n.id for n, cc in dcfg.calls_named("stop") if src(cc.func.value) == "self"]
        ok_ = bool(stops) and dcfg.must_pass(dcfg.entry.id, stops) is None
        chk.ob("PAIR-9", "%s stops its periodic task / pending delays on every path when the mode unloads it" % c_.name, ok_, dr_.where(),
               detail="a conditional stop leaves a paused or pending timer behind that restarts itself after the mode is gone",
               construct=dr_.ident, text="unconditional stop on unload in " + c_.name)

    # ------------------------------------------------------------ FLAG-5
    for rel, cn in ((ED, "EnableDisableMixin"), (ED, "EnableDisableMixinSystemWideDevice")):
        c = repo.cls(rel, cn)
        for name, val in (("enable", "True"), ("disable", "False")):
            f = c.methods.get(name)
            chk.require(f is not None, "C07: %s.%s vanished" % (cn, name))
            chk.analysed(f)
            cfg = f.cfg()
            sets = [n for n in cfg.nodes_where(lambda n: n.kind == "stmt" and isinstance(n.ast, ast.Assign) and src(n.ast.value) == val and
                                               src(n.ast.targets[0]).startswith("self."))]
            chk.ob("FLAG-5", "%s.%s records the new state" % (cn, name), len(sets) == 1, f.where(), construct=f.ident, text="state store in " + name)
            if len(sets) != 1:
                continue
            tgt = src(sets[0].ast.targets[0])
            g = cfg.guards_at(sets[0].id)
            tested = [k for k, v in g.items() if v is False and k.replace(" ", "") in ("%sis%s" % (tgt, val), "%s==%s" % (tgt, val))]
            other = [k for k in g if k.startswith("self.") and " is " in k and not k.startswith(tgt + " ")]
            chk.ob("FLAG-5", "%s.%s: the idempotence guard reads the very state it writes (%s)" % (cn, name, tgt), bool(tested) and not other,
                   f.where(sets[0].ast), detail="guards %s; a guard on a different attribute never fires for persisted devices -> handlers registered twice" % sorted(g.items()),
                   construct=f.ident, text="guard/store mismatch in %s.%s: %s" % (cn, name, sorted(g)))
            hook = [n for n, c_ in cfg.calls_named("_" + name)]
            ok = bool(hook) and all(cfg.dominates(sets[0].id, h.id) for h in hook)
            chk.ob("FLAG-5", "%s.%s runs the device hook once, after the guard" % (cn, name), ok, f.where(), construct=f.ident, text="hook after guard")
    f = repo.func(ED, "EnableDisableMixin.device_removed_from_mode")
    calls = [call_attr(c) for c in f.calls()]
    sets = {src(x.targets[0]): src(x.value) for x in walk_local(f.node) if isinstance(x, ast.Assign)}
    chk.ob("FLAG-5", "a mode device is disabled and forgets player / enable state when its mode unloads", "_disable" in calls and
           sets.get("self.player") == "None" and sets.get("self._enabled") == "None", f.where(), construct=f.ident, text="unload resets")
    chk.floor("FLAG-5", 6)

    # ------------------------------------------------------------ SORT-2 / OWN-8
    for u in idx.uses("active_modes"):
        p = u.parent
        mut = u.store and u.scope != "ModeController.__init__"
        if isinstance(p, ast.Attribute) and p.attr in ("append", "remove", "pop", "insert", "clear", "sort", "extend", "reverse"):
            mut = True
        if isinstance(p, ast.Subscript) and isinstance(p.ctx, (ast.Store, ast.Del)):
            mut = True
        if mut:
            chk.ob("OWN-8", "active_modes is changed only by ModeController.set_mode_state (%s)" % u.scope,
                   (u.relpath, u.scope) == (MC, "ModeController.set_mode_state"), u.where(), construct=u.ident, text="active_modes mutation")
    f = repo.func(MC, "ModeController.set_mode_state")
    chk.analysed(f)
    cfg = f.cfg()
    muts = [n for n, c in cfg.calls_named("append", "remove") if src(c.func.value) == "self.active_modes"]
    sorts = [(n, c) for n, c in cfg.calls_named("sort") if src(c.func.value) == "self.active_modes"]
    for n in muts:
        w = cfg.must_pass(n.id, [s_.id for s_, _ in sorts])
        chk.ob("SORT-2", "every change of active_modes is followed by the priority sort", bool(sorts) and w is None, f.where(n.ast), construct=f.ident,
               text="sort after change")
    for n, c in sorts:
        key = kwarg(c, "key")
        rev = kwarg(c, "reverse")
        ok = key is not None and isinstance(key, ast.Lambda) and src(key.body).replace(" ", "") == "(x.priority,x.name)" and rev is not None and src(rev) == "True"
        chk.ob("SORT-2", "active modes are ordered by (priority, name) descending", ok, f.where(c), detail=src(c), construct=f.ident,
               text="sort key " + short(c, 70))
    for n in muts:
        c = [c for c in n.calls() if call_attr(c) in ("append", "remove")][0]
        g = cfg.guards_at(n.id)
        ok = (call_attr(c) == "append" and g.get("active") is True) or (call_attr(c) == "remove" and g.get("active") is False)
        chk.ob("SORT-2", "append on activation, remove on deactivation", ok, f.where(c), construct=f.ident, text="append/remove polarity")
    st = repo.func(MD, "Mode.active")  # property (setter wins as last definition)
    chk.analysed(st)
    calls = [c for c in st.calls() if call_attr(c) == "set_mode_state"]
    ok = bool(calls) and [src(a) for a in calls[0].args] == ["self", "self._active"]
    cfg = st.cfg()
    for n, c in cfg.calls_named("set_mode_state"):
        g = cfg.guards_at(n.id)
        ok = ok and g.get("self._active != new_active") is True
    chk.ob("OWN-8", "the active flag and the active list change together, only on a real change", ok, st.where(), construct=st.ident,
           text="active setter")
    chk.floor("SORT-2", 3)


def _result_container(fn, call):
    """self.<attr> where the result of `call` is appended / assigned (directly or via a local), or None."""
    par = None
    for x in ast.walk(fn):
        for ch in ast.iter_child_nodes(x):
            if ch is call:
                par = x
    if isinstance(par, ast.Call) and call_attr(par) in ("append", "add") and (dotted(par.func.value) or "").startswith("self."):
        return dotted(par.func.value)[5:]
    if isinstance(par, ast.Assign):
        t = par.targets[0]
        if isinstance(t, ast.Attribute) and dotted(t.value) == "self":
            return t.attr
        if isinstance(t, ast.Subscript) and (dotted(t.value) or "").startswith("self."):
            return dotted(t.value)[5:]
        if isinstance(t, ast.Name):
            for x in ast.walk(fn):
                if isinstance(x, ast.Call) and call_attr(x) in ("append", "add") and (dotted(x.func.value) or "").startswith("self.") and \
                        x.args and src(x.args[0]) == t.id:
                    return dotted(x.func.value)[5:]
                if isinstance(x, ast.Assign) and src(x.value) == t.id and isinstance(x.targets[0], ast.Subscript) and \
                        (dotted(x.targets[0].value) or "").startswith("self."):
                    return dotted(x.targets[0].value)[5:]
    return None


def _own_scope(chk, repo):
    """SCOPE-7: what belongs to a mode is filed where the mode's stop finds it, and a clean-up touches only what is its own.
    (a) every delay armed inside Mode goes to the mode's own DelayManager (`self.delay`, cleared by Mode.stop) -- one armed on the
        machine-wide manager survives the mode and fires into a stopped mode;
    (b) a config player's clear_context removes event handlers by the keys recorded for that context, never by method or by event:
        those remove the handlers of every other context (and of the machine-wide config) too."""
    mode = repo.cls(MD, "Mode")
    n = 0
    for m in mode.methods.values():
        for c in m.calls():
            if call_attr(c) in ("add", "reset", "add_if_doesnt_exist") and isinstance(c.func, ast.Attribute) and src(c.func.value).endswith("delay") and \
                    (kwarg(c, "ms") is not None or kwarg(c, "callback") is not None or len(c.args) >= 2):
                n += 1
                chk.analysed(m)
                chk.ob("SCOPE-7", "a delay armed inside Mode.%s is the mode's own (self.delay), which Mode.stop clears" % m.name, src(c.func.value) == "self.delay", m.where(c),
                       detail="armed on %s" % src(c.func.value), construct=m.ident, text="mode delay armed on " + src(c.func.value))
    chk.ob("SCOPE-7", "delays armed inside Mode examined", n >= 1, mode.where(), detail=str(n), nontrivial=False)
    k = 0
    for cls in repo.all_classes("mpf/"):
        cc = cls.methods.get("clear_context")
        if cc is None:
            continue
        k += 1
        for c in cc.calls():
            if call_attr(c) in ("remove_handler", "remove_handler_by_event", "remove_all_handlers_for_event") and "events" in src(c.func.value):
                chk.analysed(cc)
                chk.ob("SCOPE-7", "%s.clear_context removes handlers only by the keys recorded for its context" % cls.name, False, cc.where(c),
                       detail="`%s` removes the handlers of other contexts as well" % short(c, 70), construct=cc.ident,
                       text="clear_context of %s removes handlers by %s" % (cls.name, call_attr(c)))
    chk.ob("SCOPE-7", "clear_context implementations examined (%d): none removes handlers by method or by event" % k, k >= 10, "mpf/config_players:1", nontrivial=False)


def _handler_keys(chk, repo):
    """KEY-7: the key add_handler hands back finds the registration again.  The handler is filed under the *parsed* event name (the
    `{condition}` / `.priority` suffix stripped); the returned EventHandlerKey must carry that same name and the very key stored in the
    registration, and remove_handler_by_key looks under key.event for key.key.  With the raw event string in the key, removal by key
    silently finds nothing for every conditional / prioritised event: the mode's handlers survive the mode."""
    EV = "mpf/core/events.py"
    f = repo.func(EV, "EventManager.add_handler")
    chk.analysed(f)
    cfg = f.cfg()
    parse = [n for n in cfg.nodes if n.kind == "stmt" and isinstance(n.ast, ast.Assign) and isinstance(n.ast.value, ast.Call) and
             call_attr(n.ast.value) == "get_event_and_condition_from_string"]
    chk.need(len(parse) == 1 and isinstance(parse[0].ast.targets[0], ast.Tuple), "KEY-7", "add_handler parses the event string", f)
    ev = src(parse[0].ast.targets[0].elts[0])
    # (a local alias of the handler list - `handlers = self.registered_handlers[event]; handlers.append(..)` - is the list itself)
    alias = {src(x.targets[0]): x.value for x in walk_local(f.node) if isinstance(x, ast.Assign) and isinstance(x.targets[0], ast.Name) and
             isinstance(x.value, ast.Subscript) and "registered_handlers" in src(x.value.value)}
    app = [(n, c) for n, c in cfg.calls_named("append") if "registered_handlers" in src(c.func) or src(c.func.value) in alias]
    chk.need(len(app) == 1, "KEY-7", "add_handler files the registration", f)
    an, ac = app[0]
    lst = alias.get(src(ac.func.value), ac.func.value)
    filed = src(lst.slice) if isinstance(lst, ast.Subscript) else None
    rh = ac.args[0] if ac.args else None
    k_stored = src(rh.args[3]) if isinstance(rh, ast.Call) and len(rh.args) > 3 else None
    ok = filed == ev and cfg.dominates(parse[0].id, an.id)
    chk.ob("KEY-7", "the handler is filed under the parsed event name", ok, f.where(ac), detail="filed under %s" % filed, construct=f.ident, text="filed under " + str(filed))
    keys = [(n, c) for n in cfg.nodes if n.kind == "stmt" for c in n.calls() if isinstance(c.func, ast.Name) and c.func.id == "EventHandlerKey"]
    rets = [n for n in cfg.nodes if n.kind == "stmt" and isinstance(n.ast, ast.Return) and n.ast.value is not None]
    chk.need(len(keys) == 1 and rets, "KEY-7", "add_handler returns an EventHandlerKey", f)
    kn, kc = keys[0]
    k_ret = src(kc.args[0]) if kc.args else None
    e_ret = src(kc.args[1]) if len(kc.args) > 1 else None
    same_key = k_stored is not None and k_ret is not None and (k_stored == k_ret or k_stored == k_ret + ".key" or k_stored.split(".")[0] == k_ret.split(".")[0] and
                                                               not isinstance(kc.args[0], ast.Call))
    ok = e_ret == ev and cfg.dominates(parse[0].id, kn.id) and same_key
    chk.ob("KEY-7", "the returned key carries the parsed event name (read after parsing) and the key stored in the registration", ok, f.where(kc),
           detail="EventHandlerKey(%s, %s) built %s the event string is parsed; registration stores %s" % (
               k_ret, e_ret, "after" if cfg.dominates(parse[0].id, kn.id) else "before", k_stored), construct=f.ident, text="returned handler key")
    r = repo.func(EV, "EventManager.remove_handler_by_key")
    chk.analysed(r)
    rc = r.cfg()
    lp = [h for h in rc.nodes if h.kind == "loop" and "registered_handlers[key.event]" in src(h.ast.iter).replace(" ", "")]
    rm = [(n, c) for n, c in rc.calls_named("remove") if "registered_handlers[key.event]" in src(c.func).replace(" ", "")]
    ok = bool(lp) and len(rm) == 1
    if ok:
        from sa.helpers import inloop_guards
        from sa.cfg import canon_fact
        v = src(lp[0].ast.target)
        ok = inloop_guards(rc, rm[0][0].id, lp[0].id) == {canon_fact("%s.key == key.key" % v, True)}
    chk.ob("KEY-7", "removal by key looks under key.event and removes exactly the registrations whose key is key.key", ok, r.where(), construct=r.ident,
           text="removal by key lookup")
    # the list form removes every key it is given, each through the by-key removal
    rl = repo.func(EV, "EventManager.remove_handlers_by_keys")
    lc = rl.cfg()
    plist = [a.arg for a in rl.node.args.args if a.arg != "self"]
    loops = [h for h in lc.nodes if h.kind == "loop" and plist and src(h.ast.iter) in (plist[0], "list(%s)" % plist[0], "%s[:]" % plist[0])
             and isinstance(h.ast.target, ast.Name)]
    ok = False
    if loops:
        from sa.helpers import inloop_guards
        h = loops[0]
        for n, c in lc.calls_named("remove_handler_by_key"):
            if c.args and src(c.args[0]) == h.ast.target.id and not c.keywords and inloop_guards(lc, n.id, h.id) == set():
                ok = True
    chk.ob("KEY-7", "removal of a key list removes every key of the list through the by-key removal", ok, rl.where(), construct=rl.ident,
           detail="keys grouped per event or filtered leave registrations behind when several keys share one event (a mode with two "
                  "conditional entries on the same event): the mode's handlers survive its stop and fire again in later runs",
           text="key list removal visits every key")


def _gate7(chk):
    # GATE-7: the previous run's clean-up (the completion callback of mode_<name>_stopped: handlers and devices removed) runs *after* the handlers
    # of that event.  start() registers the new run's handlers and devices at once, so it must still be refused (or deferred) while that clean-up
    # is outstanding: some flag that makes start() return early stays set through _stopped and is cleared only in the clean-up, after the removals.
    stp_ = chk.repo.func(MD, "Mode._stopped")
    stt_ = chk.repo.func(MD, "Mode.start")
    chk.analysed(stp_, stt_)
    gates_ = set()
    for x in stt_.node.body:
        if isinstance(x, ast.If) and x.body and isinstance(x.body[-1], ast.Return):
            for y in ast.walk(x.test):
                if isinstance(y, ast.Attribute) and isinstance(y.value, ast.Name) and y.value.id == "self" and isinstance(y.ctx, ast.Load) \
                        and not isinstance(getattr(y, "_parent", None), ast.Call):
                    gates_.add(y.attr)
    gates_ = {g for g in gates_ if g.lstrip("_") in ("active", "starting", "stopping") or "pending" in g or "clean" in g}
    if not gates_:
        chk.ob("GATE-7", "Mode.start refuses a request on lifecycle flags", False, stt_.where(), construct=stt_.ident, text="start gates")
        return
    cbs_ = [kwarg(c, "callback") for c in stp_.calls() if call_attr(c) == "post" and kwarg(c, "callback") is not None]
    if not (len(cbs_) == 1 and isinstance(cbs_[0], ast.Attribute)) or chk.repo.try_func(MD, "Mode." + cbs_[0].attr) is None:
        return      # TRACE-2 / DOM-15 report a missing or different clean-up callback
    cln_ = chk.repo.func(MD, "Mode." + cbs_[0].attr)
    chk.analysed(cln_)
    ccfg_ = cln_.cfg()
    removals_ = [n for n, c in ccfg_.calls_named("_remove_mode_event_handlers", "_remove_mode_devices")]
    if len(removals_) < 2:
        return      # DOM-15 reports missing removals

    def _clears(fn, g):
        return [x for x in walk_local(fn.node) if isinstance(x, ast.Assign) and src(x.targets[0]) in ("self." + g, "self." + g.lstrip("_"))
                and src(x.value) in ("False", "None", "0")]
    held_ = []
    for g in sorted(gates_):
        late = [x for x in _clears(cln_, g) if all(ccfg_.dominates(r.id, n.id) for r in removals_ for n in ccfg_.nodes if n.kind == "stmt" and n.ast is x)]
        if not _clears(stp_, g) and late:
            held_.append(g)
    chk.ob("GATE-7", "start() is refused or deferred until the previous run's clean-up has removed that run's handlers and devices (a flag start() "
           "tests stays set through _stopped and is cleared only after the removals)", bool(held_), stp_.where(),
           detail="start() tests %s; _stopped clears %s before it posts the event whose completion callback (%s) does the removals: a start() issued "
           "by a handler of mode_<name>_stopped is accepted and the clean-up then strips the new run" % (sorted(gates_),
           [g for g in sorted(gates_) if _clears(stp_, g)], cln_.name), construct=stp_.ident, text="start accepted before the previous run's clean-up")


def battery():
    from sa.battery import M
    EP = "mpf/config_players/event_player.py"
    return [
        M("slam tilt handler looked up under the tilt tag on removal", "mpf/modes/tilt/code/tilt.py", "                self.tilt_config['slam_tilt_switch_tag']):\n            self.machine.switch_controller.remove_switch_handler(", "                self.tilt_config['tilt_switch_tag']):\n            self.machine.switch_controller.remove_switch_handler(", "PAIR-9"),
        M("start callback kept when a later start gives none", MD, "        self.start_callback = callback\n", "        if callback:\n            self.start_callback = callback\n", "PAIR-8"),
        M("sequence shot keeps its half-finished sequences on unload", "mpf/devices/sequence_shot.py", "        self._remove_handlers()\n        self.reset_all_sequences()\n        self.delay.clear()", "        self._remove_handlers()\n        self.delay.clear()", "PAIR-8"),
        M("combo switch forgets its delays by name", "mpf/devices/combo_switch.py", "    def _kill_delays(self):\n        self.delay.clear()", "    def _kill_delays(self):\n        for group in (1, 2):\n            self.delay.remove('switch_{}_active'.format(group))\n            self.delay.remove('switch_{}_inactive'.format(group))", "PAIR-8"),
        M("logic block keeps its timeout on unload (F23 reverted)", "mpf/devices/logic_blocks.py", "        self.delay.remove(\"timeout\")\n        self._state = None", "        self._state = None", "PAIR-8"),
        M("multiball keeps its delays on unload (F24 reverted)", "mpf/devices/multiball.py", "            self.stop()\n\n        self.delay.clear()\n", "            self.stop()\n", "PAIR-8"),
        M("start refused after flag", MD, "        if self.config['mode']['game_mode'] and not (self.machine.game and self.player):\n            self.warning_log(\"Can only start mode %s during a game. Aborting start.\", self.name)\n            return\n\n        if self._active:\n            self.debug_log(\"Mode is already active. Aborting start.\")\n            return\n\n        if self._starting:\n            self.debug_log(\"Mode already starting. Aborting start.\")\n            return\n\n        self._starting = True\n", "        if self._active:\n            self.debug_log(\"Mode is already active. Aborting start.\")\n            return\n\n        if self._starting:\n            self.debug_log(\"Mode already starting. Aborting start.\")\n            return\n\n        self._starting = True\n\n        if self.config['mode']['game_mode'] and not (self.machine.game and self.player):\n            self.warning_log(\"Can only start mode %s during a game. Aborting start.\", self.name)\n            return\n", "FLAG-1"),
        M("double start allowed", MD, "        if self._starting:\n            self.debug_log(\"Mode already starting. Aborting start.\")\n            return\n", "", "FLAG-1"),
        M("started event before active", MD, "        self.active = True\n        self._starting = False\n\n        for event_name in self.config['mode']['events_when_started']:", "        for event_name in self.config['mode']['events_when_started']:", "FLAG-1"),
        M("will_stop after stopping", MD, "        self.machine.events.post('mode_' + self.name + '_will_stop')", "        self.machine.events.post('mode_' + self.name + '_stopping_soon')", "TRACE-2"),
        M("stopped callback dropped", MD, "        self.machine.events.post('mode_' + self.name + '_stopped',\n                                 callback=self._mode_stopped_callback)", "        self.machine.events.post('mode_' + self.name + '_stopped')", "TRACE-2"),
        M("starting is a plain event", MD, "        self.machine.events.post_queue(event=MODE_STARTING_EVENT_TEMPLATE.format(self.name),\n                                       callback=self._started, **starting_kwargs)", "        self.machine.events.post(event=MODE_STARTING_EVENT_TEMPLATE.format(self.name),\n                                 callback=self._started, **starting_kwargs)", "TRACE-2"),
        M("untracked handler in mode", MD, "                self.add_mode_event_handler(event=event, handler=self.stop,\n                                            priority=self.config['mode']['stop_priority'] + 1)", "                self.machine.events.add_handler(event=event, handler=self.stop,\n                                                priority=self.config['mode']['stop_priority'] + 1)", "OWN-7"),
        M("key not tracked", MD, "        self.event_handlers.add(key)\n", "", "OWN-7"),
        M("switch handlers survive stop", MD, "        self._remove_mode_switch_handlers()\n\n        self.delay.clear()", "        self.delay.clear()", "DOM-15"),
        M("devices not removed", MD, "        self._remove_mode_event_handlers()\n        self._remove_mode_devices()\n", "        self._remove_mode_event_handlers()\n", "DOM-15"),
        M("key list collapsed per event", "mpf/core/events.py", "        for key in key_list:\n            self.remove_handler_by_key(key)", "        for key in {key.event: key for key in key_list}.values():\n            self.remove_handler_by_key(key)", ("KEY-7", "RANGE-0")),
        M("twin: key list copied before removal", "mpf/core/events.py", "        for key in key_list:\n            self.remove_handler_by_key(key)", "        for key in list(key_list):\n            self.remove_handler_by_key(key)", None),
        M("handler set not reset", MD, "            self.machine.events.remove_handler_by_key(key)\n        self.event_handlers = set()", "            self.machine.events.remove_handler_by_key(key)", "DOM-15"),
        M("stop methods skipped when no callback", MD, "        for item in self.stop_methods:\n            item[0](item[1])", "        for item in (self.stop_methods if self.stop_callbacks else []):\n            item[0](item[1])", "DOM-15"),
        M("event player keeps condition state", EP, "    def clear_context(self, context):\n        \"\"\"Forget the condition values seen in this context.\"\"\"\n        self._reset_instance_dict(context)\n\n", "", "SIB-1"),
        M("light player keeps its records after clear", "mpf/config_players/light_player.py", "            light.remove_from_stack_by_key(full_context)\n\n        self._reset_instance_dict(context)", "            light.remove_from_stack_by_key(full_context)\n", "SIB-1"),
        M("stop callbacks run before the clean-up", MD, "        # Clean up the mode handlers and devices\n        self._remove_mode_event_handlers()\n        self._remove_mode_devices()\n\n        for callback in self.stop_callbacks:\n            callback()\n\n        self.stop_callbacks = []", "        for callback in self.stop_callbacks:\n            callback()\n\n        self.stop_callbacks = []\n\n        # Clean up the mode handlers and devices\n        self._remove_mode_event_handlers()\n        self._remove_mode_devices()", "DOM-15"),
        M("twin: stop callbacks swapped out before they run", MD, "        for callback in self.stop_callbacks:\n            callback()\n\n        self.stop_callbacks = []", "        stop_callbacks = self.stop_callbacks\n        self.stop_callbacks = []\n        for callback in stop_callbacks:\n            callback()", None),
        M("timer stopped only when running at unload", "mpf/devices/timer.py", "        \"\"\"Stop this timer and also removes all the control events.\"\"\"\n        self.stop()", "        \"\"\"Stop this timer and also removes all the control events.\"\"\"\n        if self.running:\n            self.stop()", "PAIR-9"),
        M("mode switch handlers not removed", MD, "        for handler in self.switch_handlers:\n            self.machine.switch_controller.remove_switch_handler_by_key(handler)\n", "", "DOM-15"),
        M("mode switch handlers: loop without removal", MD, "            self.machine.switch_controller.remove_switch_handler_by_key(handler)\n", "            pass\n", "DOM-15"),
        M("mode handler kwargs dropped", MD, "self.priority + priority, mode=self, **kwargs)", "self.priority + priority, mode=self)", "OWN-7"),
        M("mode handler key not returned", MD, "        self.event_handlers.add(key)\n\n        return key", "        self.event_handlers.add(key)", "OWN-7"),
        M("blinkenlight colours stay after the mode", "mpf/config_players/blinkenlight_player.py", "            blinkenlight.remove_color_with_key(key)\n        self._reset_instance_dict(context)", "            pass\n        self._reset_instance_dict(context)", "SIB-1"),
        M("clear_context without reset", "mpf/config_players/coil_player.py", "        self._reset_instance_dict(context)", "        pass", "SIB-1"),
        M("mode_stop keeps handlers", CP, "        self.unload_player_events(self.mode_event_keys.pop(mode, list()))\n        self.clear_context(mode.name)", "        self.clear_context(mode.name)", "PAIR-8"),
        M("subscriptions not cancelled", CP, "        for future in key_list[1].values():\n            future.cancel()\n", "", "PAIR-8"),
        M("context cleared by object not name", CP, "        self.clear_context(mode.name)", "        self.clear_context(mode)", "PAIR-8"),
        M("shot group keeps hit handler", "mpf/devices/shot_group.py", "        self.machine.events.remove_handler(self._hit)\n", "", "PAIR-9"),
        M("state machine keeps handlers", "mpf/devices/state_machine.py", "        self.machine.events.remove_handlers_by_keys(self._handlers)", "        pass", "PAIR-9"),
        M("enable guard reads backing field", ED, "        if self.enabled is True:\n            return\n        self.enabled = True\n        self.notify_virtual_change(\"enabled\", False, True)      # type: ignore", "        if self._enabled is True:\n            return\n        self.enabled = True\n        self.notify_virtual_change(\"enabled\", False, True)      # type: ignore", "FLAG-5"),
        M("disable guard dropped", ED, "        if self.enabled is False:\n            return\n        self.enabled = False\n        self.notify_virtual_change(\"enabled\", True, False)\n        self._disable()", "        self.enabled = False\n        self.notify_virtual_change(\"enabled\", True, False)\n        self._disable()", "FLAG-5"),
        M("active list not sorted on removal", MC, "            self.active_modes.remove(mode)\n\n        # sort the active mode list by priority\n        self.active_modes.sort(key=lambda x: (x.priority, x.name), reverse=True)", "            self.active_modes.remove(mode)\n            return\n\n        # sort the active mode list by priority\n        self.active_modes.sort(key=lambda x: (x.priority, x.name), reverse=True)", "SORT-2"),
        M("active list ascending", MC, "self.active_modes.sort(key=lambda x: (x.priority, x.name), reverse=True)", "self.active_modes.sort(key=lambda x: (x.priority, x.name))", "SORT-2"),
        M("foreign module edits active list", "mpf/core/machine.py", "        if not self.modes['attract'] in self.mode_controller.active_modes:", "        self.mode_controller.active_modes.sort()\n        if not self.modes['attract'] in self.mode_controller.active_modes:", "OWN-8"),
        # twins
        M("twin: format-style event name", MD, "self.machine.events.post('mode_' + self.name + '_will_stop')", "self.machine.events.post('mode_{}_will_stop'.format(self.name))", None),
        M("twin: clear via loop var rename", MD, "        for key in self.event_handlers:\n            self.machine.events.remove_handler_by_key(key)", "        for key in list(self.event_handlers):\n            self.machine.events.remove_handler_by_key(key)", None),
        M("twin: guard with ==", ED, "        if self.enabled is False:\n            return", "        if self.enabled == False:\n            return", None),
        M("some start methods' undo is not recorded", MD, "                if result:\n                    self.stop_methods.append(result)", "                if result and item.config_section:\n                    self.stop_methods.append(result)", "DOM-15"),
        M("stop methods run only for the first", MD, "        for item in self.stop_methods:\n            item[0](item[1])", "        for item in self.stop_methods:\n            item[0](item[1])\n            break", "DOM-15"),
        M("returned handler key carries the raw event string", "mpf/core/events.py", "        event, condition, additional_priority = self.get_event_and_condition_from_string(event)\n        priority += additional_priority\n\n        key = uuid.uuid4()", "        raw_event = event\n        event, condition, additional_priority = self.get_event_and_condition_from_string(event)\n        priority += additional_priority\n\n        key = uuid.uuid4()", "KEY-7", also=[("mpf/core/events.py", "        return EventHandlerKey(key, event)", "        return EventHandlerKey(key, raw_event)")]),
        M("returned handler key is a fresh uuid", "mpf/core/events.py", "        return EventHandlerKey(key, event)", "        return EventHandlerKey(uuid.uuid4(), event)", "KEY-7"),
        M("delayed control event armed on the machine-wide delay manager", MD, "        self.delay.add(ms=ms_delay, callback=callback, mode=self)", "        self.machine.delay.add(ms=ms_delay, callback=callback, mode=self)", "SCOPE-7"),
        M("relay player clears every context's handlers", "mpf/config_players/queue_relay_player.py", "        for queue, handler in self._get_instance_dict(context).items():\n            self.machine.events.remove_handler_by_key(handler)\n            queue.clear()", "        self.machine.events.remove_handler(self._callback)\n        for queue in self._get_instance_dict(context):\n            queue.clear()", "SCOPE-7"),
        M("start queue released but not forgotten", "mpf/core/mode.py", "            self._mode_start_wait_queue.clear()\n            self._mode_start_wait_queue = None", "            self._mode_start_wait_queue.clear()", "PAIR-2"),
        M("config player plays for a stopped mode", "mpf/core/config_player.py", "            if not mode.active:\n                # It's possible that an earlier event could have stopped the\n                # mode before this event was handled, so just double-check to\n                # make sure the mode is still active before proceeding.\n                return None\n", "", "PAIR-8"),
    ]


def thorough(chk):
    from sa.battery import run_battery
    run_battery(chk, battery())
