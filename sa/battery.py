"""Sensitivity battery (thorough tier): every rule instance is re-run on an
in-memory mutant of the *current* tree and must fire; behaviour-preserving
twins must stay silent.  Mutants are text edits applied to the parsed source
held in memory -- nothing is written to /repo.  A mutant that does not apply
to the current text (the site was edited) is skipped and listed, never failed.

A missed mutant or a firing twin means the *checker* is wrong: ANALYSIS-ERROR
(exit 2), never a VIOLATION.
"""
import importlib
import multiprocessing as mp
import os

from sa.model import AnalysisError
from sa.report import Check, run_rules

_G = {}


class M:
    """One mutant (expect = rule id(s) that must fire) or twin (expect=None)."""

    def __init__(self, name, relpath, old, new, expect=None, nth=0, also=None):
        self.name = name
        self.relpath = relpath
        self.old = old
        self.new = new
        self.expect = (expect,) if isinstance(expect, str) else (tuple(expect) if expect else None)
        self.nth = nth          # which occurrence (0-based); -1 = all
        self.also = also or []  # further (relpath, old, new) edits of the same mutant


def _apply(text, old, new, nth):
    if old not in text:
        return None
    if nth == -1:
        return text.replace(old, new)
    pos = -1
    for _ in range(nth + 1):
        pos = text.find(old, pos + 1)
        if pos < 0:
            return None
    return text[:pos] + new + text[pos + len(old):]


def _text_of(repo, rel):
    if rel in repo.modules:
        return repo.modules[rel].text
    return repo.read_text(rel)


def _run_one(i):
    prop, base_keys, base_rules = _G["prop"], _G["base_keys"], _G["base_rules"]
    m = _G["items"][i]
    repo = _G["repo"]
    overlay = {}
    for rel, old, new, nth in [(m.relpath, m.old, m.new, m.nth)] + [(a[0], a[1], a[2], 0) for a in m.also]:
        t = overlay.get(rel) or _text_of(repo, rel)
        t2 = _apply(t, old, new, nth)
        if t2 is None:
            return (i, "skipped", "text not found in %s" % rel)
        overlay[rel] = t2
    try:
        r2 = repo.with_overlay(overlay)
        mod = importlib.import_module("sa.rules.%s" % prop.lower())
        chk = Check(prop, "quick", r2, quiet=True)
        run_rules(mod, chk)
        new = [v for v in chk.violations if v["key"] not in base_keys]
        if not new:
            try:
                chk.check_floors()
            except AnalysisError as e:
                return (i, "analysis-error", str(e))
    except AnalysisError as e:
        return (i, "analysis-error", str(e))
    except SyntaxError as e:
        return (i, "skipped", "mutant does not parse: %s" % e)
    if m.expect is None:
        if new:
            return (i, "twin-fired", "; ".join("%s %s" % (v["rule"], v["instance"]) for v in new[:3]))
        return (i, "twin-silent", "")
    hit = [v for v in new if v["rule"] in m.expect]
    if hit:
        return (i, "fired", "%s @ %s" % (hit[0]["rule"], hit[0]["where"]))
    if any(r in base_rules for r in m.expect):
        return (i, "skipped", "rule already violated on the base tree")
    other = [v["rule"] for v in new]
    return (i, "missed", "expected %s, new violations: %s" % (list(m.expect), other))


def run_battery(chk, items, jobs=None):
    """Run mutants/twins for chk.prop against chk.repo; records chk.battery and
    raises AnalysisError when the checker is insensitive or over-strict."""
    if not items:
        chk.battery = {"mutants_total": 0, "twins_total": 0}
        return
    _G.update(prop=chk.prop, repo=chk.repo, items=items,
              base_keys={v["key"] for v in chk.violations}, base_rules={v["rule"] for v in chk.violations})
    jobs = jobs or min(16, os.cpu_count() or 4, len(items))
    res = []
    if jobs > 1:
        ctx = mp.get_context("fork")
        with ctx.Pool(jobs) as pool:
            res = pool.map(_run_one, range(len(items)), chunksize=1)
    else:
        res = [_run_one(i) for i in range(len(items))]
    out = {"mutants_total": 0, "mutants_fired": 0, "twins_total": 0, "twins_silent": 0,
           "missed": [], "twins_fired": [], "skipped": [], "analysis_error_mutants": [], "fired": []}
    for i, status, info in res:
        m = items[i]
        if m.expect is None:
            out["twins_total"] += 1
        else:
            out["mutants_total"] += 1
        if status == "fired":
            out["mutants_fired"] += 1
            out["fired"].append("%s -> %s" % (m.name, info))
        elif status == "twin-silent":
            out["twins_silent"] += 1
        elif status == "missed":
            out["missed"].append("%s: %s" % (m.name, info))
        elif status == "twin-fired":
            out["twins_fired"].append("%s: %s" % (m.name, info))
        elif status == "skipped":
            out["skipped"].append("%s: %s" % (m.name, info))
        elif status == "analysis-error":
            # a mutant that makes the analysis refuse to run is also detected (exit 2 on that tree),
            # but it is not a *violation* report: list separately
            if m.expect is None:
                out["twins_fired"].append("%s: analysis error %s" % (m.name, info))
            else:
                out["analysis_error_mutants"].append("%s: %s" % (m.name, info))
    chk.battery = out
    if not chk.quiet:
        print("  battery: mutants fired %d/%d, twins silent %d/%d, skipped %d, analysis-error %d" % (
            out["mutants_fired"], out["mutants_total"], out["twins_silent"], out["twins_total"],
            len(out["skipped"]), len(out["analysis_error_mutants"])))
        for k in ("missed", "twins_fired", "skipped", "analysis_error_mutants"):
            for x in out[k]:
                print("    %s: %s" % (k, x))
    if out["missed"] or out["twins_fired"]:
        raise AnalysisError("sensitivity battery: missed=%s twins_fired=%s" % (out["missed"], out["twins_fired"]))
