"""Reader for the YAML subset used by mpf/config_spec.yaml and
mpf/mpfconfig.yaml: nested block mappings with scalar leaves, `#` comments,
and block lists of scalars.  Scalars are returned as *strings* (the spec's
`single|str|None` entries are strings anyway) except that an empty value
introduces a nested mapping.  Line numbers of keys are kept."""
import re

from sa.model import AnalysisError

_key = re.compile(r"^(\s*)((?:\"[^\"]*\"|'[^']*'|[^\s:#][^:#]*?))\s*:(?:\s+(.*)|\s*)$")


class Map(dict):
    """dict with line numbers: self.lines[key] = 1-based line."""

    def __init__(self):
        super().__init__()
        self.lines = {}


def _strip_comment(s):
    out = []
    q = None
    for i, ch in enumerate(s):
        if q:
            if ch == q:
                q = None
        elif ch in "\"'":
            q = ch
        elif ch == "#" and (i == 0 or s[i - 1].isspace()):
            break
        out.append(ch)
    return "".join(out).rstrip()


def _unquote(s):
    s = s.strip()
    if len(s) >= 2 and s[0] == s[-1] and s[0] in "\"'":
        return s[1:-1]
    return s


def load(text, name="<yaml>", sections=None):
    """sections: if given, only these top-level keys are read."""
    root = Map()
    skipping = False
    stack = [(-1, root)]
    pending = None   # (indent, parent, key) awaiting a nested block
    for ln, raw in enumerate(text.splitlines(), 1):
        if raw.startswith("#config_version") or raw.startswith("%") or raw.strip() in ("---", "..."):
            continue
        line = _strip_comment(raw)
        if not line.strip():
            continue
        indent = len(line) - len(line.lstrip(" "))
        body = line.strip()
        if sections is not None:
            if indent == 0:
                mk = _key.match(line)
                skipping = not (mk and _unquote(mk.group(2)) in sections)
            if skipping:
                continue
        if body.startswith("- ") or body == "-":
            # list item under the pending key
            if pending is None:
                raise AnalysisError("%s:%d: list item without key" % (name, ln))
            pind, parent, key = pending
            if not isinstance(parent.get(key), list):
                parent[key] = []
            parent[key].append(_unquote(body[1:].strip()))
            continue
        m = _key.match(line)
        if not m:
            raise AnalysisError("%s:%d: cannot read line: %r" % (name, ln, raw))
        key = _unquote(m.group(2))
        val = m.group(3)
        while stack and stack[-1][0] >= indent:
            stack.pop()
        if not stack:
            raise AnalysisError("%s:%d: bad indentation" % (name, ln))
        parent = stack[-1][1]
        if val is None or val == "":
            child = Map()
            parent[key] = child
            parent.lines[key] = ln
            stack.append((indent, child))
            pending = (indent, parent, key)
        else:
            parent[key] = _unquote(val)
            parent.lines[key] = ln
            pending = None
    # empty nested maps that were really empty scalars -> ''
    def fix(m):
        for k, v in list(m.items()):
            if isinstance(v, Map):
                if not v:
                    m[k] = ""
                else:
                    fix(v)
    fix(root)
    return root
