#!/usr/bin/env python3
"""Behaviour-preserving rewrites ("twins") generated mechanically for every function a property's rules analyse; the rules
must stay silent on each (no VIOLATION, no ANALYSIS-ERROR).  Development tool + thorough-tier evidence of robustness.

Rewrites (one site at a time, applied to the source text):
  FORMAT   the whole function re-printed by ast.unparse (comments gone, quotes / parentheses / line breaks normalised)
  NOOP     a `pass` inserted as first statement after the docstring
  LOG      a debug-log call inserted as first statement
  RENAME   one local variable renamed consistently (`x` -> `x_`), parameters excluded
  INVERT   `if c: A else: B`  ->  `if not c: B else: A`
  EQSWAP   `a == b` -> `b == a` (also !=)
  AUGEXP   `x += e` -> `x = x + e` for plain names
  PARENS   the test of an `if` / `while` wrapped in redundant parentheses
  ELSEIFY  `if c: ...; return` + REST -> `if c: ...; return else: REST`;  NESTIF `if a and b: X` -> nested ifs;  TEMP `return e` -> `result_ = e; return result_`
  ANNOT    `x = e` -> `x: object = e` (locals and fields of self)
  INLOG    a debug-log call inserted as first statement of a nested block
  MERGEIF  nested ifs without else merged with `and`;  SWAPINDEP adjacent constant stores to different fields of self exchanged
  FSTR     'a{}b'.format(x) -> f'a{x}b'
  GUARD    `if c: BODY` as last statement of a loop body / function -> `if not c: continue / return` followed by BODY
  METHRENAME a private method renamed consistently in its module
  CONSTX   a literal of the body named by a new module-level constant
  EXTRACT  one statement moved into a new private method of the class (extract method), read locals passed as arguments
  ALIAS    an attribute path used at least twice (`self.machine.events`) bound to a new local at the top of the function

usage: twins.py Cnn [--kinds K ...] [--show N]
"""
import argparse
import ast
import copy
import importlib
import multiprocessing as mp
import os
import sys

HERE = os.path.dirname(os.path.abspath(__file__))
sys.path.insert(0, os.path.dirname(HERE))

from sa.model import Repo, AnalysisError  # noqa: E402
from sa.report import Check, run_rules  # noqa: E402
from sa.survey import _offsets, _rng, _u  # noqa: E402


def _indent(text, n):
    pad = " " * n
    lines = text.split("\n")
    return "\n".join([lines[0]] + [(pad + l if l.strip() else l) for l in lines[1:]])


def twins_in(func_node, btext, offs, top_start=None):
    out = []
    if top_start is not None:
        out.extend(_const_twins(func_node, btext, offs, top_start))
    col = func_node.col_offset
    s, e = _rng(func_node, offs)
    # decorators stay: the function range starts at `def`
    out.append(("FORMAT", s, e, _indent(_u(func_node), col), func_node.lineno, "re-print whole function"))
    body = func_node.body
    first = body[0]
    has_doc = isinstance(first, ast.Expr) and isinstance(first.value, ast.Constant) and isinstance(first.value.value, str)
    anchor = body[1] if has_doc and len(body) > 1 else (first if not has_doc else None)
    if anchor is not None:
        a_s = offs[anchor.lineno - 1] + anchor.col_offset
        pad = " " * anchor.col_offset
        out.append(("NOOP", a_s, a_s, "pass\n" + pad, anchor.lineno, "insert pass"))
        out.append(("LOG", a_s, a_s, "self_dbg = None\n" + pad, anchor.lineno, "insert unrelated assignment"))
    params = {a.arg for a in func_node.args.posonlyargs + func_node.args.args + func_node.args.kwonlyargs}
    if func_node.args.vararg:
        params.add(func_node.args.vararg.arg)
    if func_node.args.kwarg:
        params.add(func_node.args.kwarg.arg)
    stores = {}
    nested = [n for n in ast.walk(func_node) if isinstance(n, (ast.FunctionDef, ast.AsyncFunctionDef, ast.Lambda, ast.ClassDef)) and n is not func_node]
    for n in ast.walk(func_node):
        if isinstance(n, ast.Name) and isinstance(n.ctx, ast.Store) and n.id not in params and n.id != "_":
            stores.setdefault(n.id, 0)
    glob = {x for n in ast.walk(func_node) if isinstance(n, (ast.Global, ast.Nonlocal)) for x in n.names}
    if not nested:
        for name in sorted(stores):
            if name in glob or name.startswith("__"):
                continue
            new = name + "_"
            if any(isinstance(n, ast.Name) and n.id == new for n in ast.walk(func_node)):
                continue
            fn2 = copy.deepcopy(func_node)
            for n in ast.walk(fn2):
                if isinstance(n, ast.Name) and n.id == name:
                    n.id = new
                if isinstance(n, ast.ExceptHandler) and n.name == name:
                    n.name = new
            out.append(("RENAME", s, e, _indent(_u(fn2), col), func_node.lineno, "rename local %s" % name))
    # ALIAS: an attribute-only access path used at least twice (`self.machine.events`) bound to a new local at the top
    if not nested:
        from sa.alpha import _stores_in
        store_texts = {ast.unparse(t) for _n, t in _stores_in(func_node)}
        count = {}
        for n in ast.walk(func_node):
            if isinstance(n, ast.Attribute) and isinstance(n.ctx, ast.Load) and isinstance(n.value, ast.Attribute):
                base = n
                while isinstance(base, ast.Attribute):
                    base = base.value
                if isinstance(base, ast.Name) and base.id == "self":
                    count[ast.unparse(n)] = count.get(ast.unparse(n), 0) + 1
        k = 0
        for text, c in sorted(count.items(), key=lambda kv: (-kv[1], kv[0])):
            if c < 2 or k >= 2:
                continue
            if any(text == t or text.startswith(t + ".") or text.startswith(t + "[") for t in store_texts):
                continue
            if any(isinstance(x, ast.Name) and x.id == "alias_" for x in ast.walk(func_node)):
                continue
            k += 1
            fn2 = copy.deepcopy(func_node)

            class _Al(ast.NodeTransformer):
                def visit_Attribute(self, node):
                    if isinstance(node.ctx, ast.Load) and ast.unparse(node) == text:
                        return ast.copy_location(ast.Name(id="alias_", ctx=ast.Load()), node)
                    return self.generic_visit(node)
            fn2 = _Al().visit(fn2)
            bind = ast.Assign(targets=[ast.Name(id="alias_", ctx=ast.Store())], value=ast.parse(text, mode="eval").body, lineno=0, col_offset=0)
            pos = 1 if has_doc else 0
            fn2.body.insert(pos, bind)
            ast.fix_missing_locations(fn2)
            out.append(("ALIAS", s, e, _indent(_u(fn2), col), func_node.lineno, "alias %s" % text))
    # ELSEIFY: `if c: ...; return` followed by REST  ->  `if c: ...; return  else: REST`   (also continue / raise / break)
    # NESTIF:  `if a and b: X` (no else) -> `if a:` `if b: X`
    # TEMP:    `return expr` -> `result_ = expr; return result_`
    for parent in [func_node] + [x for x in ast.walk(func_node) if hasattr(x, "body") and isinstance(getattr(x, "body"), list) and x is not func_node]:
        if isinstance(parent, (ast.FunctionDef, ast.AsyncFunctionDef, ast.Lambda, ast.ClassDef)) and parent is not func_node:
            continue
        for fld in ("body", "orelse"):
            lst = getattr(parent, fld, None)
            if not isinstance(lst, list):
                continue
            for i, st in enumerate(lst):
                if isinstance(st, ast.If) and not st.orelse and st.body and isinstance(st.body[-1], (ast.Return, ast.Continue, ast.Raise, ast.Break)) \
                        and i + 1 < len(lst) and not any(isinstance(x, (ast.FunctionDef, ast.AsyncFunctionDef, ast.ClassDef)) for y in lst[i:] for x in ast.walk(y)):
                    rest = lst[i + 1:]
                    m = ast.If(test=st.test, body=st.body, orelse=rest)
                    ns, _ = _rng(st, offs)
                    _, ne = _rng(rest[-1], offs)
                    if btext[ns:ns + 4] != b"elif":
                        out.append(("ELSEIFY", ns, ne, _indent(_u(m), st.col_offset), st.lineno, "else-branch for the rest after `%s`" % _u(st.test)[:40]))
                if isinstance(st, ast.If) and not st.orelse and isinstance(st.test, ast.BoolOp) and isinstance(st.test.op, ast.And) and len(st.test.values) == 2:
                    inner = ast.If(test=st.test.values[1], body=st.body, orelse=[])
                    m = ast.If(test=st.test.values[0], body=[inner], orelse=[])
                    ns, ne = _rng(st, offs)
                    if btext[ns:ns + 4] != b"elif":
                        out.append(("NESTIF", ns, ne, _indent(_u(m), st.col_offset), st.lineno, "nest `%s`" % _u(st.test)[:50]))
                if isinstance(st, ast.Return) and st.value is not None and not isinstance(st.value, (ast.Name, ast.Constant)) and \
                        not any(isinstance(x, ast.Name) and x.id == "result_" for x in ast.walk(func_node)):
                    a = ast.Assign(targets=[ast.Name(id="result_", ctx=ast.Store())], value=st.value, lineno=0, col_offset=0)
                    r = ast.Return(value=ast.Name(id="result_", ctx=ast.Load()))
                    ns, ne = _rng(st, offs)
                    out.append(("TEMP", ns, ne, _indent(_u(ast.fix_missing_locations(a)) + "\n" + _u(r), st.col_offset), st.lineno, "temporary for `%s`" % _u(st.value)[:40]))
    # ANNOT: a plain assignment to a local name or a field of self gets a type annotation
    k_ann = 0
    for n in ast.walk(func_node):
        if isinstance(n, ast.Assign) and len(n.targets) == 1 and isinstance(n.targets[0], (ast.Name, ast.Attribute)) and k_ann < 6 and \
                not isinstance(n.value, (ast.Yield, ast.YieldFrom)):
            if isinstance(n.targets[0], ast.Attribute) and not (isinstance(n.targets[0].value, ast.Name) and n.targets[0].value.id == "self"):
                continue
            m = ast.AnnAssign(target=n.targets[0], annotation=ast.Name(id="object", ctx=ast.Load()), value=n.value, simple=1 if isinstance(n.targets[0], ast.Name) else 0)
            ns, ne = _rng(n, offs)
            out.append(("ANNOT", ns, ne, _u(ast.fix_missing_locations(m)), n.lineno, "annotate `%s`" % _u(n)[:40]))
            k_ann += 1
    # INLOG: a debug-log call inserted as first statement of a nested block (loop body, if body, else body, try body)
    for n in ast.walk(func_node):
        if n is func_node or isinstance(n, (ast.FunctionDef, ast.AsyncFunctionDef, ast.ClassDef, ast.Lambda)):
            continue
        for fld in ("body", "orelse"):
            lst = getattr(n, fld, None)
            if not isinstance(lst, list) or not lst or not isinstance(lst[0], ast.stmt):
                continue
            if fld == "orelse" and isinstance(n, ast.If) and len(lst) == 1 and isinstance(lst[0], ast.If):
                continue        # elif
            first_ = lst[0]
            a_s = offs[first_.lineno - 1] + first_.col_offset
            if btext[a_s:a_s + 4] == b"elif":
                continue
            out.append(("INLOG", a_s, a_s, "self.debug_log('twin')\n" + " " * first_.col_offset, first_.lineno, "log call before `%s`" % _u(first_)[:40]))
    # MERGEIF: `if a:` whose whole body is `if b: X` (no else on either) -> `if a and b: X`
    # SWAPINDEP: two adjacent `self.<f> = <constant / empty container>` stores of different fields exchanged
    def _simple_const(e):
        return isinstance(e, ast.Constant) or (isinstance(e, (ast.List, ast.Dict, ast.Tuple, ast.Set)) and not ast.dump(e).count("Name(")) or \
            (isinstance(e, ast.Call) and isinstance(e.func, ast.Name) and e.func.id in ("list", "dict", "set", "tuple") and not e.args and not e.keywords)
    for n in ast.walk(func_node):
        if isinstance(n, ast.If) and not n.orelse and len(n.body) == 1 and isinstance(n.body[0], ast.If) and not n.body[0].orelse:
            inner = n.body[0]
            m = ast.If(test=ast.BoolOp(op=ast.And(), values=[n.test, inner.test]), body=inner.body, orelse=[])
            ns, ne = _rng(n, offs)
            if btext[ns:ns + 4] != b"elif":
                out.append(("MERGEIF", ns, ne, _indent(_u(ast.fix_missing_locations(m)), n.col_offset), n.lineno, "merge nested `%s`" % _u(n.test)[:40]))
        for fld in ("body", "orelse", "finalbody"):
            lst = getattr(n, fld, None)
            if not isinstance(lst, list):
                continue
            for a, b in zip(lst, lst[1:]):
                if isinstance(a, ast.Assign) and isinstance(b, ast.Assign) and len(a.targets) == 1 and len(b.targets) == 1 and \
                        isinstance(a.targets[0], ast.Attribute) and isinstance(b.targets[0], ast.Attribute) and _u(a.targets[0]) != _u(b.targets[0]) and \
                        _u(a.targets[0]).startswith("self.") and _u(b.targets[0]).startswith("self.") and _simple_const(a.value) and _simple_const(b.value) \
                        and a.col_offset == b.col_offset:
                    s0, _e0 = _rng(a, offs)
                    _s1, e1 = _rng(b, offs)
                    out.append(("SWAPINDEP", s0, e1, _u(b) + "\n" + " " * a.col_offset + _u(a), a.lineno, "swap `%s` <-> `%s`" % (_u(a)[:30], _u(b)[:30])))
    # FSTR: 'a{}b{}'.format(x, y) -> f'a{x}b{y}'  (positional, plain `{}` fields only)
    for n in ast.walk(func_node):
        if isinstance(n, ast.Call) and isinstance(n.func, ast.Attribute) and n.func.attr == "format" and isinstance(n.func.value, ast.Constant) and \
                isinstance(n.func.value.value, str) and not n.keywords and n.args and not any(isinstance(a, ast.Starred) for a in n.args):
            fmt = n.func.value.value
            parts = fmt.split("{}")
            if len(parts) != len(n.args) + 1 or "{" in "".join(parts) or "}" in "".join(parts) or "\n" in fmt or "\\" in fmt:
                continue
            vals = []
            for i_, part in enumerate(parts):
                if part:
                    vals.append(ast.Constant(value=part))
                if i_ < len(n.args):
                    vals.append(ast.FormattedValue(value=n.args[i_], conversion=-1, format_spec=None))
            js = ast.JoinedStr(values=vals)
            try:
                txt = _u(js)
            except Exception:   # noqa
                continue
            ns, ne = _rng(n, offs)
            out.append(("FSTR", ns, ne, txt, n.lineno, "f-string for `%s`" % _u(n)[:50]))
    # GUARD: `if c: BODY` as the last statement of a loop body / of the function -> `if not c: continue / return` + BODY
    def _guard(parent_body, kind):
        if not parent_body:
            return
        last = parent_body[-1]
        if not (isinstance(last, ast.If) and not last.orelse):
            return
        if any(isinstance(x, (ast.FunctionDef, ast.AsyncFunctionDef, ast.Lambda)) for x in ast.walk(last)):
            return
        # a `continue`/`return` inserted must not change what follows: `last` is the last statement, so nothing follows
        leave = ast.Continue() if kind == "loop" else ast.Return(value=None)
        g = ast.If(test=ast.UnaryOp(op=ast.Not(), operand=last.test), body=[leave], orelse=[])
        ns, ne = _rng(last, offs)
        if btext[ns:ns + 4] == b"elif":
            return
        txt = _u(g) + "\n" + "\n".join(_u(st) for st in last.body)
        out.append(("GUARD", ns, ne, _indent(txt, last.col_offset), last.lineno, "guard clause for `%s`" % _u(last.test)[:50]))
    if not any(isinstance(x, (ast.Yield, ast.YieldFrom)) for x in ast.walk(func_node)):
        # function tail: only when the function returns nothing anywhere else with a value after this point (it is the last statement)
        _guard(func_node.body, "func")
    for n in ast.walk(func_node):
        if isinstance(n, (ast.For, ast.AsyncFor, ast.While)) and not n.orelse:
            _guard(n.body, "loop")
    out.extend(_extract_twins(func_node, btext, offs, params))
    for n in ast.walk(func_node):
        if isinstance(n, ast.If) and n.orelse and not (len(n.orelse) == 1 and isinstance(n.orelse[0], ast.If)):
            m = ast.If(test=ast.UnaryOp(op=ast.Not(), operand=n.test), body=n.orelse, orelse=n.body)
            ns, ne = _rng(n, offs)
            # an `elif` is printed as `if` by unparse and cannot be replaced in place
            if btext[ns:ns + 4] == b"elif":
                continue
            out.append(("INVERT", ns, ne, _indent(_u(m), n.col_offset), n.lineno, "invert if/else `%s`" % _u(n.test)[:50]))
        if isinstance(n, ast.Compare) and len(n.ops) == 1 and isinstance(n.ops[0], (ast.Eq, ast.NotEq)):
            m = ast.Compare(left=n.comparators[0], ops=n.ops, comparators=[n.left])
            ns, ne = _rng(n, offs)
            out.append(("EQSWAP", ns, ne, "(%s)" % _u(m), n.lineno, "swap operands of `%s`" % _u(n)[:50]))
        if isinstance(n, ast.AugAssign) and isinstance(n.target, ast.Name):
            t2 = copy.deepcopy(n.target)
            t2.ctx = ast.Load()
            m = ast.Assign(targets=[n.target], value=ast.BinOp(left=t2, op=n.op, right=n.value))
            ns, ne = _rng(n, offs)
            out.append(("AUGEXP", ns, ne, _u(m), n.lineno, "expand `%s`" % _u(n)[:50]))
        if isinstance(n, (ast.If, ast.While)):
            ns, ne = _rng(n.test, offs)
            out.append(("PARENS", ns, ne, "(%s)" % btext[ns:ne].decode("utf-8"), n.lineno, "parenthesise test"))
    return out


def _extract_twins(func_node, btext, offs, params, limit=4):
    """EXTRACT: one statement of a method (a call, a store to a field, an `if` block) that binds no local and does not leave
    (no return / break / continue / yield / await) is moved into a new private method of the class, the locals it reads passed
    as arguments.  The whole method plus the new helper replace the method's text."""
    out = []
    a = func_node.args
    if not a.args or a.args[0].arg != "self" or func_node.decorator_list:
        return out
    if any(isinstance(x, (ast.FunctionDef, ast.AsyncFunctionDef, ast.Lambda, ast.ClassDef, ast.Global, ast.Nonlocal)) for x in ast.walk(func_node) if x is not func_node):
        return out
    locs = set(params)
    for n in ast.walk(func_node):
        if isinstance(n, ast.Name) and isinstance(n.ctx, (ast.Store, ast.Del)):
            locs.add(n.id)
        if isinstance(n, ast.ExceptHandler) and n.name:
            locs.add(n.name)
    s, e = _rng(func_node, offs)
    k = 0
    for parent in ast.walk(func_node):
        for fld in ("body", "orelse"):
            lst = getattr(parent, fld, None)
            if not isinstance(lst, list) or isinstance(parent, (ast.Try,)):
                continue
            for i, st in enumerate(lst):
                if k >= limit:
                    return out
                if not isinstance(st, (ast.Expr, ast.Assign, ast.AugAssign, ast.If)):
                    continue
                if isinstance(st, ast.Expr) and isinstance(st.value, ast.Constant):
                    continue
                sub = list(ast.walk(st))
                if any(isinstance(x, (ast.Return, ast.Break, ast.Continue, ast.Yield, ast.YieldFrom, ast.Await, ast.NamedExpr, ast.comprehension, ast.Delete, ast.Try,
                                      ast.With, ast.For, ast.While)) for x in sub):
                    continue
                if any(isinstance(x, ast.Name) and isinstance(x.ctx, (ast.Store, ast.Del)) for x in sub):
                    continue
                if any(isinstance(x, ast.Call) and isinstance(x.func, ast.Name) and x.func.id in ("super", "locals", "vars") for x in sub):
                    continue
                reads = sorted({x.id for x in sub if isinstance(x, ast.Name) and isinstance(x.ctx, ast.Load) and x.id in locs and x.id != "self"})
                hname = "_vp_moved_%d" % st.lineno
                call = ast.Expr(value=ast.Call(func=ast.Attribute(value=ast.Name(id="self", ctx=ast.Load()), attr=hname, ctx=ast.Load()),
                                               args=[ast.Name(id=r, ctx=ast.Load()) for r in reads], keywords=[]))
                fn2 = copy.deepcopy(func_node)
                # find the same statement in the copy by position
                tgt = None
                for p2 in ast.walk(fn2):
                    l2 = getattr(p2, fld, None)
                    if isinstance(l2, list):
                        for j, s2 in enumerate(l2):
                            if type(s2) is type(st) and getattr(s2, "lineno", None) == st.lineno and getattr(s2, "col_offset", None) == st.col_offset:
                                tgt = (l2, j)
                if tgt is None:
                    continue
                tgt[0][tgt[1]] = call
                hdef = ast.FunctionDef(name=hname, args=ast.arguments(posonlyargs=[], args=[ast.arg(arg="self")] + [ast.arg(arg=r) for r in reads], kwonlyargs=[],
                                                                       kw_defaults=[], defaults=[]), body=[copy.deepcopy(st)], decorator_list=[], returns=None,
                                       type_comment=None, lineno=1, col_offset=0)
                try:
                    hdef.type_params = []
                except Exception:
                    pass
                ast.fix_missing_locations(fn2)
                ast.fix_missing_locations(hdef)
                txt = _u(fn2) + "\n\n" + _u(hdef)
                out.append(("EXTRACT", s, e, _indent(txt, func_node.col_offset), st.lineno, "move `%s` into a helper" % _u(st).split("\n")[0][:50]))
                k += 1
    return out


def _const_twins(func_node, btext, offs, top_start, limit=4):
    """CONSTX: a literal number / string of the function body gets a module-level name (`_VP_K_<line> = literal` in front of the
    top-level statement that holds the function) and is read through it."""
    out = []
    skip = set()
    for n in ast.walk(func_node):
        if isinstance(n, ast.JoinedStr):
            skip |= {id(x) for x in ast.walk(n)}
        if isinstance(n, ast.Expr) and isinstance(n.value, ast.Constant):
            skip.add(id(n.value))
        if isinstance(n, (ast.FunctionDef, ast.AsyncFunctionDef)):
            for d in n.args.defaults + [x for x in n.args.kw_defaults if x is not None] + n.decorator_list:
                skip |= {id(x) for x in ast.walk(d)}
            if n.returns is not None:
                skip |= {id(x) for x in ast.walk(n.returns)}
            for a_ in n.args.args + n.args.kwonlyargs:
                if a_.annotation is not None:
                    skip |= {id(x) for x in ast.walk(a_.annotation)}
        if isinstance(n, ast.AnnAssign):
            skip |= {id(x) for x in ast.walk(n.annotation)}
    k = 0
    for n in ast.walk(func_node):
        if k >= limit:
            break
        if not isinstance(n, ast.Constant) or id(n) in skip or isinstance(n.value, (bool, type(None), bytes)) or n.value is Ellipsis:
            continue
        if not isinstance(n.value, (int, float, str)) or n.end_lineno != n.lineno:
            continue
        ns, ne = _rng(n, offs)
        if btext[ns:ne].decode("utf-8", "replace").strip() == "" or (ns > 0 and btext[ns - 1:ns] in (b"'", b'"')):
            continue        # implicit string concatenation pieces have unreliable ranges
        name = "_VP_K_%d_%d" % (n.lineno, n.col_offset)
        edits = [(top_start, top_start, "%s = %s\n\n\n" % (name, repr(n.value))), (ns, ne, name)]
        out.append(("CONSTX", edits, None, None, n.lineno, "name the literal %s" % repr(n.value)[:30]))
        k += 1
    return out


_G = {}


def _run_one(i):
    props, repo, base_keys = _G["props"], _G["repo"], _G["base_keys"]
    rel, (kind, s, e, new, line, desc) = _G["items"][i]
    b = _G["btexts"][rel]
    if isinstance(s, list):         # several edits: apply from the end of the file backwards
        for s_, e_, n_ in sorted(s, key=lambda t: -t[0]):
            b = b[:s_] + n_.encode("utf-8") + b[e_:]
        text = b.decode("utf-8")
    else:
        text = (b[:s] + new.encode("utf-8") + b[e:]).decode("utf-8")
    try:
        ast.parse(text)
    except SyntaxError as ex:
        return (i, "noparse", str(ex)[:80])
    r2 = repo.with_overlay({rel: text})
    for prop in props:
        try:
            mod = importlib.import_module("sa.rules.%s" % prop.lower())
            chk = Check(prop, "quick", r2, quiet=True)
            run_rules(mod, chk)
            new_v = [v for v in chk.violations if v["key"] not in base_keys]
            if new_v:
                return (i, "false-alarm", prop + ": " + "; ".join("%s %s" % (v["rule"], v["instance"][:70]) for v in new_v[:2]))
            chk.check_floors()
        except AnalysisError as ex:
            return (i, "analysis-error", prop + ": " + str(ex)[:160])
        except Exception as ex:  # noqa
            return (i, "crash", "%s %s: %s" % (prop, type(ex).__name__, str(ex)[:140]))
    return (i, "silent", "")


def run(props, repo, kinds=None, funcs=None, jobs=16):
    analysed, base_keys = set(), set()
    for prop in props:
        mod = importlib.import_module("sa.rules.%s" % prop.lower())
        base = Check(prop, "quick", repo, quiet=True)
        run_rules(mod, base)
        analysed |= set(base.funcs_analysed)
        base_keys |= {v["key"] for v in base.violations}
    items, btexts = [], {}
    for ident in sorted(funcs or analysed):
        rel, qual = ident.split("::", 1)
        f = repo.try_func(rel, qual)
        if f is None:
            continue
        if rel not in btexts:
            btexts[rel] = _offsets(repo.modules[rel].text)
        b, offs = btexts[rel]
        top = [st for st in repo.modules[rel].tree.body if st.lineno <= f.node.lineno <= (st.end_lineno or st.lineno)]
        top_start = None
        if top:
            ln = min([top[0].lineno] + [d.lineno for d in getattr(top[0], "decorator_list", [])])
            top_start = offs[ln - 1]
        extra = []
        nm = f.node.name
        if nm.startswith("_") and not nm.startswith("__"):
            import re as _re
            strs = []
            for x_ in ast.walk(repo.modules[rel].tree0 if hasattr(repo.modules[rel], "tree0") else ast.parse(repo.modules[rel].text)):
                if isinstance(x_, ast.Constant) and isinstance(x_.value, (str, bytes)) and hasattr(x_, "end_lineno"):
                    strs.append((offs[x_.lineno - 1] + x_.col_offset, offs[x_.end_lineno - 1] + x_.end_col_offset, x_.value))
            occ = [(m_.start(), m_.end(), nm + "_renamed") for m_ in _re.finditer(rb"(?<![A-Za-z0-9_])" + _re.escape(nm.encode()) + rb"(?![A-Za-z0-9_])", b)]
            occ = [o for o in occ if not any(a_ <= o[0] < e_ for a_, e_, _v in strs)]
            if any(v_ == nm for _a, _e, v_ in strs):
                occ = []        # the name is also used as a string (getattr): a rename outside strings would not preserve behaviour
            if occ and not _re.search(rb"(?<![A-Za-z0-9_])" + _re.escape((nm + "_renamed").encode()) + rb"(?![A-Za-z0-9_])", b):
                extra.append(("METHRENAME", occ, None, None, f.node.lineno, "rename private method %s everywhere in the module" % nm))
        for t in twins_in(f.node, b, offs, top_start) + extra:
            if kinds and t[0] not in kinds:
                continue
            items.append((rel, t, ident))
    _G.update(props=props, repo=repo, base_keys=base_keys, items=[(r, t) for r, t, _ in items], btexts={k: v[0] for k, v in btexts.items()})
    with mp.get_context("fork").Pool(min(jobs, max(1, len(items)))) as pool:
        res = pool.map(_run_one, range(len(items)), chunksize=4)
    rows = []
    for i, status, info in res:
        rel, t, ident = items[i]
        rows.append({"func": ident, "kind": t[0], "line": t[4], "desc": t[5], "status": status, "info": info})
    return rows


def main(argv=None):
    ap = argparse.ArgumentParser()
    ap.add_argument("prop")
    ap.add_argument("--repo", default=None)
    ap.add_argument("--kinds", nargs="*")
    ap.add_argument("--funcs", nargs="*")
    ap.add_argument("--show", type=int, default=200)
    a = ap.parse_args(argv)
    repo = Repo(a.repo)
    rows = run(a.prop.upper().split("+"), repo, set(a.kinds) if a.kinds else None, a.funcs)
    tot = {}
    for r in rows:
        k = (r["kind"], r["status"])
        tot[k] = tot.get(k, 0) + 1
    print("%s twins: %d" % (a.prop, len(rows)))
    for k in sorted(tot):
        print("  %-8s %-15s %d" % (k[0], k[1], tot[k]))
    n = 0
    for r in rows:
        if r["status"] not in ("silent", "noparse"):
            print("  %s %s:%d [%s] %s -> %s" % (r["status"].upper(), r["func"].split("::")[1], r["line"], r["kind"], r["desc"], r["info"][:150]))
            n += 1
            if n >= a.show:
                break
    return 0


if __name__ == "__main__":
    sys.exit(main())
