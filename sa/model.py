"""Repository model: parse every mpf/**/*.py (tests and benchmarks excluded),
index modules / classes / functions, resolve imports and linearise class
hierarchies from the AST.  Nothing from the repository is imported or run.
"""
import ast
import hashlib
import os
import re

REPO_DEFAULT = os.environ.get("MPF_VERIF_REPO", "/repo")
EXCLUDE_DIRS = ("mpf/tests", "mpf/benchmarks")


class AnalysisError(Exception):
    """The analysis itself cannot run (vanished anchor, parse error, floor)."""


def src(node):
    """Normalised source text of a node (formatting/comment independent)."""
    if node is None:
        return "None"
    if isinstance(node, str):
        return node
    try:
        return ast.unparse(node)
    except Exception:  # pragma: no cover
        return ast.dump(node)


def canon_eq(a, b, op="=="):
    """Text of `a == b` (or `!=`) in the spelling sa/normal.py produces: constant on the right, otherwise ordered by text."""
    import re as _re
    ca = bool(_re.fullmatch(r"-?[0-9.]+|'[^']*'|\"[^\"]*\"|None|True|False", a))
    cb = bool(_re.fullmatch(r"-?[0-9.]+|'[^']*'|\"[^\"]*\"|None|True|False", b))
    if ca and not cb:
        a, b = b, a
    elif not ca and not cb and a > b:
        a, b = b, a
    return "%s %s %s" % (a, op, b)


def short(node, n=110):
    s = " ".join(src(node).split())
    return s if len(s) <= n else s[:n - 3] + "..."


def dotted(expr):
    """'a.b.c' for Name/Attribute chains, else None."""
    parts = []
    while isinstance(expr, ast.Attribute):
        parts.append(expr.attr)
        expr = expr.value
    if isinstance(expr, ast.Name):
        parts.append(expr.id)
        return ".".join(reversed(parts))
    return None


FUNC_TYPES = (ast.FunctionDef, ast.AsyncFunctionDef)
SCOPE_TYPES = (ast.FunctionDef, ast.AsyncFunctionDef, ast.ClassDef, ast.Lambda)


def walk_local(node, include_lambda=False):
    """Walk `node` without descending into nested defs/classes (and lambdas
    unless include_lambda).  The root itself is always expanded."""
    stack = [node]
    first = True
    while stack:
        n = stack.pop()
        if not first and isinstance(n, (ast.FunctionDef, ast.AsyncFunctionDef, ast.ClassDef)):
            yield n   # the def statement itself is visible, its body is not
            continue
        if not first and isinstance(n, ast.Lambda) and not include_lambda:
            yield n
            continue
        first = False
        yield n
        stack.extend(reversed(list(ast.iter_child_nodes(n))))


def calls_in(node, include_lambda=True):
    for n in walk_local(node, include_lambda=include_lambda):
        if isinstance(n, ast.Call):
            yield n


def call_attr(call):
    """Last attribute / function name of a call: x.y.foo(...) -> 'foo'."""
    if not isinstance(call, ast.Call):
        return None
    f = call.func
    if isinstance(f, ast.Attribute):
        return f.attr
    if isinstance(f, ast.Name):
        return f.id
    return None


def call_recv(call):
    """Receiver expression of a method call or None."""
    f = call.func
    if isinstance(f, ast.Attribute):
        return f.value
    return None


def kwarg(call, name):
    for k in call.keywords:
        if k.arg == name:
            return k.value
    return None


def arg(call, pos, name=None):
    """Positional-or-keyword argument of a call."""
    if len(call.args) > pos and not any(isinstance(a, ast.Starred) for a in call.args[:pos + 1]):
        return call.args[pos]
    if name:
        return kwarg(call, name)
    return None


class Func:
    __slots__ = ("node", "module", "cls", "name", "qualname", "_cfg")

    def __init__(self, node, module, cls):
        self.node = node
        self.module = module
        self.cls = cls
        self.name = node.name
        self.qualname = (cls.name + "." if cls else "") + node.name
        self._cfg = {}

    @property
    def relpath(self):
        return self.module.relpath

    def where(self, node=None):
        ln = getattr(node, "lineno", None) if node is not None else self.node.lineno
        return "%s:%s" % (self.module.relpath, ln if ln is not None else self.node.lineno)

    @property
    def ident(self):
        return "%s::%s" % (self.module.relpath, self.qualname)

    @property
    def is_async(self):
        return isinstance(self.node, ast.AsyncFunctionDef)

    def params(self):
        a = self.node.args
        return [x.arg for x in a.posonlyargs + a.args + a.kwonlyargs]

    @property
    def vararg_kw(self):
        return self.node.args.kwarg.arg if self.node.args.kwarg else None

    def decorators(self):
        out = []
        for d in self.node.decorator_list:
            if isinstance(d, ast.Call):
                d = d.func
            out.append(dotted(d) or src(d))
        return out

    def cfg(self, exc_all=False):
        from sa.cfg import build_cfg
        key = bool(exc_all)
        if key not in self._cfg:
            self._cfg[key] = build_cfg(self.node, exc_all=exc_all)
        return self._cfg[key]

    def calls(self):
        return list(calls_in(self.node))

    def __repr__(self):
        return "<Func %s>" % self.ident


class Cls:
    __slots__ = ("node", "module", "name", "methods", "bases", "attrs")

    def __init__(self, node, module):
        self.node = node
        self.module = module
        self.name = node.name
        self.methods = {}
        self.bases = [dotted(b) or src(b) for b in node.bases]
        self.attrs = {}     # class-level simple assignments name -> value node
        for st in node.body:
            if isinstance(st, FUNC_TYPES):
                # last definition wins, like Python
                self.methods[st.name] = Func(st, module, self)
            elif isinstance(st, ast.Assign):
                for t in st.targets:
                    if isinstance(t, ast.Name):
                        self.attrs[t.id] = st.value
            elif isinstance(st, ast.AnnAssign) and isinstance(st.target, ast.Name) and st.value is not None:
                self.attrs[st.target.id] = st.value

    @property
    def relpath(self):
        return self.module.relpath

    @property
    def ident(self):
        return "%s::%s" % (self.module.relpath, self.name)

    def where(self):
        return "%s:%s" % (self.module.relpath, self.node.lineno)

    def __repr__(self):
        return "<Cls %s>" % self.ident


class Module:
    def __init__(self, relpath, text):
        self.relpath = relpath
        self.text = text
        self.digest = hashlib.sha256(text.encode("utf-8", "replace")).hexdigest()
        try:
            self.tree = ast.parse(text, filename=relpath, type_comments=False)
        except SyntaxError as e:
            raise AnalysisError("parse error in %s: %s" % (relpath, e))
        # locals renamed by a refactoring are renamed back to the names the rules know (sa/alpha.py)
        self.alpha_renamed = 0
        # spelling first, names second: the reference shapes (sa/alpha_refs.json) are recorded from the spelling-normalised tree too
        if os.environ.get("SA_NO_ALPHA") != "1" and os.environ.get("SA_NO_ALIAS") != "1":
            # literals first: a new module constant standing for a literal is put back before spellings are compared
            from sa import alpha
            refs_ = alpha.load_refs().get(relpath)
            if refs_:
                self.alpha_renamed += alpha.inline_new_constants(self.tree, refs_)
        if os.environ.get("SA_NO_NORMAL") != "1":
            from sa import normal
            normal.normalise(self.tree)
        if os.environ.get("SA_NO_ALPHA") != "1":
            from sa import alpha
            self.alpha_renamed += alpha.normalise_module(self.tree, relpath)
        self.name = relpath[:-3].replace("/", ".")
        if self.name.endswith(".__init__"):
            self.name = self.name[:-9]
        self.classes = {}
        self.functions = {}
        self.imports = {}   # local name -> dotted target ('mpf.core.x.Y' or module)
        self.globals = {}   # name -> value node of module-level assignment
        self._index(self.tree.body)

    def _index(self, body):
        for st in body:
            if isinstance(st, ast.ClassDef):
                self.classes[st.name] = Cls(st, self)
            elif isinstance(st, FUNC_TYPES):
                self.functions[st.name] = Func(st, self, None)
            elif isinstance(st, ast.Import):
                for a in st.names:
                    self.imports[a.asname or a.name.split(".")[0]] = a.name if a.asname else a.name.split(".")[0]
            elif isinstance(st, ast.ImportFrom):
                base = st.module or ""
                if st.level:
                    pk = self.name.split(".")
                    pk = pk[:len(pk) - st.level] if not self.relpath.endswith("__init__.py") else pk[:len(pk) - st.level + 1]
                    base = ".".join(pk + ([st.module] if st.module else []))
                for a in st.names:
                    self.imports[a.asname or a.name] = base + "." + a.name
            elif isinstance(st, ast.Assign):
                for t in st.targets:
                    if isinstance(t, ast.Name):
                        self.globals[t.id] = st.value
            elif isinstance(st, ast.AnnAssign) and isinstance(st.target, ast.Name) and st.value is not None:
                self.globals[st.target.id] = st.value
            elif isinstance(st, (ast.If, ast.Try)):
                # `if MYPY:` / `try: import` blocks: index their imports too
                for sub in ast.iter_child_nodes(st):
                    if isinstance(sub, list):
                        continue
                blocks = []
                if isinstance(st, ast.If):
                    blocks = [st.body, st.orelse]
                else:
                    blocks = [st.body, st.orelse, st.finalbody] + [h.body for h in st.handlers]
                for b in blocks:
                    self._index([x for x in b if isinstance(x, (ast.Import, ast.ImportFrom, ast.If, ast.Try))])

    def all_funcs(self):
        for f in self.functions.values():
            yield f
        for c in self.classes.values():
            for f in c.methods.values():
                yield f


class Repo:
    def __init__(self, root=None, overlay=None, base=None):
        self.root = root or REPO_DEFAULT
        self.overlay = dict(overlay or {})
        self.modules = {}
        self.by_modname = {}
        self._mro_cache = {}
        self._sub_cache = None
        self._texts = {}
        if base is not None:
            self._derive(base)
        else:
            self._load()

    def with_overlay(self, overlay):
        """A repo equal to this one except for the given files (relpath ->
        text); unchanged modules are shared (they are never mutated)."""
        return Repo(self.root, overlay=overlay, base=self)

    def _derive(self, base):
        self._texts = dict(base._texts)
        for rel, m in base.modules.items():
            if rel in self.overlay:
                m = Module(rel, self.overlay[rel])
            self.modules[rel] = m
            self.by_modname[m.name] = m
        for rel, text in self.overlay.items():
            if rel.endswith(".py") and rel not in self.modules:
                m = Module(rel, text)
                self.modules[rel] = m
                self.by_modname[m.name] = m

    # ------------------------------------------------------------------ load
    def _load(self):
        top = os.path.join(self.root, "mpf")
        if not os.path.isdir(top):
            raise AnalysisError("repository not found at %s" % self.root)
        paths = []
        for dp, dns, fns in os.walk(top):
            rel = os.path.relpath(dp, self.root).replace(os.sep, "/")
            if any(rel == e or rel.startswith(e + "/") for e in EXCLUDE_DIRS):
                dns[:] = []
                continue
            dns.sort()
            for fn in sorted(fns):
                if fn.endswith(".py"):
                    paths.append(rel + "/" + fn)
        for rel in paths:
            if rel in self.overlay:
                text = self.overlay[rel]
            else:
                with open(os.path.join(self.root, rel), encoding="utf-8", errors="replace") as fh:
                    text = fh.read()
            m = Module(rel, text)
            self.modules[rel] = m
            self.by_modname[m.name] = m
        for rel, text in self.overlay.items():
            if rel.endswith(".py") and rel not in self.modules and not any(rel.startswith(e + "/") for e in EXCLUDE_DIRS):
                m = Module(rel, text)
                self.modules[rel] = m
                self.by_modname[m.name] = m

    def read_text(self, relpath):
        """Non-Python file of the repo (config_spec.yaml, mpfconfig.yaml)."""
        if relpath in self.overlay:
            return self.overlay[relpath]
        if relpath not in self._texts:
            p = os.path.join(self.root, relpath)
            if not os.path.isfile(p):
                raise AnalysisError("anchor file vanished: %s" % relpath)
            with open(p, encoding="utf-8", errors="replace") as fh:
                self._texts[relpath] = fh.read()
        return self._texts[relpath]

    # --------------------------------------------------------------- lookups
    def mod(self, relpath):
        m = self.modules.get(relpath)
        if m is None:
            raise AnalysisError("anchor module vanished: %s" % relpath)
        return m

    def has_mod(self, relpath):
        return relpath in self.modules

    def cls(self, relpath, name):
        c = self.mod(relpath).classes.get(name)
        if c is None:
            raise AnalysisError("anchor class vanished: %s::%s" % (relpath, name))
        return c

    def func(self, relpath, qualname, inherit=True):
        """Function by 'Class.method' or 'func'.  With inherit, a method missing
        on the class is looked up through the MRO."""
        m = self.mod(relpath)
        if "." in qualname:
            cn, fn = qualname.split(".", 1)
            c = m.classes.get(cn)
            if c is None:
                raise AnalysisError("anchor class vanished: %s::%s" % (relpath, cn))
            f = c.methods.get(fn)
            if f is None and inherit:
                f = self.lookup_method(c, fn)
            if f is None:
                raise AnalysisError("anchor method vanished: %s::%s" % (relpath, qualname))
            self._note(f)
            return f
        f = m.functions.get(qualname)
        if f is None:
            raise AnalysisError("anchor function vanished: %s::%s" % (relpath, qualname))
        self._note(f)
        return f

    def _note(self, f):
        """A rule asked for this function by name: it is part of what the running check analyses."""
        cb = getattr(self, "on_func", None)
        if cb is not None:
            cb(f)

    def try_func(self, relpath, qualname):
        try:
            return self.func(relpath, qualname)
        except AnalysisError:
            return None

    def all_funcs(self, prefix=None):
        for rel, m in self.modules.items():
            if prefix and not rel.startswith(prefix):
                continue
            for f in m.all_funcs():
                yield f

    def all_classes(self, prefix=None):
        for rel, m in self.modules.items():
            if prefix and not rel.startswith(prefix):
                continue
            for c in m.classes.values():
                yield c

    # ------------------------------------------------------------ hierarchy
    def resolve_name(self, module, name):
        """Resolve a (possibly dotted) name used in `module` to a Cls or None."""
        head, _, rest = name.partition(".")
        if not rest and head in module.classes:
            return module.classes[head]
        target = module.imports.get(head)
        if target is None:
            return None
        full = target + ("." + rest if rest else "")
        modname, _, attr = full.rpartition(".")
        m = self.by_modname.get(modname)
        if m is not None:
            if attr in m.classes:
                return m.classes[attr]
            # re-export through `from x import Y`
            if attr in m.imports:
                t = m.imports[attr]
                mn, _, at = t.rpartition(".")
                m2 = self.by_modname.get(mn)
                if m2 is not None and at in m2.classes:
                    return m2.classes[at]
        return None

    def resolve_func_name(self, module, name):
        """Resolve a bare/dotted name in `module` to a module-level Func."""
        head, _, rest = name.partition(".")
        if not rest and head in module.functions:
            return module.functions[head]
        target = module.imports.get(head)
        if target is None:
            return None
        full = target + ("." + rest if rest else "")
        modname, _, attr = full.rpartition(".")
        m = self.by_modname.get(modname)
        if m is not None and attr in m.functions:
            return m.functions[attr]
        return None

    def base_classes(self, c):
        out = []
        for b in c.bases:
            r = self.resolve_name(c.module, b)
            if r is not None:
                out.append(r)
        return out

    def mro(self, c):
        key = c.ident
        if key in self._mro_cache:
            return self._mro_cache[key]
        self._mro_cache[key] = [c]   # recursion guard
        seqs = [self.mro(b)[:] for b in self.base_classes(c)] + [self.base_classes(c)[:]]
        res = [c]
        # C3 merge, falling back to depth-first on inconsistency
        while True:
            seqs = [s for s in seqs if s]
            if not seqs:
                break
            cand = None
            for s in seqs:
                h = s[0]
                if not any(h in t[1:] for t in seqs):
                    cand = h
                    break
            if cand is None:
                cand = seqs[0][0]
            if cand not in res:
                res.append(cand)
            for s in seqs:
                if s and s[0] is cand:
                    del s[0]
        self._mro_cache[key] = res
        return res

    def lookup_method(self, c, name, skip_self=False):
        for k in self.mro(c)[1 if skip_self else 0:]:
            if name in k.methods:
                return k.methods[name]
        return None

    def lookup_attr(self, c, name):
        for k in self.mro(c):
            if name in k.attrs:
                return k.attrs[name]
        return None

    def is_subclass(self, c, base):
        return any(k is base for k in self.mro(c))

    def subclasses(self, base, strict=True):
        out = []
        for c in self.all_classes():
            if c is base and strict:
                continue
            if self.is_subclass(c, base):
                out.append(c)
        return out

    def classes_named(self, name):
        return [c for c in self.all_classes() if c.name == name]

    def digest(self, relpaths=None):
        h = hashlib.sha256()
        for rel in sorted(relpaths or self.modules):
            m = self.modules.get(rel)
            if m:
                h.update(rel.encode())
                h.update(m.digest.encode())
        return h.hexdigest()[:16]


def const_value(node, default=None):
    """Literal value of a constant expression (numbers, strings, tuples,
    lists, dicts, unary minus, simple arithmetic) or `default`."""
    try:
        return ast.literal_eval(node)
    except Exception:
        pass
    if isinstance(node, ast.Call) and isinstance(node.func, ast.Name) and node.func.id == "len" and len(node.args) == 1:
        a = const_value(node.args[0], None)
        if isinstance(a, (str, bytes, tuple, list, dict)):
            return len(a)
    if isinstance(node, ast.BinOp):
        l = const_value(node.left, None)
        r = const_value(node.right, None)
        if isinstance(l, (int, float)) and isinstance(r, (int, float)):
            try:
                if isinstance(node.op, ast.Mult):
                    return l * r
                if isinstance(node.op, ast.Add):
                    return l + r
                if isinstance(node.op, ast.Sub):
                    return l - r
                if isinstance(node.op, ast.Div):
                    return l / r
                if isinstance(node.op, ast.FloorDiv):
                    return l // r
                if isinstance(node.op, ast.Pow):
                    return l ** r
            except Exception:
                return default
    return default


def names_in(node):
    """Set of dotted names / bare names read or written inside node."""
    out = set()
    for n in ast.walk(node):
        if isinstance(n, (ast.Attribute, ast.Name)):
            d = dotted(n)
            if d:
                out.add(d)
    return out


def assigned_targets(stmt):
    """Dotted texts of the store targets of a simple statement."""
    out = []

    def add(t):
        if isinstance(t, (ast.Tuple, ast.List)):
            for e in t.elts:
                add(e)
        elif isinstance(t, ast.Starred):
            add(t.value)
        else:
            out.append(t)
    if isinstance(stmt, ast.Assign):
        for t in stmt.targets:
            add(t)
    elif isinstance(stmt, (ast.AugAssign, ast.AnnAssign)):
        add(stmt.target)
    elif isinstance(stmt, (ast.For, ast.AsyncFor)):
        add(stmt.target)
    elif isinstance(stmt, (ast.With, ast.AsyncWith)):
        for it in stmt.items:
            if it.optional_vars is not None:
                add(it.optional_vars)
    elif isinstance(stmt, ast.Delete):
        for t in stmt.targets:
            add(t)
    return out


_ws = re.compile(r"\s+")


def norm_text(s):
    return _ws.sub(" ", s).strip()
