"""Spelling-normalisation of the parsed tree, so that equivalent spellings reach the rules in one form:

  * `a == b` / `a != b`: a constant operand goes to the right; two non-constant operands are ordered by their text;
  * `x = x <op> e`  becomes  `x <op>= e`  (for names, attributes and subscripts).

  * `if c: ...; return  else: REST`  becomes  `if c: ...; return` followed by REST (an `else` after a body that always leaves --
    return / raise / continue / break -- is the same program as the flat form; `elif` chains are left alone).

  * a plain f-string `f'a{x}b'` (no conversion, no format spec, no braces in the literal parts) becomes `'a{}b'.format(x)`.

  * an annotated assignment with a value (`x: int = e`, `self.n: int = 0`) becomes the plain assignment; parameter and return
    annotations are irrelevant to every rule and are left as they are.

Nothing else is touched.  Line numbers are kept."""
import ast

_AUG = (ast.Add, ast.Sub, ast.Mult, ast.Div, ast.FloorDiv, ast.Mod, ast.BitAnd, ast.BitOr, ast.BitXor, ast.LShift, ast.RShift)


class _Norm(ast.NodeTransformer):
    def visit_Compare(self, node):
        self.generic_visit(node)
        if len(node.ops) == 1 and isinstance(node.ops[0], (ast.Eq, ast.NotEq)):
            l, r = node.left, node.comparators[0]
            swap = False

            def const(e):
                return isinstance(e, ast.Constant) or (isinstance(e, ast.UnaryOp) and isinstance(e.op, (ast.USub, ast.UAdd)) and
                                                       isinstance(e.operand, ast.Constant))
            if const(l) and not const(r):
                swap = True
            elif not const(l) and not const(r):
                swap = ast.unparse(l) > ast.unparse(r)
            if swap:
                node.left, node.comparators = r, [l]
        return node

    def visit_JoinedStr(self, node):
        self.generic_visit(node)
        fmt, args = "", []
        for v in node.values:
            if isinstance(v, ast.Constant) and isinstance(v.value, str):
                if "{" in v.value or "}" in v.value:
                    return node
                fmt += v.value
            elif isinstance(v, ast.FormattedValue) and v.conversion == -1 and v.format_spec is None:
                fmt += "{}"
                args.append(v.value)
            else:
                return node
        if not args:
            return node
        new = ast.Call(func=ast.Attribute(value=ast.Constant(value=fmt), attr="format", ctx=ast.Load()), args=args, keywords=[])
        return ast.copy_location(new, node)

    def visit_AnnAssign(self, node):
        self.generic_visit(node)
        if node.value is None:
            return node
        return self.visit_Assign(ast.copy_location(ast.Assign(targets=[node.target], value=node.value), node))

    def visit_Assign(self, node):
        self.generic_visit(node)
        if len(node.targets) == 1 and isinstance(node.targets[0], (ast.Name, ast.Attribute, ast.Subscript)) and \
                isinstance(node.value, ast.BinOp) and isinstance(node.value.op, _AUG):
            if ast.unparse(node.value.left) == ast.unparse(node.targets[0]):
                new = ast.AugAssign(target=node.targets[0], op=node.value.op, value=node.value.right)
                return ast.copy_location(new, node)
        return node


def _leaves(body):
    return bool(body) and isinstance(body[-1], (ast.Return, ast.Raise, ast.Continue, ast.Break))


def _flatten_else(tree):
    for parent in ast.walk(tree):
        for fld in ("body", "orelse", "finalbody"):
            lst = getattr(parent, fld, None)
            if not isinstance(lst, list):
                continue
            i = 0
            while i < len(lst):
                st = lst[i]
                if isinstance(st, ast.If) and st.orelse and _leaves(st.body) and not (len(st.orelse) == 1 and isinstance(st.orelse[0], ast.If)) \
                        and not (fld == "orelse" and isinstance(parent, ast.If) and len(lst) == 1):
                    rest = st.orelse
                    st.orelse = []
                    lst[i + 1:i + 1] = rest
                i += 1


def normalise(tree):
    _Norm().visit(tree)
    _flatten_else(tree)
    ast.fix_missing_locations(tree)
    return tree
