"""Spelling-normalisation of the parsed tree, so that equivalent spellings reach the rules in one form:

  * `a == b` / `a != b`: a constant operand goes to the right; two non-constant operands are ordered by their text;
  * `x = x <op> e`  becomes  `x <op>= e`  (for names, attributes and subscripts).

Nothing else is touched.  Line numbers are kept."""
import ast

_AUG = (ast.Add, ast.Sub, ast.Mult, ast.Div, ast.FloorDiv, ast.Mod, ast.BitAnd, ast.BitOr, ast.BitXor, ast.LShift, ast.RShift)


class _Norm(ast.NodeTransformer):
    def visit_Compare(self, node):
        self.generic_visit(node)
        if len(node.ops) == 1 and isinstance(node.ops[0], (ast.Eq, ast.NotEq)):
            l, r = node.left, node.comparators[0]
            swap = False

            def const(e):
                return isinstance(e, ast.Constant) or (isinstance(e, ast.UnaryOp) and isinstance(e.op, (ast.USub, ast.UAdd)) and
                                                       isinstance(e.operand, ast.Constant))
            if const(l) and not const(r):
                swap = True
            elif not const(l) and not const(r):
                swap = ast.unparse(l) > ast.unparse(r)
            if swap:
                node.left, node.comparators = r, [l]
        return node

    def visit_Assign(self, node):
        self.generic_visit(node)
        if len(node.targets) == 1 and isinstance(node.targets[0], (ast.Name, ast.Attribute, ast.Subscript)) and \
                isinstance(node.value, ast.BinOp) and isinstance(node.value.op, _AUG):
            if ast.unparse(node.value.left) == ast.unparse(node.targets[0]):
                new = ast.AugAssign(target=node.targets[0], op=node.value.op, value=node.value.right)
                return ast.copy_location(new, node)
        return node


def normalise(tree):
    _Norm().visit(tree)
    ast.fix_missing_locations(tree)
    return tree
