"""Obligations every property's check carries, evaluated over the functions its own rules analysed.

RANGE-0  "for every" means every: no loop (or comprehension) of an analysed function iterates a *bounded slice* of a collection
         (`xs[:1]`, `list(xs)[1:]`, `islice(xs, n)`): the rules of a property speak about every handler / ball / entry / mode, and a
         loop that visits only part of the collection narrows that quantifier without touching any of the statements the rules
         look at.  Legitimate partial iterations are tabled below with their reason (none in the analysed functions today).

TRUTHY-0 an index is never tested by truthiness: a variable bound as the index of `enumerate(...)` / `range(...)` (directly or through a
         list built from enumerate) that is used as a bare condition (`if not step:`) treats the valid index 0 as "nothing".
ROUND-0  round once, last: a value that was truncated (`int(e)`, `e // k`, `round(e)`, `math.floor/ceil/trunc`) is not scaled up afterwards
         by a constant (`int(secs) * 1000`): the fraction the finer unit could express is gone (0.5 s becomes 0 ms).  The scale
         belongs inside the truncation.  Recognised through one local (`v = int(e); return v * 1000`).
LOOP-0   a `for` loop can take a second trip: some path through its body comes back to the loop head.  A body that leaves on every path
         (`for s in sources: p = s.find(); if p: return p; return False`) looks at the first item only - a search that gives up
         after the first candidate, a broadcast that reaches one receiver.  (No loop of the repository is written that way today.)
SWAP-0   a parameter is not handed into another parameter's slot: where a function passes its own parameter `p` to a callee (resolved by
         name; all definitions of that name in mpf/ agree on their positional parameters) in the position - or under the keyword - of a
         callee parameter with a different name, and the callee also has a parameter called `p`, two arguments were exchanged
         (`play_with_config(cfg, start_time, start_step, ..., start_running)`).  Evaluated over the analysed functions and every function
         of the property's anchor files; no call of the pinned tree has that shape (1574 bound arguments examined).
DROP-0   a parameter is not swallowed by a pass-through: where a function hands some of its own parameters to a callee (resolved by name, one
         signature in mpf/) that also has a parameter `p`, the function's own `p` - if it is used nowhere else in the function - is handed on
         too (`replace_handler(event, handler, priority)` calling `add_handler(event, handler)` registers at the default priority).
NAME-0   delay names agree: a delay name (string constant) that a class cancels, checks or runs now is a name the class arms
         somewhere (its own methods or inherited ones).  A cancel under a name nobody arms cancels nothing.
"""
import ast

from sa.model import src

# (relpath, qualname, iteration text) -> reason
PARTIAL_OK = {
}

_POSITIVE = """
def f(self, xs):
    for x in list(xs)[:1]:
        x()
    return [y for y in xs[1:]]
"""


def _bounded(it):
    for x in ast.walk(it):
        if isinstance(x, ast.Subscript) and isinstance(x.slice, ast.Slice) and (
                x.slice.lower is not None or x.slice.upper is not None or x.slice.step is not None):
            return x
        if isinstance(x, ast.Call) and src(x.func).split(".")[-1] == "islice":
            return x
    return None


def _loops(fn):
    for n in ast.walk(fn):
        if isinstance(n, (ast.For, ast.AsyncFor)):
            yield n, n.iter
        elif isinstance(n, ast.comprehension):
            yield n, n.iter


def whole_collection_loops(chk):
    # the detector itself must match its positive example on every run (the expected count on the tree is zero)
    pos = ast.parse(_POSITIVE).body[0]
    hits = [1 for _, it in _loops(pos) if _bounded(it) is not None]
    if len(hits) != 2:
        chk.pending_errors.append("RANGE-0 detector does not match its positive example")
    n = 0
    for ident in sorted(chk.funcs_analysed):
        rel, qual = ident.split("::", 1)
        f = chk.repo.try_func(rel, qual)
        if f is None:
            continue
        for lp, it in _loops(f.node):
            n += 1
            b = _bounded(it)
            if b is None or (rel, qual, src(it)) in PARTIAL_OK:
                continue
            where = "%s:%d" % (rel, getattr(it, "lineno", f.node.lineno))
            chk.ob("RANGE-0", "loops of the analysed functions range over whole collections", False, where,
                   detail="`%s` visits only part of the collection: whatever the loop does for every item is no longer done for all of them" % src(it)[:80],
                   construct=ident, text="partial iteration " + src(it)[:80])
    chk.ob("RANGE-0", "loops of the analysed functions range over whole collections (%d loops in %d functions)" % (n, len(chk.funcs_analysed)), True,
           "mpf:1", nontrivial=False)


_POS_TRUTHY = """
def f(self, xs):
    pick = None
    for pick, state in list(enumerate(xs)):
        if not state:
            break
    if not pick:
        return
    self.hit(pick)
"""


def _index_names(fn):
    out = set()
    for n in ast.walk(fn):
        if not isinstance(n, (ast.For, ast.AsyncFor, ast.comprehension)):
            continue
        it, tg = n.iter, n.target
        first = tg.elts[0] if isinstance(tg, ast.Tuple) and tg.elts and isinstance(tg.elts[0], ast.Name) else None
        if isinstance(it, ast.Call) and isinstance(it.func, ast.Name):
            if first is not None and (it.func.id == "enumerate" or (it.func.id in ("list", "tuple", "reversed", "sorted") and it.args and
                                                                     isinstance(it.args[0], ast.Call) and src(it.args[0].func) == "enumerate")):
                out.add(first.id)
            if it.func.id == "range" and isinstance(tg, ast.Name):
                out.add(tg.id)
        if isinstance(it, ast.Name) and first is not None:
            for a in ast.walk(fn):
                if isinstance(a, ast.Assign) and len(a.targets) == 1 and src(a.targets[0]) == it.id and "enumerate(" in src(a.value):
                    out.add(first.id)
    return out


def _truth_atoms(t):
    if isinstance(t, ast.BoolOp):
        for v in t.values:
            for a in _truth_atoms(v):
                yield a
    elif isinstance(t, ast.UnaryOp) and isinstance(t.op, ast.Not):
        for a in _truth_atoms(t.operand):
            yield a
    else:
        yield t


def _index_truth_tests(fn):
    names = _index_names(fn)
    out = []
    if not names:
        return out
    for n in ast.walk(fn):
        if isinstance(n, (ast.If, ast.While, ast.IfExp, ast.Assert)):
            for a in _truth_atoms(n.test):
                if isinstance(a, ast.Name) and a.id in names:
                    out.append((n, a.id))
    return out


def index_truthiness(chk):
    pos = ast.parse(_POS_TRUTHY).body[0]
    if len(_index_truth_tests(pos)) != 1:
        chk.pending_errors.append("TRUTHY-0 detector does not match its positive example")
    n = 0
    for ident in sorted(chk.funcs_analysed):
        rel, qual = ident.split("::", 1)
        f = chk.repo.try_func(rel, qual)
        if f is None:
            continue
        n += 1
        for node, name in _index_truth_tests(f.node):
            chk.ob("TRUTHY-0", "an index is compared with None, never tested by truthiness (0 is a valid index)", False, "%s:%d" % (rel, node.lineno),
                   detail="`%s` is an enumerate / range index and is used as a bare condition in `%s`: the first item is treated as absent" % (
                       name, src(node.test)[:60]), construct=ident, text="index %s tested by truthiness" % name)
    chk.ob("TRUTHY-0", "no index variable of the analysed functions is tested by truthiness (%d functions)" % n, True, "mpf:1", nontrivial=False)


_POS_ROUND = """
def f(self, x, in_ms):
    v = int(x.evaluate())
    a = int(x) * 1000
    return v * 1000 if in_ms else v
"""
_TRUNC = {"int", "round", "floor", "ceil", "trunc"}


def _truncated_then_scaled(fn):
    truncs = {}
    for n in ast.walk(fn):
        if isinstance(n, ast.Assign) and len(n.targets) == 1 and isinstance(n.targets[0], ast.Name):
            truncs.setdefault(n.targets[0].id, []).append(n.value)

    def is_trunc(e):
        if isinstance(e, ast.Call) and src(e.func).split(".")[-1] in _TRUNC and e.args and not isinstance(e.args[0], ast.Constant):
            # int(x) of something that may carry a fraction; int('12') / int(text) of strings cannot be told apart here: names only when
            # the argument itself involves arithmetic or an evaluation
            return True
        if isinstance(e, ast.BinOp) and isinstance(e.op, ast.FloorDiv):
            return True
        return False

    def scale(e):
        if isinstance(e, ast.Constant) and isinstance(e.value, (int, float)) and not isinstance(e.value, bool) and e.value >= 10:
            return True
        if isinstance(e, ast.IfExp):
            return scale(e.body) or scale(e.orelse)
        return False
    out = []
    for n in ast.walk(fn):
        if isinstance(n, ast.BinOp) and isinstance(n.op, ast.Mult):
            for a, b in ((n.left, n.right), (n.right, n.left)):
                if not scale(b):
                    continue
                if is_trunc(a):
                    out.append(n)
                elif isinstance(a, ast.Name) and len(truncs.get(a.id, [])) == 1 and is_trunc(truncs[a.id][0]):
                    out.append(n)
    return out


def round_once_last(chk):
    pos = ast.parse(_POS_ROUND).body[0]
    if len(_truncated_then_scaled(pos)) != 2:
        chk.pending_errors.append("ROUND-0 detector does not match its positive example")
    n = 0
    for ident in sorted(chk.funcs_analysed):
        rel, qual = ident.split("::", 1)
        f = chk.repo.try_func(rel, qual)
        if f is None:
            continue
        n += 1
        for node in _truncated_then_scaled(f.node):
            chk.ob("ROUND-0", "a value is rounded once, after it was scaled to the unit it is used in", False, "%s:%d" % (rel, node.lineno),
                   detail="`%s` scales a value that was already truncated: the fraction the finer unit could express is lost" % src(node)[:70],
                   construct=ident, text="truncated then scaled " + src(node)[:50])
    chk.ob("ROUND-0", "no analysed function scales a value up after truncating it (%d functions)" % n, True, "mpf:1", nontrivial=False)


_POS_LOOP = """
def f(self, xs):
    for x in xs:
        p = x.find()
        if p:
            return p
        return False
"""


def _single_trip_loops(fn_node):
    from sa.cfg import CFG
    out = []
    loops = [x for x in ast.walk(fn_node) if isinstance(x, (ast.For, ast.AsyncFor))]
    if not loops:
        return out
    cfg = CFG(fn_node)
    for lp in loops:
        heads = [h for h in cfg.nodes if h.kind == "loop" and h.ast is lp]
        if not heads:
            continue
        h = heads[0]
        it = [s_ for s_ in cfg.succs(h.id, True) if cfg.nodes[s_].tag == "iter"]
        if it and not any(h.id in cfg.reachable([s_], ignore_exc=True) for s_ in it):
            out.append(lp)
    return out


def loops_iterate(chk):
    pos = ast.parse(_POS_LOOP).body[0]
    if len(_single_trip_loops(pos)) != 1:
        chk.pending_errors.append("LOOP-0 detector does not match its positive example")
    n = 0
    for ident in sorted(chk.funcs_analysed):
        rel, qual = ident.split("::", 1)
        f = chk.repo.try_func(rel, qual)
        if f is None:
            continue
        for lp in _single_trip_loops(f.node):
            chk.ob("LOOP-0", "a for loop can reach its second item (some path through the body returns to the loop head)", False, "%s:%d" % (rel, lp.lineno),
                   detail="every path through the body of `for %s in %s` leaves the loop: only the first item is ever looked at" % (src(lp.target), src(lp.iter)[:50]),
                   construct=ident, text="single-trip loop over " + src(lp.iter)[:50])
        n += 1
    chk.ob("LOOP-0", "every for loop of the analysed functions can take a second trip (%d functions)" % n, True, "mpf:1", nontrivial=False)


_POS_SWAP = """
class A:
    def play_with_config(self, show_config, start_time=None, start_running=True, start_step=None):
        return 1

    def wrap(self, show_config, start_time=None, start_running=True, start_step=None):
        return self.asset.play_with_config(show_config, start_time, start_step, start_running)
"""


def _fn_params(node):
    a = node.args
    ps = [x.arg for x in a.posonlyargs + a.args]
    if ps and ps[0] in ("self", "cls"):
        ps = ps[1:]
    return ps, [x.arg for x in a.kwonlyargs]


def _cross_bound(fn_node, sig_of):
    """[(call, own parameter, callee parameter it lands in)]"""
    fp, fk = _fn_params(fn_node)
    own = set(fp) | set(fk)
    out = []
    if not own:
        return out
    for c in ast.walk(fn_node):
        if not isinstance(c, ast.Call):
            continue
        nm = c.func.attr if isinstance(c.func, ast.Attribute) else (c.func.id if isinstance(c.func, ast.Name) else None)
        cp = sig_of(c) if callable(sig_of) and getattr(sig_of, "_by_call", False) else (sig_of(nm) if nm else None)
        if cp and isinstance(cp, tuple) and len(cp) == 2 and isinstance(cp[0], tuple):
            cp = cp[0]
        if not cp:
            continue
        args = list(c.args)
        # Class.method(self, ...) : explicit self
        if isinstance(c.func, ast.Attribute) and isinstance(c.func.value, ast.Name) and c.func.value.id[:1].isupper() and args and \
                isinstance(args[0], ast.Name) and args[0].id in ("self", "cls"):
            args = args[1:]
        for i, a in enumerate(args):
            if isinstance(a, ast.Starred) or i >= len(cp):
                break
            if isinstance(a, ast.Name) and a.id in own and a.id != cp[i] and a.id in cp:
                out.append((c, a.id, cp[i]))
        for k in c.keywords:
            if k.arg and isinstance(k.value, ast.Name) and k.value.id in own and k.value.id != k.arg and k.value.id in cp and k.arg in cp:
                out.append((c, k.value.id, k.arg))
    return out


def _resolver(repo, f, sigs2):
    """call -> (positional params, keyword-only params) of the callee: `self.m(...)` through the class hierarchy of the calling method, any
    other call by name when all definitions of that name in mpf/ agree."""
    def res(c):
        nm = c.func.attr if isinstance(c.func, ast.Attribute) else (c.func.id if isinstance(c.func, ast.Name) else None)
        if nm is None:
            return None
        if isinstance(c.func, ast.Attribute) and isinstance(c.func.value, ast.Name) and c.func.value.id == "self" and f.cls is not None:
            m = repo.lookup_method(f.cls, nm)
            if m is not None:
                a, b = _fn_params(m.node)
                return (tuple(a), tuple(b))
        return sigs2.get(nm)
    res._by_call = True
    return res


def params_not_cross_bound(chk):
    import json
    import os
    pos = ast.parse(_POS_SWAP).body[0]
    psig = {"play_with_config": ("show_config", "start_time", "start_running", "start_step")}
    if len(_cross_bound(pos.body[1], psig.get)) != 2:
        chk.pending_errors.append("SWAP-0 detector does not match its positive example")
    repo = chk.repo
    sigs = getattr(repo, "_sig_by_name", None)
    if sigs is None:
        by = {}
        for rel, m in repo.modules.items():
            if not rel.startswith("mpf/") or "/tests/" in rel:
                continue
            for f in m.all_funcs():
                by.setdefault(f.name, set()).add(tuple(_fn_params(f.node)[0]))
        sigs = {k: next(iter(v)) for k, v in by.items() if len(v) == 1}
        try:
            repo._sig_by_name = sigs
        except Exception:   # noqa
            pass
    idents = set(chk.funcs_analysed)
    try:
        here = os.path.dirname(os.path.dirname(os.path.abspath(__file__)))
        for ln in open(os.path.join(here, "properties.jsonl")):
            d = json.loads(ln)
            if d["id"] == chk.prop:
                for rel in d["anchors"]["files"]:
                    if rel in repo.modules:
                        idents |= {f.ident for f in repo.modules[rel].all_funcs()}
    except OSError:
        pass
    n = 0
    for ident in sorted(idents):
        rel, qual = ident.split("::", 1)
        f = repo.try_func(rel, qual)
        if f is None:
            continue
        n += 1
        for c, own, slot in _cross_bound(f.node, _resolver(repo, f, {k: (v, ()) for k, v in sigs.items()})):
            chk.ob("SWAP-0", "a function hands its parameter on under that parameter's own name / position", False, "%s:%d" % (rel, c.lineno),
                   detail="`%s` of %s is passed as `%s` of %s, which also has a parameter `%s`: two arguments exchanged" % (
                       own, qual, slot, src(c.func)[-40:], own), construct=ident, text="parameter %s lands in slot %s of %s" % (own, slot, src(c.func)[-30:]))
    chk.ob("SWAP-0", "no parameter of the analysed / anchored functions lands in another parameter's slot (%d functions)" % n, True, "mpf:1", nontrivial=False)


_POS_DROP = """
class A:
    def add_handler(self, event, handler, priority=1):
        return 1

    def replace_handler(self, event, handler, priority=1):
        return self.add_handler(event, handler)
"""


def _dropped(fn_node, sig_of):
    fp, fk = _fn_params(fn_node)
    own = set(fp) | set(fk)
    out = []
    if not own:
        return out
    used = {}
    for x in ast.walk(fn_node):
        if isinstance(x, ast.Name):
            used[x.id] = used.get(x.id, 0) + 1
    for c in ast.walk(fn_node):
        if not isinstance(c, ast.Call):
            continue
        nm = c.func.attr if isinstance(c.func, ast.Attribute) else (c.func.id if isinstance(c.func, ast.Name) else None)
        sg = sig_of(c) if callable(sig_of) and getattr(sig_of, "_by_call", False) else (sig_of(nm) if nm else None)
        if not sg:
            continue
        cp, ck = sg
        own_kw = fn_node.args.kwarg.arg if fn_node.args.kwarg else None
        if any(isinstance(a, ast.Starred) for a in c.args) or any(k.arg is None and not (isinstance(k.value, ast.Name) and k.value.id == own_kw) for k in c.keywords):
            continue        # (**own_kwargs cannot carry one of the function's named parameters)
        bound = set(cp[:len(c.args)]) | {k.arg for k in c.keywords if k.arg}
        passed = [a.id for a in c.args if isinstance(a, ast.Name) and a.id in own] + \
                 [k.value.id for k in c.keywords if isinstance(k.value, ast.Name) and k.value.id in own]
        if not passed:
            continue
        for p in sorted(own):
            if p in (set(cp) | set(ck)) and p not in bound and used.get(p, 0) == 0:
                out.append((c, p))
    return out


# own parameters that a same-named pass-through of the pinned tree leaves to the callee's default although the function uses them itself
# (read; kept as they are): function ident -> parameters
_PARTIAL_PASS_CONFIRMED = {
    "mpf/core/config_processor.py::ConfigProcessor._load_config_file_and_return_loaded_files": {"ignore_unknown_sections"},
    "mpf/core/utility_functions.py::Util.dict_merge": {"deepcopy_both"},
    "mpf/devices/light.py::Light._get_color_and_fade": {"current_time"},
    "mpf/modes/service/code/service.py::Service._volume_change": {"focus_change"},
}


def _partially_passed(fn_node, sig_of):
    """[(call, p)]: the call hands at least one of the function's parameters to the callee's parameter of the same name, the callee also
    has a parameter p that the function has too, and p is not bound by the call (the callee's default applies instead of the caller's
    value).  Unlike _dropped this also reports parameters the function uses elsewhere."""
    fp, fk = _fn_params(fn_node)
    own = set(fp) | set(fk)
    out = []
    if len(own) < 2:
        return out
    for c in ast.walk(fn_node):
        if not isinstance(c, ast.Call):
            continue
        nm = c.func.attr if isinstance(c.func, ast.Attribute) else (c.func.id if isinstance(c.func, ast.Name) else None)
        sg = sig_of(c) if callable(sig_of) and getattr(sig_of, "_by_call", False) else (sig_of(nm) if nm else None)
        if not sg:
            continue
        cp, ck = sg
        if any(isinstance(a, ast.Starred) for a in c.args) or any(k.arg is None for k in c.keywords):
            continue
        bound = set(cp[:len(c.args)]) | {k.arg for k in c.keywords if k.arg}
        same = [p for p in own if (p in cp[:len(c.args)] and isinstance(c.args[cp.index(p)], ast.Name) and c.args[cp.index(p)].id == p) or
                any(k.arg == p and isinstance(k.value, ast.Name) and k.value.id == p for k in c.keywords)]
        if not same:
            continue
        for p in sorted(own):
            if p in (set(cp) | set(ck)) and p not in bound:
                out.append((c, p))
    return out


def params_not_dropped(chk):
    import json
    import os
    pos = ast.parse(_POS_DROP).body[0]
    if len(_dropped(pos.body[1], {"add_handler": (("event", "handler", "priority"), ())}.get)) != 1:
        chk.pending_errors.append("DROP-0 detector does not match its positive example")
    repo = chk.repo
    sigs = getattr(repo, "_sig2_by_name", None)
    if sigs is None:
        by = {}
        for rel, m in repo.modules.items():
            if not rel.startswith("mpf/") or "/tests/" in rel:
                continue
            for f in m.all_funcs():
                a, b = _fn_params(f.node)
                by.setdefault(f.name, set()).add((tuple(a), tuple(b)))
        sigs = {k: next(iter(v)) for k, v in by.items() if len(v) == 1}
        try:
            repo._sig2_by_name = sigs
        except Exception:   # noqa
            pass
    idents = set(chk.funcs_analysed)
    try:
        here = os.path.dirname(os.path.dirname(os.path.abspath(__file__)))
        for ln in open(os.path.join(here, "properties.jsonl")):
            d = json.loads(ln)
            if d["id"] == chk.prop:
                for rel in d["anchors"]["files"]:
                    if rel in repo.modules:
                        idents |= {f.ident for f in repo.modules[rel].all_funcs()}
    except OSError:
        pass
    n = 0
    for ident in sorted(idents):
        rel, qual = ident.split("::", 1)
        f = repo.try_func(rel, qual)
        if f is None:
            continue
        n += 1
        for c, p_ in _dropped(f.node, _resolver(repo, f, sigs)):
            chk.ob("DROP-0", "a pass-through hands on every parameter its callee also takes", False, "%s:%d" % (rel, c.lineno),
                   detail="`%s` of %s is accepted, used nowhere, and not handed to %s (which has a parameter `%s`): the callee's default is used" % (
                       p_, qual, src(c.func)[-40:], p_), construct=ident, text="parameter %s swallowed before %s" % (p_, src(c.func)[-30:]))
        for c, p_ in _partially_passed(f.node, _resolver(repo, f, sigs)):
            if p_ in _PARTIAL_PASS_CONFIRMED.get(ident, ()):
                continue
            chk.ob("DROP-0", "a call that hands a parameter on under its own name hands on every other parameter the callee shares with the caller", False,
                   "%s:%d" % (rel, c.lineno),
                   detail="%s passes some of its parameters to %s by name but not `%s`, which both have: the callee's default replaces the caller's value "
                          "(7 such calls in the pinned tree, tabled; every other same-named pass-through is complete)" % (qual, src(c.func)[-40:], p_),
                   construct=ident, text="parameter %s not handed to %s" % (p_, src(c.func)[-30:]))
    chk.ob("DROP-0", "no parameter of the analysed / anchored functions is swallowed by a pass-through (%d functions)" % n, True, "mpf:1", nontrivial=False)


_ARM = {"add", "reset", "add_if_doesnt_exist"}
_USE = {"remove", "check", "run_now"}


def _delay_name(c):
    from sa.model import kwarg, call_attr
    n = kwarg(c, "name")
    if n is None:
        if call_attr(c) in _USE and c.args:
            n = c.args[0]
        elif call_attr(c) in _ARM and len(c.args) >= 3:
            n = c.args[2]
    return n


def delay_names(chk):
    from sa.model import call_attr
    repo = chk.repo
    classes = {}
    for ident in chk.funcs_analysed:
        rel, qual = ident.split("::", 1)
        if "." in qual:
            classes.setdefault((rel, qual.split(".")[0]), None)
    n = 0
    for rel, cn in sorted(classes):
        try:
            cls = repo.cls(rel, cn)
        except Exception:   # noqa
            continue
        arm, use = {}, {}
        for k in repo.mro(cls):
            for m in k.methods.values():
                for c in ast.walk(m.node):
                    if isinstance(c, ast.Call) and isinstance(c.func, ast.Attribute) and "delay" in src(c.func.value).lower() and call_attr(c) in _ARM | _USE:
                        nm = _delay_name(c)
                        if isinstance(nm, ast.Constant) and isinstance(nm.value, str):
                            (arm if call_attr(c) in _ARM else use).setdefault(nm.value, []).append((m, c))
        # fixed delay names are unique only within one DelayManager: a class that arms / cancels delays under constant names on `self.delay`
        # owns that manager (self.delay = DelayManager(...)); on the shared machine.delay the names of all instances collide
        if any("self.delay" == src(c.func.value) for lst in list(arm.values()) + list(use.values()) for _m, c in lst):
            owners = []
            for k in repo.mro(cls):
                for m in k.methods.values():
                    for x in ast.walk(m.node):
                        if isinstance(x, ast.Assign) and any(src(t) == "self.delay" for t in x.targets):
                            owners.append((m, x))
            for m, x in owners:
                own = isinstance(x.value, ast.Call) and src(x.value.func).split(".")[-1] == "DelayManager"
                chk.ob("NAME-0", "%s arms delays under fixed names on a delay manager of its own" % cn, own or src(x.value) == "None", m.where(x),
                       detail="self.delay = %s: the fixed names %s are shared with every other user of that manager" % (src(x.value), sorted(set(arm) | set(use))[:4]),
                       construct=m.ident, text="shared delay manager with fixed names in " + cn)
        for name, sites in sorted(use.items()):
            n += 1
            m, c = sites[0]
            if name not in arm:
                chk.ob("NAME-0", "a delay a class cancels / checks / runs is one it arms under the same name", False, m.where(c),
                       detail="%s uses delay name %r (%s) but arms only %s" % (cn, name, ", ".join(sorted({x.name for x, _ in sites})), sorted(arm)),
                       construct=m.ident, text="delay name %s used but never armed in %s" % (name, cn))
    chk.ob("NAME-0", "delay names used by the analysed classes are names those classes arm (%d names)" % n, True, "mpf:1", nontrivial=False)


# ---------------------------------------------------------------------------------------------------------- REARM-0
_POS_REARM = """
class A:
    def _update(self, future=None):
        value, sub = self._template.evaluate_and_subscribe([])
        if value == self.value:
            return
        self.value = value
        sub.add_done_callback(self._update)
"""


def _anchor_idents(chk):
    import json
    import os
    idents = set(chk.funcs_analysed)
    try:
        here = os.path.dirname(os.path.dirname(os.path.abspath(__file__)))
        for ln in open(os.path.join(here, "properties.jsonl")):
            d = json.loads(ln)
            if d["id"] == chk.prop:
                for rel in d["anchors"]["files"]:
                    if rel in chk.repo.modules:
                        idents |= {f.ident for f in chk.repo.modules[rel].all_funcs()}
    except OSError:
        pass
    return idents


def _unarmed_subscriptions(fn_node, cfg):
    """A callback that re-subscribes itself (one-shot futures from evaluate_and_subscribe, `add_done_callback(<itself>)`): node ids of
    evaluate_and_subscribe calls from which some returning path does not register the callback again."""
    name = fn_node.name
    arms = []
    for n in cfg.nodes:
        if n.kind != "stmt":
            continue
        for c in n.calls():
            if isinstance(c.func, ast.Attribute) and c.func.attr == "add_done_callback" and \
                    any(isinstance(a, ast.Attribute) and a.attr == name for x in c.args for a in ast.walk(x)):
                arms.append(n.id)
    if not arms:
        return [], 0
    out = []
    subs = [n for n in cfg.nodes if n.kind == "stmt" and any(isinstance(c.func, ast.Attribute) and c.func.attr == "evaluate_and_subscribe" for c in n.calls())]
    for n in subs:
        w = cfg.path_avoiding(n.id, [cfg.exit.id], arms, ignore_exc=True)
        if w is not None:
            out.append((n, w))
    return out, len(subs)


def subscriptions_rearmed(chk):
    from sa.cfg import CFG

    pos = ast.parse(_POS_REARM).body[0].body[0]
    try:
        pc = CFG(pos)
        if len(_unarmed_subscriptions(pos, pc)[0]) != 1:
            chk.pending_errors.append("REARM-0 detector does not match its positive example")
    except Exception as e:     # noqa
        chk.pending_errors.append("REARM-0 positive example could not be analysed: %r" % (e,))
    n = k = 0
    for ident in sorted(_anchor_idents(chk)):
        rel, qual = ident.split("::", 1)
        f = chk.repo.try_func(rel, qual)
        if f is None or not any(isinstance(x, ast.Attribute) and x.attr == "add_done_callback" for x in ast.walk(f.node)):
            continue
        n += 1
        cfg = f.cfg()
        bad, cnt = _unarmed_subscriptions(f.node, cfg)
        k += cnt
        for node, w in bad:
            chk.ob("REARM-0", "a callback that re-subscribes itself does so on every returning path after it evaluated the template", False, f.where(node.ast),
                   detail="the future handed out by evaluate_and_subscribe fires once: a path that returns without add_done_callback(%s) "
                          "ends the subscription and every later change goes unnoticed" % f.name, construct=ident,
                   text="subscription of %s not renewed" % f.name, path=cfg.fmt_path(w, f))
    chk.ob("REARM-0", "self-renewing subscriptions renew on every path (%d functions, %d subscriptions)" % (n, k), True, "mpf:1", nontrivial=False)


# ----------------------------------------------------------------------------------------------------------- MEMO-0
_POS_MEMO = """
class A:
    @lru_cache()
    def lookup(self, name):
        if name == "game" and self.machine.game:
            return self.machine.game
        return False

@lru_cache(maxsize=8)
def decode(text):
    out = dict()
    for p in text.split('&'):
        out[p] = 1
    return text, out
"""

# memoised functions of the tree, read and confirmed (their results are treated as read-only by every caller / the state they read is fixed
# once the machine is configured)
_MEMO_CONFIRMED = {
    "mpf/core/utility_functions.py::Util.string_to_class": "imports a class by dotted name: pure",
    "mpf/core/config_validator.py::ConfigValidator.build_spec": "config_spec is complete before the first validation; callers only read the merged spec",
    "mpf/core/placeholder_manager.py::BasePlaceholderManager.parse_conditional_template": "typed cache; the dict is only read by config players",
    "mpf/core/events.py::EventManager.get_event_and_condition_from_string": "returns a tuple of immutable parts and a template object that keeps no per-use state",
}
_MEMO_NAMES = ("lru_cache", "cache", "memoize", "memoized", "cached")


def _memo_problems(fn_node):
    """(node, why) for a memoised function: answers from changeable state, or hands out a mutable object built in its body."""
    out = []
    tests = []
    for x in ast.walk(fn_node):
        if isinstance(x, (ast.If, ast.While, ast.IfExp)):
            tests.append(x.test)
        elif isinstance(x, ast.Return) and x.value is not None:
            tests.append(x.value)
    seen = set()
    for t in tests:
        for y in ast.walk(t):
            if isinstance(y, ast.Attribute) and isinstance(y.value, ast.Attribute):
                root = y
                while isinstance(root, ast.Attribute):
                    root = root.value
                if isinstance(root, ast.Name) and root.id == "self" and src(y) not in seen:
                    # skip a chain that is only the receiver of a call (self.machine.x.method(...)) or an argument of a constructor call
                    seen.add(src(y))
                    out.append((y, "reads %s, which can change between two calls with the same arguments" % src(y)))
    # drop chains that are receivers of calls or arguments handed to calls (object references, not state values)
    handed = set()
    for x in ast.walk(fn_node):
        if isinstance(x, ast.Call):
            if isinstance(x.func, ast.Attribute):
                handed.add(id(x.func))
                v = x.func.value
                while isinstance(v, ast.Attribute):
                    handed.add(id(v))
                    v = v.value
            for a in list(x.args) + [k.value for k in x.keywords]:
                for y in ast.walk(a):
                    handed.add(id(y))
    out = [(y, w) for y, w in out if id(y) not in handed]
    mut_locals = set()
    for x in ast.walk(fn_node):
        if isinstance(x, ast.Assign) and len(x.targets) == 1 and isinstance(x.targets[0], ast.Name):
            v = x.value
            if isinstance(v, (ast.Dict, ast.List, ast.Set, ast.DictComp, ast.ListComp, ast.SetComp)) or \
                    (isinstance(v, ast.Call) and isinstance(v.func, ast.Name) and v.func.id in ("dict", "list", "set", "deque", "defaultdict")) or \
                    (isinstance(v, ast.Call) and src(v.func) in ("json.loads",)):
                mut_locals.add(x.targets[0].id)
    for x in ast.walk(fn_node):
        if isinstance(x, ast.Return) and x.value is not None:
            parts = x.value.elts if isinstance(x.value, ast.Tuple) else [x.value]
            for p_ in parts:
                if isinstance(p_, (ast.Dict, ast.List, ast.Set, ast.DictComp, ast.ListComp, ast.SetComp)) or (isinstance(p_, ast.Name) and p_.id in mut_locals):
                    out.append((x, "hands out the mutable %s it built: every caller gets, and may edit, the cached object" % src(p_)[:30]))
    return out


def memoised_functions(chk):
    mod = ast.parse(_POS_MEMO)
    p1 = mod.body[0].body[0]
    p2 = mod.body[1]
    if len(_memo_problems(p1)) < 1 or len(_memo_problems(p2)) != 1:
        chk.pending_errors.append("MEMO-0 detector does not match its positive examples")
    n = k = 0
    for ident in sorted(_anchor_idents(chk)):
        rel, qual = ident.split("::", 1)
        f = chk.repo.try_func(rel, qual)
        if f is None:
            continue
        n += 1
        memo = [d for d in f.decorators() if d.split(".")[-1] in _MEMO_NAMES]
        if not memo:
            continue
        k += 1
        if ident in _MEMO_CONFIRMED:
            chk.ob("MEMO-0", "memoised %s is a confirmed instance" % qual, True, f.where(), detail=_MEMO_CONFIRMED[ident], construct=ident,
                   text="confirmed memoised function", nontrivial=False)
            continue
        probs = _memo_problems(f.node)
        chk.ob("MEMO-0", "memoised %s neither answers from changeable state nor hands out a mutable object it built" % qual, not probs,
               f.where(probs[0][0]) if probs else f.where(), detail="@%s: %s" % (memo[0], "; ".join(w for _, w in probs[:3])), construct=ident,
               text="memoised " + f.name)
    chk.ob("MEMO-0", "memoised functions examined (%d of %d functions)" % (k, n), True, "mpf:1", nontrivial=False)


# --------------------------------------------------------------------------------------------------------- CONFIG-0
_POS_CONFIG = """
class A:
    def __init__(self):
        self._switches = self.config['ball_switches']
        if self.config['jam_switch'] and self.config['jam_switch'] not in self._switches:
            self._switches.append(self.config['jam_switch'])
"""
_MUTATORS = {"append", "add", "extend", "insert", "remove", "pop", "clear", "update", "sort", "reverse", "discard", "setdefault", "popitem",
             "appendleft", "extendleft", "__setitem__", "__delitem__"}
# in-place edits of validated config entries that the pinned tree makes on purpose (read and confirmed): key = function ident
_CONFIG_CONFIRMED = {
    "mpf/devices/timed_switch.py::TimedSwitch._initialize": "switches found by tag are added to the configured list once, at initialisation",
    "mpf/devices/combo_switch.py::ComboSwitch._add_switch_handlers": "switches found by tag are added to the configured sets",
    "mpf/devices/score_reel_group.py::ScoreReelGroup._initialize": "reels and chimes are configured left to right and used right to left",
    "mpf/devices/sequence_shot.py::SequenceShot._initialize": "switch activations are appended to the configured event sequence once",
}


def _is_config_entry(e):
    return isinstance(e, ast.Subscript) and src(e.value) == "self.config" and isinstance(e.ctx, ast.Load)


def _config_mutations(cls_node, fn_node, cfg):
    """(call, why): in-place mutation of a validated config entry - directly, through a local that still holds the entry where the call
    runs, or through an attribute of self that any method of the class binds to a bare config entry."""
    out = []
    attr_alias = set()
    if cls_node is not None:
        for x in ast.walk(cls_node):
            if isinstance(x, ast.Assign) and len(x.targets) == 1 and _is_config_entry(x.value) and isinstance(x.targets[0], ast.Attribute) and \
                    src(x.targets[0].value) == "self":
                attr_alias.add(x.targets[0].attr)
    assigns = {}
    for n in cfg.nodes:
        if n.kind == "stmt" and isinstance(n.ast, (ast.Assign, ast.AugAssign, ast.AnnAssign)):
            tg = n.ast.targets if isinstance(n.ast, ast.Assign) else [n.ast.target]
            for t in tg:
                for y in ast.walk(t):
                    if isinstance(y, ast.Name):
                        assigns.setdefault(y.id, []).append(n)
        elif n.kind == "loop":
            for y in ast.walk(n.ast.target):
                if isinstance(y, ast.Name):
                    assigns.setdefault(y.id, []).append(n)
    for n in cfg.nodes:
        if n.kind not in ("stmt", "test"):
            continue
        for c in n.calls():
            if not (isinstance(c.func, ast.Attribute) and c.func.attr in _MUTATORS):
                continue
            r = c.func.value
            if _is_config_entry(r):
                out.append((c, "edits %s in place" % src(r)))
            elif isinstance(r, ast.Attribute) and src(r.value) == "self" and r.attr in attr_alias:
                out.append((c, "self.%s is the configured entry itself (bound without a copy): the edit changes the configuration" % r.attr))
            elif isinstance(r, ast.Name) and r.id in assigns:
                for d in assigns[r.id]:
                    if d.kind == "stmt" and isinstance(d.ast, ast.Assign) and len(d.ast.targets) == 1 and isinstance(d.ast.targets[0], ast.Name) and \
                            _is_config_entry(d.ast.value) and src(d.ast.value.value) == "self.config":
                        others = [o.id for o in assigns[r.id] if o is not d]
                        if d.id == n.id or cfg.path_avoiding(d.id, [n.id], others, ignore_exc=True) is not None:
                            out.append((c, "%s still is %s where it is edited" % (r.id, src(d.ast.value))))
                            break
    return out


def config_not_mutated(chk):
    from sa.cfg import CFG
    pc = ast.parse(_POS_CONFIG).body[0]
    try:
        if len(_config_mutations(pc, pc.body[0], CFG(pc.body[0]))) != 1:
            chk.pending_errors.append("CONFIG-0 detector does not match its positive example")
    except Exception as e:     # noqa
        chk.pending_errors.append("CONFIG-0 positive example could not be analysed: %r" % (e,))
    n = 0
    for ident in sorted(_anchor_idents(chk)):
        rel, qual = ident.split("::", 1)
        f = chk.repo.try_func(rel, qual)
        if f is None:
            continue
        if not any(isinstance(x, ast.Attribute) and x.attr in _MUTATORS for x in ast.walk(f.node)):
            continue
        n += 1
        cls_node = f.cls.node if getattr(f, "cls", None) is not None else None
        hits = _config_mutations(cls_node, f.node, f.cfg())
        if ident in _CONFIG_CONFIRMED:
            chk.ob("CONFIG-0", "in-place edit of the configuration in %s is a confirmed instance" % qual, True, f.where(), detail=_CONFIG_CONFIRMED[ident],
                   construct=ident, text="confirmed configuration edit", nontrivial=False)
            continue
        for c, why in hits:
            chk.ob("CONFIG-0", "a validated configuration entry is not edited in place (what is derived from it - a capacity, a list of switches - stays what was configured)",
                   False, f.where(c), detail=why, construct=ident, text="configuration edited in place: " + src(c.func)[:50])
    chk.ob("CONFIG-0", "functions with container edits examined for edits of configuration entries (%d)" % n, True, "mpf:1", nontrivial=False)


# --------------------------------------------------------------------------------------------------------- SHARED-0
_POS_SHARED = """
class A:
    _built = {}

    def build(self, key):
        try:
            return self._built[key]
        except KeyError:
            pass
        self._built[key] = key * 2
        return self._built[key]
"""
# class-level containers the pinned tree fills on purpose (process-wide registries), by function
_SHARED_CONFIRMED = {
    "mpf/file_interfaces/yaml_interface.py::YamlInterface.load": "process-wide cache of parsed files, keyed by file name and guarded by mtime",
    "mpf/core/file_manager.py::FileManager.init": "process-wide registry of file interfaces, filled once",
}


def _class_level_containers(cls_node):
    out = set()
    for st in cls_node.body:
        tg = v = None
        if isinstance(st, ast.Assign) and len(st.targets) == 1 and isinstance(st.targets[0], ast.Name):
            tg, v = st.targets[0].id, st.value
        elif isinstance(st, ast.AnnAssign) and isinstance(st.target, ast.Name) and st.value is not None:
            tg, v = st.target.id, st.value
        if tg and (isinstance(v, (ast.Dict, ast.List, ast.Set)) or (isinstance(v, ast.Call) and isinstance(v.func, ast.Name) and
                                                                     v.func.id in ("dict", "list", "set", "deque", "defaultdict", "OrderedDict"))):
            out.add(tg)
    if not out:
        return out
    # an attribute of the same name bound on self in a method is per instance
    for x in ast.walk(cls_node):
        if isinstance(x, (ast.Assign, ast.AnnAssign)):
            for t0 in (x.targets if isinstance(x, ast.Assign) else [x.target]):
                if isinstance(t0, ast.Attribute) and src(t0.value) == "self" and t0.attr in out:
                    out.discard(t0.attr)
    return out


def _shared_writes(cls_node, fn_node):
    cv = _class_level_containers(cls_node)
    out = []
    if not cv:
        return out
    for x in ast.walk(fn_node):
        if isinstance(x, ast.Call) and isinstance(x.func, ast.Attribute) and x.func.attr in _MUTATORS and isinstance(x.func.value, ast.Attribute) and \
                src(x.func.value.value) in ("self", "cls") and x.func.value.attr in cv:
            out.append((x, x.func.value.attr))
        if isinstance(x, (ast.Assign, ast.Delete, ast.AugAssign)):
            for t0 in (x.targets if not isinstance(x, ast.AugAssign) else [x.target]):
                if isinstance(t0, ast.Subscript) and isinstance(t0.value, ast.Attribute) and src(t0.value.value) in ("self", "cls") and t0.value.attr in cv:
                    out.append((x, t0.value.attr))
    return out


def class_state_not_shared(chk):
    pc = ast.parse(_POS_SHARED).body[0]
    if len(_shared_writes(pc, pc.body[1])) != 1:
        chk.pending_errors.append("SHARED-0 detector does not match its positive example")
    n = 0
    for ident in sorted(_anchor_idents(chk)):
        rel, qual = ident.split("::", 1)
        f = chk.repo.try_func(rel, qual)
        if f is None or getattr(f, "cls", None) is None:
            continue
        n += 1
        if ident in _SHARED_CONFIRMED:
            continue
        for x, name in _shared_writes(f.cls.node, f.node):
            chk.ob("SHARED-0", "a method does not fill a container defined in the class body (one object for every instance in the process)", False, f.where(x),
                   detail="`%s` is created once with the class: what one %s stores there every other one reads (a second machine, a second validator with other specs)"
                          % (name, f.cls.name), construct=ident, text="class-level container %s written" % name)
    chk.ob("SHARED-0", "methods examined for writes to class-level containers (%d)" % n, True, "mpf:1", nontrivial=False)


# ------------------------------------------------------------------------------------------------------- LASTONLY-0
_POS_LAST = """
class A:
    async def connect(self):
        for port in self.config['ports']:
            comm = Communicator(port)
            await comm.connect()

        self.connections.add(comm)
"""


def _registered_after_loop(fn_node):
    """[(call, name, loop)]: an object built once per trip of a for loop (a name bound only inside the loop body, from a call) is stored in a
    container of `self` only after the loop - so only the object of the last trip is stored."""
    out = []
    loops = [x for x in ast.walk(fn_node) if isinstance(x, (ast.For, ast.AsyncFor))]
    if not loops:
        return out
    alldefs = {}
    for x in ast.walk(fn_node):
        if isinstance(x, ast.Assign):
            for t in x.targets:
                if isinstance(t, ast.Name):
                    alldefs.setdefault(t.id, []).append(x)
    for lp in loops:
        inside = {id(y) for st in lp.body for y in ast.walk(st)}
        names = {t.id for x in ast.walk(lp) if isinstance(x, ast.Assign) and id(x) in inside and isinstance(x.value, (ast.Call, ast.Await))
                 for t in x.targets if isinstance(t, ast.Name)}
        names = {nm for nm in names if all(id(d) in inside for d in alldefs.get(nm, []))}
        if not names:
            continue
        stored_inside = {a.id for c in ast.walk(lp) if isinstance(c, ast.Call) and id(c) in inside and isinstance(c.func, ast.Attribute) and
                         c.func.attr in ("add", "append") for a in c.args if isinstance(a, ast.Name)}
        for c in ast.walk(fn_node):
            if isinstance(c, ast.Call) and isinstance(c.func, ast.Attribute) and c.func.attr in ("add", "append") and src(c.func.value).startswith("self.") and \
                    id(c) not in inside and c.lineno > lp.end_lineno:
                for a in c.args:
                    if isinstance(a, ast.Name) and a.id in names and a.id not in stored_inside:
                        out.append((c, a.id, lp))
    return out


def per_trip_objects_registered(chk):
    pos = ast.parse(_POS_LAST).body[0].body[0]
    if len(_registered_after_loop(pos)) != 1:
        chk.pending_errors.append("LASTONLY-0 detector does not match its positive example")
    n = 0
    for ident in sorted(_anchor_idents(chk)):
        rel, qual = ident.split("::", 1)
        f = chk.repo.try_func(rel, qual)
        if f is None:
            continue
        n += 1
        for c, nm, lp in _registered_after_loop(f.node):
            chk.ob("LASTONLY-0", "an object built on every trip of a loop is registered on every trip (not once, after the loop)", False, f.where(c),
                   detail="`%s` is bound inside `for %s in %s` and stored by `%s` after the loop: only the last one is kept (the others are never started / polled / stopped)"
                          % (nm, src(lp.target), src(lp.iter)[:40], src(c)[:60]), construct=ident, text="only the last %s registered" % nm)
    chk.ob("LASTONLY-0", "loops examined for per-trip objects registered after the loop (%d functions)" % n, True, "mpf:1", nontrivial=False)


# -------------------------------------------------------------------------------------------------------- ITERMUT-0
_POS_ITERMUT = """
class A:
    def done(self):
        for callback in self.stop_callbacks:
            self.stop_callbacks.remove(callback)
            callback()
"""
# loops of the pinned tree that delete from the list they enumerate (read: at most one element can match, so nothing is skipped)
_ITERMUT_CONFIRMED = {
    "mpf/config_players/variable_player.py::VariablePlayer.clear_context": "one block entry per (priority, context): adjacent matches need one context at two priorities",
    "mpf/platforms/p_roc_common.py::PROCBasePlatform._add_hw_rule": "at most one rule per (switch, coil) is ever in the list: the loop is what guarantees it",
}


def containers_not_mutated_while_iterated(chk):
    from sa.helpers import mutation_while_iterating
    pos = ast.parse(_POS_ITERMUT).body[0].body[0]
    if len(mutation_while_iterating(pos)) != 1:
        chk.pending_errors.append("ITERMUT-0 detector does not match its positive example")
    n = 0
    for ident in sorted(_anchor_idents(chk)):
        rel, qual = ident.split("::", 1)
        f = chk.repo.try_func(rel, qual)
        if f is None:
            continue
        n += 1
        if ident in _ITERMUT_CONFIRMED:
            continue
        for lp, x, what in mutation_while_iterating(f.node):
            chk.ob("ITERMUT-0", "a for loop does not add to or remove from the container it walks (walk a copy, or rebuild)", False, f.where(x),
                   detail="`for %s in %s` with %s in its body: the element after each removed one is skipped (a dict raises RuntimeError)"
                          % (src(lp.target), src(lp.iter)[:50], what), construct=ident, text="container changed while iterated: " + what[:50])
    chk.ob("ITERMUT-0", "for loops examined for changes to the container they walk (%d functions)" % n, True, "mpf:1", nontrivial=False)


# -------------------------------------------------------------------------------------------------------- BRACKET-0
_POS_BRACKET = """
class A:
    def rotate(self):
        self._busy = True
        items = self._available()
        if not items:
            return
        self._select(items[0])
        self._busy = False
"""
# flags of the pinned tree that one function both sets and clears without being a bracket (read): the flag is meant to stay set on some exits
_BRACKET_CONFIRMED = {
    "mpf/platforms/fadecandy.py::FadeCandyOPClient.__init__": "configuration toggles, not a bracket",
    "mpf/platforms/opp/opp_serial_communicator.py::OPPSerialCommunicator._parse_msg": "_lost_synch is decoder state: it stays set until a valid frame start is seen",
}


def _open_brackets(fn_node, cfg):
    """[(set node, flag, witness path)]: the function sets `self.<flag> = True`, can go on to `self.<flag> = False` (so it brackets a phase), and some
    returning path after the set passes no clear: the flag stays set although the phase is over."""
    sets, clears = {}, {}
    for n in cfg.nodes:
        if n.kind == "stmt" and isinstance(n.ast, ast.Assign) and len(n.ast.targets) == 1 and isinstance(n.ast.targets[0], ast.Attribute) and \
                isinstance(n.ast.value, ast.Constant) and n.ast.value.value in (True, False) and src(n.ast.targets[0].value) == "self":
            (sets if n.ast.value.value is True else clears).setdefault(src(n.ast.targets[0]), []).append(n)
    out = []
    for k in sets:
        if k not in clears:
            continue
        cn = [n.id for n in clears[k]]
        for s_ in sets[k]:
            if not cfg.path_avoiding(s_.id, cn, [], ignore_exc=True):
                continue
            w = cfg.path_avoiding(s_.id, [cfg.exit.id], cn, ignore_exc=True)
            if w is not None:
                out.append((s_, k, w))
    return out


def flag_brackets_closed(chk):
    from sa.cfg import CFG
    pos = ast.parse(_POS_BRACKET).body[0].body[0]
    try:
        if len(_open_brackets(pos, CFG(pos))) != 1:
            chk.pending_errors.append("BRACKET-0 detector does not match its positive example")
    except Exception as e:     # noqa
        chk.pending_errors.append("BRACKET-0 positive example could not be analysed: %r" % (e,))
    n = 0
    for ident in sorted(_anchor_idents(chk)):
        rel, qual = ident.split("::", 1)
        f = chk.repo.try_func(rel, qual)
        if f is None or ident in _BRACKET_CONFIRMED:
            continue
        if not any(isinstance(x, ast.Constant) and x.value is False for x in ast.walk(f.node)):
            continue
        n += 1
        cfg = f.cfg()
        for s_, k, w in _open_brackets(f.node, cfg):
            chk.ob("BRACKET-0", "a flag that a function sets for a phase and clears at its end is cleared on every returning path after the set", False, f.where(s_.ast),
                   detail="%s stays True on an early exit: whatever the flag suspends stays suspended" % k, construct=ident, text="phase flag %s left set" % k,
                   path=cfg.fmt_path(w, f))
    chk.ob("BRACKET-0", "functions examined for phase flags left set (%d)" % n, True, "mpf:1", nontrivial=False)


# ---------------------------------------------------------------------------------------------------------------- EVPRIO-0
# Control-event handlers carry their relative priority in the @event_handler(n) decorator: the event manager orders the handlers of one event
# by it (enable before the hit it enables, reset after ...).  An override that drops the decorator falls to priority 0 (subclasses do choose
# other priorities on purpose - shot groups 2, mixin 10 - so only a missing declaration is flagged).
_POS_EVPRIO = """
class Base:
    @event_handler(20)
    def event_enable(self, **kwargs):
        pass

class Child(Base):
    def event_enable(self, **kwargs):
        pass
"""


def _handler_priority(fn_node):
    for d in fn_node.decorator_list:
        if isinstance(d, ast.Call) and (getattr(d.func, "id", None) == "event_handler" or getattr(d.func, "attr", None) == "event_handler"):
            return ast.unparse(d.args[0]) if d.args else "?"
    return None


def overrides_keep_event_priority(chk):
    pos = ast.parse(_POS_EVPRIO).body
    if not (_handler_priority(pos[0].body[0]) == "20" and _handler_priority(pos[1].body[0]) is None):
        chk.pending_errors.append("EVPRIO-0 detector does not match its positive example")
    rels = sorted({i.split("::", 1)[0] for i in _anchor_idents(chk)})
    n = 0
    for rel in rels:
        m = chk.repo.modules.get(rel)
        if m is None:
            continue
        for c in m.classes.values():
            for name, f in c.methods.items():
                base = chk.repo.lookup_method(c, name, skip_self=True)
                if base is None:
                    continue
                want = _handler_priority(base.node)
                if want is None:
                    continue
                n += 1
                got = _handler_priority(f.node)
                chk.ob("EVPRIO-0", "an override of a prioritised control-event handler declares a relative priority of its own (@event_handler(n))", got is not None,
                       f.where(), detail="%s declares @event_handler(%s); the override %s" % (base.ident, want, "declares none: it runs at priority 0, "
                       "level with the handlers it used to precede" if got is None else "declares %s" % got), construct=f.ident,
                       text="handler priority of %s" % f.qualname)
    chk.ob("EVPRIO-0", "overrides of control-event handlers examined (%d)" % n, True, "mpf:1", nontrivial=False)


# ---------------------------------------------------------------------------------------------------------------- STALE-0
# A loop that waits (await inside) re-decides on every trip.  A local that its exit/branch tests read must therefore be sampled inside the loop:
# a sample taken once before the loop never changes, so the loop either never waits or never ends.
_POS_STALE = """
async def f(self):
    n = self.handler.count()
    while True:
        if self.space <= n:
            await self.changed()
            continue
        return True
"""


def _stale_samples(fn_node):
    out = []
    params = {a.arg for a in fn_node.args.args + fn_node.args.kwonlyargs + fn_node.args.posonlyargs}
    for lp in ast.walk(fn_node):
        if not isinstance(lp, ast.While):
            continue
        if not any(isinstance(x, ast.Await) for b in lp.body for x in ast.walk(b)):
            continue
        inside = {t.id for b in lp.body for x in ast.walk(b) for t in ast.walk(x)
                  if isinstance(t, ast.Name) and isinstance(t.ctx, (ast.Store, ast.Del))}
        tests = [x.test for b in lp.body for x in ast.walk(b) if isinstance(x, (ast.If, ast.While, ast.IfExp))] + [lp.test]
        read = {}
        for t in tests:
            for x in ast.walk(t):
                if isinstance(x, ast.Name) and isinstance(x.ctx, ast.Load):
                    read.setdefault(x.id, t)
        for nm, t in sorted(read.items()):
            if nm in inside or nm in params:
                continue
            # sampled before the loop from live state (a call or an attribute read), not a constant or a parameter
            pre = [s for s in ast.walk(fn_node) if isinstance(s, ast.Assign) and s.lineno < lp.lineno
                   and any(isinstance(tt, ast.Name) and tt.id == nm for tt in s.targets)]
            if pre and all(any(isinstance(y, ast.Call) for y in ast.walk(s.value)) and "self" in {z.id for z in ast.walk(s.value) if isinstance(z, ast.Name)}
                           for s in pre):
                out.append((lp, nm, t, pre[-1]))
    return out


_STALE_CONFIRMED = {
    # the longest fade the hardware can run is a constant of the platform driver, not state that changes while the fade runs
    "mpf/platforms/interfaces/light_platform_interface.py::LightPlatformDirectFade._fade": "max_fade_ms is a platform constant",
}


def waiting_loops_resample(chk):
    pos = ast.parse(_POS_STALE).body[0]
    if len(_stale_samples(pos)) != 1:
        chk.pending_errors.append("STALE-0 detector does not match its positive example")
    n = 0
    for ident in sorted(_anchor_idents(chk)):
        rel, qual = ident.split("::", 1)
        f = chk.repo.try_func(rel, qual)
        if f is None or not isinstance(f.node, ast.AsyncFunctionDef) or ident in _STALE_CONFIRMED:
            continue
        n += 1
        for lp, nm, t, pre in _stale_samples(f.node):
            chk.ob("STALE-0", "a waiting loop samples the live state it decides on inside the loop, on every trip", False, f.where(pre),
                   detail="%s is read from live state once before the loop at line %d and tested in the loop (%s): after the wait the test sees the old value"
                   % (nm, pre.lineno, ast.unparse(t)[:80]), construct=ident, text="stale sample %s in waiting loop" % nm)
    chk.ob("STALE-0", "async functions examined for stale samples in waiting loops (%d)" % n, True, "mpf:1", nontrivial=False)


# ---------------------------------------------------------------------------------------------------------------- TRIP-0
# A per-item value: a local that a loop body computes from the current item and then hands to a call.  If some path through the trip reaches the
# call without computing it, the call gets the value of an *earlier* item (the pre-loop initialisation only serves the first trip).
_POS_TRIP = """
def f(self, xs, state):
    hs = state
    for x in xs:
        if hs == 2:
            hs = 0 if self.active(x) else 1
        self.add(x, state=hs)
"""
_TRIP_CONFIRMED = {}


def _carried_args(fn_node, cfg):
    out = []
    for lp in [x for x in ast.walk(fn_node) if isinstance(x, ast.For)]:
        item_names = {t.id for t in ast.walk(lp.target) if isinstance(t, ast.Name)}
        body_nodes = {id(x) for b in lp.body for x in ast.walk(b)}
        asg = {}
        for b in lp.body:
            for x in ast.walk(b):
                if isinstance(x, ast.Assign) and len(x.targets) == 1 and isinstance(x.targets[0], ast.Name):
                    nm = x.targets[0].id
                    reads = {y.id for y in ast.walk(x.value) if isinstance(y, ast.Name)}
                    if nm in reads:
                        asg[nm] = None          # accumulator: carried on purpose
                    elif asg.get(nm, []) is not None and reads & item_names:
                        asg.setdefault(nm, []).append(x)
                elif isinstance(x, ast.AugAssign) and isinstance(x.target, ast.Name):
                    asg[x.target.id] = None
        asg = {k: v for k, v in asg.items() if v}
        if not asg:
            continue
        heads = [n for n in cfg.nodes if n.kind == "loop" and n.ast is lp]
        if not heads:
            continue
        head = heads[0]
        for nm, stmts in sorted(asg.items()):
            # every in-loop assignment of the name computes from the item; the name is also initialised before the loop
            all_in = [x for b in lp.body for x in ast.walk(b) if isinstance(x, ast.Assign) and any(isinstance(t, ast.Name) and t.id == nm for t in x.targets)]
            if len(all_in) != len(stmts):
                continue
            pre = [s for s in ast.walk(fn_node) if isinstance(s, ast.Assign) and id(s) not in body_nodes and s.lineno < lp.lineno
                   and any(isinstance(t, ast.Name) and t.id == nm for t in s.targets)]
            if not pre:
                continue
            a_ids = {n.id for n in cfg.nodes if n.kind == "stmt" and any(n.ast is s for s in stmts)}
            for n in cfg.nodes:
                if n.kind != "stmt" or id(n.ast) not in body_nodes:
                    continue
                uses = [c for c in n.calls() if any(isinstance(y, ast.Name) and y.id == nm for a_ in list(c.args) + [k.value for k in c.keywords]
                                                    for y in ast.walk(a_))]
                if not uses or n.id in a_ids:
                    continue
                after_assign = any(cfg.path_avoiding(a, [n.id], [head.id]) for a in a_ids)
                if after_assign and cfg.path_avoiding(head.id, [n.id], list(a_ids)):
                    out.append((lp, nm, n, stmts[0]))
    return out


def per_item_values_fresh(chk):
    from sa.cfg import CFG
    pos = ast.parse(_POS_TRIP).body[0]
    try:
        if len(_carried_args(pos, CFG(pos))) != 1:
            chk.pending_errors.append("TRIP-0 detector does not match its positive example")
    except Exception as e:     # noqa
        chk.pending_errors.append("TRIP-0 positive example could not be analysed: %r" % (e,))
    n = 0
    for ident in sorted(_anchor_idents(chk)):
        rel, qual = ident.split("::", 1)
        f = chk.repo.try_func(rel, qual)
        if f is None or ident in _TRIP_CONFIRMED or not any(isinstance(x, ast.For) for x in ast.walk(f.node)):
            continue
        n += 1
        for lp, nm, use, st in _carried_args(f.node, f.cfg()):
            chk.ob("TRIP-0", "a value computed from the current item is computed on every path of the trip before it is handed on", False, f.where(use.ast),
                   detail="%s is computed from the loop item at line %d but reaches this call on a path that skips the computation: it then still holds "
                   "the value of an earlier item" % (nm, st.lineno), construct=ident, text="per-item value %s carried over" % nm)
    chk.ob("TRIP-0", "functions examined for per-item values carried between trips (%d)" % n, True, "mpf:1", nontrivial=False)
