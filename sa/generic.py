"""Obligations every property's check carries, evaluated over the functions its own rules analysed.

RANGE-0  "for every" means every: no loop (or comprehension) of an analysed function iterates a *bounded slice* of a collection
         (`xs[:1]`, `list(xs)[1:]`, `islice(xs, n)`): the rules of a property speak about every handler / ball / entry / mode, and a
         loop that visits only part of the collection narrows that quantifier without touching any of the statements the rules
         look at.  Legitimate partial iterations are tabled below with their reason (none in the analysed functions today).
"""
import ast

from sa.model import src

# (relpath, qualname, iteration text) -> reason
PARTIAL_OK = {
}

_POSITIVE = """
def f(self, xs):
    for x in list(xs)[:1]:
        x()
    return [y for y in xs[1:]]
"""


def _bounded(it):
    for x in ast.walk(it):
        if isinstance(x, ast.Subscript) and isinstance(x.slice, ast.Slice) and (
                x.slice.lower is not None or x.slice.upper is not None or x.slice.step is not None):
            return x
        if isinstance(x, ast.Call) and src(x.func).split(".")[-1] == "islice":
            return x
    return None


def _loops(fn):
    for n in ast.walk(fn):
        if isinstance(n, (ast.For, ast.AsyncFor)):
            yield n, n.iter
        elif isinstance(n, ast.comprehension):
            yield n, n.iter


def whole_collection_loops(chk):
    # the detector itself must match its positive example on every run (the expected count on the tree is zero)
    pos = ast.parse(_POSITIVE).body[0]
    hits = [1 for _, it in _loops(pos) if _bounded(it) is not None]
    if len(hits) != 2:
        chk.pending_errors.append("RANGE-0 detector does not match its positive example")
    n = 0
    for ident in sorted(chk.funcs_analysed):
        rel, qual = ident.split("::", 1)
        f = chk.repo.try_func(rel, qual)
        if f is None:
            continue
        for lp, it in _loops(f.node):
            n += 1
            b = _bounded(it)
            if b is None or (rel, qual, src(it)) in PARTIAL_OK:
                continue
            where = "%s:%d" % (rel, getattr(it, "lineno", f.node.lineno))
            chk.ob("RANGE-0", "loops of the analysed functions range over whole collections", False, where,
                   detail="`%s` visits only part of the collection: whatever the loop does for every item is no longer done for all of them" % src(it)[:80],
                   construct=ident, text="partial iteration " + src(it)[:80])
    chk.ob("RANGE-0", "loops of the analysed functions range over whole collections (%d loops in %d functions)" % (n, len(chk.funcs_analysed)), True,
           "mpf:1", nontrivial=False)
