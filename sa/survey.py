#!/usr/bin/env python3
"""Syntactic mutation survey (development + thorough-tier evidence, never a gate).

For every function a property's rules analysed, generate the classic single-site syntactic mutants
(statement deletion, condition negation, comparison/boolean/arithmetic operator swaps, constant changes,
container-method swaps, dropped keyword arguments), re-run the property's rules on each in-memory mutant and
count how many make the check report a VIOLATION, how many make it refuse (ANALYSIS-ERROR) and how many it
does not notice.  Most unnoticed mutants are irrelevant to the property (logging, messages, unrelated
features) or equivalent; the survivors list is the raw material for finding blind spots by reading.

usage:  survey.py Cnn [--out file.json] [--funcs 'path::Qual' ...] [--show N]
"""
import argparse
import ast
import copy
import importlib
import json
import multiprocessing as mp
import os
import sys

HERE = os.path.dirname(os.path.abspath(__file__))
sys.path.insert(0, os.path.dirname(HERE))

from sa.model import Repo, AnalysisError  # noqa: E402
from sa.report import Check, run_rules  # noqa: E402

CMP_SWAP = {ast.Lt: ast.LtE, ast.LtE: ast.Lt, ast.Gt: ast.GtE, ast.GtE: ast.Gt, ast.Eq: ast.NotEq,
            ast.NotEq: ast.Eq, ast.Is: ast.IsNot, ast.IsNot: ast.Is, ast.In: ast.NotIn, ast.NotIn: ast.In}
CMP_FLIP = {ast.Lt: ast.Gt, ast.Gt: ast.Lt, ast.LtE: ast.GtE, ast.GtE: ast.LtE}
BIN_SWAP = {ast.Add: ast.Sub, ast.Sub: ast.Add, ast.Mult: ast.Div, ast.Div: ast.Mult, ast.FloorDiv: ast.Mult,
            ast.Mod: ast.Mult, ast.BitAnd: ast.BitOr, ast.BitOr: ast.BitAnd, ast.LShift: ast.RShift,
            ast.RShift: ast.LShift}
ATTR_SWAP = {"append": "appendleft", "appendleft": "append", "pop": "popleft", "popleft": "pop",
             "add": "discard", "discard": "add", "set": "clear", "clear": "set", "min": "max", "max": "min",
             "extend": "append", "insert": "append", "acquire": "release", "release": "acquire",
             "put_nowait": "get_nowait", "set_result": "cancel", "post": "post_queue", "post_queue": "post",
             "post_boolean": "post", "post_relay": "post", "call_at": "call_later", "call_later": "call_at",
             "call_soon": "call_later", "startswith": "endswith", "endswith": "startswith",
             "remove": "append", "update": "setdefault", "unquote": "quote", "quote": "unquote",
             "wait": "clear", "add_handler": "remove_handler_by_key", "remove_handler": "add_handler"}


LOGGISH = {"debug_log", "info_log", "warning_log", "error_log", "debug", "info", "warning", "error", "log", "format", "raise_config_error",
           "join", "split", "startswith", "endswith", "replace", "strip", "encode", "decode"}


ATTR_SIBS = {}


def build_attr_sibs(repo):
    """Near-namesakes *within one class*: attributes stored on self / properties of the same class where one name is
    `<prefix>_<other>` (`balls` / `available_balls`, `state` / `hw_state`): the realistic confusions."""
    out = {}
    for m in repo.modules.values():
        for c in ast.walk(m.tree):
            if not isinstance(c, ast.ClassDef):
                continue
            names = set()
            for x in ast.walk(c):
                if isinstance(x, ast.Attribute) and isinstance(x.ctx, ast.Store) and isinstance(x.value, ast.Name) and x.value.id == 'self':
                    names.add(x.attr)
                if isinstance(x, ast.FunctionDef) and any(isinstance(d, ast.Name) and d.id == 'property' for d in x.decorator_list):
                    names.add(x.name)
            for a in names:
                for b in names:
                    if a != b and not a.startswith('__') and (b.endswith('_' + a.lstrip('_')) or a.endswith('_' + b.lstrip('_'))):
                        out.setdefault(a, set()).add(b)
    ATTR_SIBS.clear()
    ATTR_SIBS.update({k: sorted(v) for k, v in out.items()})


class Site:
    __slots__ = ("kind", "start", "end", "new", "line", "desc")

    def __init__(self, kind, start, end, new, line, desc):
        self.kind, self.start, self.end, self.new, self.line, self.desc = kind, start, end, new, line, desc


def _offsets(text):
    """byte offsets of line starts (ast col offsets are utf-8 byte offsets)."""
    b = text.encode("utf-8")
    offs = [0]
    for i, ch in enumerate(b):
        if ch == 10:
            offs.append(i + 1)
    return b, offs


def _rng(node, offs):
    return offs[node.lineno - 1] + node.col_offset, offs[node.end_lineno - 1] + node.end_col_offset


def _u(node):
    return ast.unparse(ast.fix_missing_locations(node))


def sites_in(func_node, btext, offs):
    out = []

    def add(kind, node, new, desc):
        s, e = _rng(node, offs)
        out.append(Site(kind, s, e, new, node.lineno, desc))

    body_nodes = []
    for st in func_node.body:
        body_nodes.extend(ast.walk(st))
    # ---- SWAP: two adjacent simple statements exchanged (order of effects).  Only where both have an effect beyond a local
    # binding (a call, an await, a store to an attribute / subscript) and neither is a log call.
    def _effect(st):
        if not isinstance(st, (ast.Expr, ast.Assign, ast.AugAssign, ast.Delete)):
            return False
        t = _u(st)
        if "log(" in t or "_log(" in t or "debug(" in t or "warning(" in t:
            return False
        if any(isinstance(x, (ast.Call, ast.Await)) for x in ast.walk(st)):
            return True
        if isinstance(st, ast.Expr):
            return False
        tg = st.targets if isinstance(st, (ast.Assign, ast.Delete)) else [st.target]
        return any(isinstance(x, (ast.Attribute, ast.Subscript)) for x in tg)
    for parent in [func_node] + body_nodes:
        for fld in ("body", "orelse", "finalbody"):
            lst = getattr(parent, fld, None)
            if not isinstance(lst, list):
                continue
            for a, b in zip(lst, lst[1:]):
                if _effect(a) and _effect(b) and a.col_offset == b.col_offset:
                    s0, _e0 = _rng(a, offs)
                    _s1, e1 = _rng(b, offs)
                    pad = " " * a.col_offset
                    out.append(Site("SWAP", s0, e1, _u(b).replace("\n", "\n" + pad) + "\n" + pad + _u(a).replace("\n", "\n" + pad), a.lineno,
                                    "swap `%s` <-> `%s`" % (_u(a)[:40], _u(b)[:40])))
    first = func_node.body[0] if func_node.body else None
    for n in body_nodes:
        # ---- statement deletion
        if isinstance(n, ast.Expr):
            if n is first and isinstance(n.value, ast.Constant) and isinstance(n.value.value, str):
                continue
            if isinstance(n.value, ast.Constant):
                continue
            if isinstance(n.value, ast.Await):
                add("DEL", n, "pass", "delete `%s`" % _u(n)[:70])
            else:
                add("DEL", n, "pass", "delete `%s`" % _u(n)[:70])
        elif isinstance(n, (ast.Assign, ast.AugAssign, ast.Delete)):
            add("DEL", n, "pass", "delete `%s`" % _u(n)[:70])
            if isinstance(n, ast.AugAssign) and isinstance(n.op, (ast.Add, ast.Sub)):
                # an accumulator overwritten instead of accumulated
                add("AUG2ASG", n, "%s = %s" % (_u(n.target), _u(n.value)), "overwrite instead of accumulate `%s`" % _u(n)[:60])
        elif isinstance(n, ast.AnnAssign) and n.value is not None:
            add("DEL", n, "pass", "delete `%s`" % _u(n)[:70])
        elif isinstance(n, ast.Return) and n.value is not None and not (
                isinstance(n.value, ast.Constant) and n.value.value is None):
            add("RET", n, "return None", "return None instead of `%s`" % _u(n.value)[:60])
        elif isinstance(n, ast.Raise):
            add("DEL", n, "pass", "delete `%s`" % _u(n)[:70])
        elif isinstance(n, (ast.Break, ast.Continue)):
            add("DEL", n, "pass", "delete `%s`" % type(n).__name__.lower())
        # ---- early return insertion is not syntactic-single-site; skipped
        # ---- conditions
        if isinstance(n, (ast.If, ast.While, ast.IfExp, ast.Assert)):
            t = n.test
            add("NEG", t, "(not (%s))" % _u(t), "negate `%s`" % _u(t)[:70])
            if isinstance(n, (ast.If, ast.While)):
                add("TRUE", t, "True", "condition `%s` -> True" % _u(t)[:60])
                add("FALSE", t, "False", "condition `%s` -> False" % _u(t)[:60])
        # ---- quantifier narrowing: "for every" -> "for some" (an extra condition exempts items / only the first item is visited)
        if isinstance(n, (ast.For, ast.AsyncFor)):
            it = n.iter
            add("FIRST", it, "list(%s)[:1]" % _u(it), "visit only the first of `%s`" % _u(it)[:50])
            for st in ast.walk(n):
                if isinstance(st, ast.If) and st is not n:
                    t = st.test
                    add("NARROW", t, "((%s) and _narrowed_())" % _u(t), "extra condition on `%s` (loop over %s)" % (_u(t)[:40], _u(it)[:30]))
                    add("WIDEN", t, "((%s) or _widened_())" % _u(t), "extra alternative on `%s` (loop over %s)" % (_u(t)[:40], _u(it)[:30]))
        if isinstance(n, ast.BoolOp):
            other = ast.Or if isinstance(n.op, ast.And) else ast.And
            m = copy.copy(n)
            m.op = other()
            add("BOOL", n, "(%s)" % _u(m), "and<->or in `%s`" % _u(n)[:70])
            for i in range(len(n.values)):
                rest = [v for j, v in enumerate(n.values) if j != i]
                if len(rest) == 1:
                    new = "(%s)" % _u(rest[0])
                else:
                    m = copy.copy(n)
                    m.values = rest
                    new = "(%s)" % _u(m)
                add("DROPCOND", n, new, "drop operand `%s` of `%s`" % (_u(n.values[i])[:40], _u(n)[:50]))
        if isinstance(n, ast.Compare) and len(n.ops) == 1:
            op = type(n.ops[0])
            for table, kind in ((CMP_SWAP, "CMP"), (CMP_FLIP, "CMPFLIP")):
                if op in table:
                    m = copy.copy(n)
                    m.ops = [table[op]()]
                    add(kind, n, "(%s)" % _u(m), "`%s` -> `%s`" % (_u(n)[:50], _u(m)[:50]))
        if isinstance(n, ast.UnaryOp) and isinstance(n.op, ast.Not):
            add("UNNOT", n, "(%s)" % _u(n.operand), "drop `not` in `%s`" % _u(n)[:60])
        if isinstance(n, ast.BinOp) and type(n.op) in BIN_SWAP:
            if isinstance(n.op, ast.Mod) and isinstance(n.left, ast.Constant) and isinstance(n.left.value, str):
                continue
            if isinstance(n.op, ast.Add) and (
                    (isinstance(n.left, ast.Constant) and isinstance(n.left.value, str)) or
                    (isinstance(n.right, ast.Constant) and isinstance(n.right.value, str))):
                continue
            m = copy.copy(n)
            m.op = BIN_SWAP[type(n.op)]()
            add("ARITH", n, "(%s)" % _u(m), "`%s` -> `%s`" % (_u(n)[:50], _u(m)[:50]))
        if isinstance(n, ast.AugAssign) and type(n.op) in BIN_SWAP:
            m = copy.copy(n)
            m.op = BIN_SWAP[type(n.op)]()
            add("ARITH", n, _u(m), "`%s` -> `%s`" % (_u(n)[:50], _u(m)[:50]))
        if isinstance(n, ast.Constant) and not isinstance(n.value, (str, bytes)) and n.value is not None \
                and n.value is not Ellipsis:
            v = n.value
            if v is True or v is False:
                add("CONST", n, repr(not v), "%r -> %r" % (v, not v))
            elif isinstance(v, (int, float)):
                alts = [v + 1] if v != 0 else [1]
                if v not in (0, 1):
                    alts.append(1)
                if v == 1:
                    alts = [0, 2]
                if v in (1000, 1000.0):
                    alts = [1, 100]
                for a in alts:
                    add("CONST", n, repr(a), "%r -> %r" % (v, a))
        if isinstance(n, ast.Attribute) and isinstance(n.ctx, ast.Load) and ATTR_SIBS.get(n.attr):
            # ATTR: an attribute read replaced by its near-namesake (`balls` <-> `available_balls`, `state` <-> `hw_state`)
            for b in ATTR_SIBS[n.attr][:2]:
                m = copy.copy(n)
                m.attr = b
                add("ATTR", n, _u(m), "read `.%s` instead of `.%s` in `%s`" % (b, n.attr, _u(n)[:40]))
        if isinstance(n, ast.Call) and isinstance(n.func, ast.Attribute) and n.func.attr not in LOGGISH:
            # STR: a string literal handed to a call as a *name* (delay name, event name, handler / dict key): names must agree
            # between the site that creates and the site that looks up
            for a in list(n.args) + [k.value for k in n.keywords]:
                if isinstance(a, ast.Constant) and isinstance(a.value, str) and 0 < len(a.value) <= 40 and " " not in a.value and "%" not in a.value \
                        and "{" not in a.value:
                    add("STR", a, repr(a.value + "_x"), "name %r -> %r in `%s`" % (a.value, a.value + "_x", _u(n)[:50]))
        if isinstance(n, ast.Call):
            f = n.func
            if isinstance(f, ast.Attribute) and f.attr in ATTR_SWAP:
                m = copy.copy(n)
                m.func = ast.Attribute(value=f.value, attr=ATTR_SWAP[f.attr], ctx=ast.Load())
                add("METH", n, _u(m), ".%s -> .%s in `%s`" % (f.attr, ATTR_SWAP[f.attr], _u(n)[:50]))
            if isinstance(f, ast.Name) and f.id in ("min", "max", "sorted", "reversed", "list", "deepcopy", "copy"):
                if f.id in ("min", "max"):
                    m = copy.copy(n)
                    m.func = ast.Name(id=ATTR_SWAP[f.id], ctx=ast.Load())
                    add("METH", n, _u(m), "%s -> %s in `%s`" % (f.id, ATTR_SWAP[f.id], _u(n)[:50]))
                elif len(n.args) == 1 and not n.keywords:
                    add("UNWRAP", n, "(%s)" % _u(n.args[0]), "drop %s() in `%s`" % (f.id, _u(n)[:50]))
            for i, kw in enumerate(n.keywords):
                if kw.arg is None:
                    m = copy.copy(n)
                    m.keywords = [k for j, k in enumerate(n.keywords) if j != i]
                    add("DROPKW", n, _u(m), "drop **%s in `%s`" % (_u(kw.value)[:20], _u(n)[:50]))
                else:
                    m = copy.copy(n)
                    m.keywords = [k for j, k in enumerate(n.keywords) if j != i]
                    add("DROPKW", n, _u(m), "drop %s= in `%s`" % (kw.arg, _u(n)[:50]))
            if len(n.args) >= 2 and not any(isinstance(a, ast.Starred) for a in n.args[:2]):
                m = copy.copy(n)
                m.args = [n.args[1], n.args[0]] + list(n.args[2:])
                add("ARGSWAP", n, _u(m), "swap first two args of `%s`" % _u(n)[:60])
        if isinstance(n, ast.Subscript) and isinstance(n.slice, ast.Slice) and isinstance(n.ctx, ast.Load):
            sl = n.slice
            if sl.lower is None and sl.upper is None and sl.step is None:
                add("UNWRAP", n, "(%s)" % _u(n.value), "drop [:] in `%s`" % _u(n)[:50])
            elif sl.lower is not None and sl.upper is None:
                m = copy.copy(n)
                m.slice = ast.Slice(lower=None, upper=sl.lower, step=None)
                add("SLICE", n, _u(m), "`%s` -> `%s`" % (_u(n)[:40], _u(m)[:40]))
            elif sl.lower is None and sl.upper is not None:
                m = copy.copy(n)
                m.slice = ast.Slice(lower=sl.upper, upper=None, step=None)
                add("SLICE", n, _u(m), "`%s` -> `%s`" % (_u(n)[:40], _u(m)[:40]))
    # stable order, drop duplicates
    seen, uniq = set(), []
    for s in sorted(out, key=lambda s: (s.start, s.end, s.kind, s.new)):
        k = (s.start, s.end, s.new)
        if k in seen:
            continue
        seen.add(k)
        uniq.append(s)
    return uniq


_G = {}


def _run_one(i):
    props, repo, base_keys = _G["props"], _G["repo"], _G["base_keys"]
    rel, site = _G["items"][i]
    b = _G["btexts"][rel]
    new_text = (b[:site.start] + site.new.encode("utf-8") + b[site.end:]).decode("utf-8")
    try:
        ast.parse(new_text)
    except SyntaxError:
        return (i, "noparse", "")
    r2 = repo.with_overlay({rel: new_text})
    err = None
    for prop in props:
        try:
            mod = importlib.import_module("sa.rules.%s" % prop.lower())
            chk = Check(prop, "quick", r2, quiet=True)
            run_rules(mod, chk)
            new = [v for v in chk.violations if v["key"] not in base_keys]
            if new:
                return (i, "fired", prop + ":" + ",".join(sorted({v["rule"] for v in new})))
            try:
                chk.check_floors()
            except AnalysisError as e:
                err = err or ("analysis-error", prop + ": " + str(e)[:160])
        except AnalysisError as e:
            err = err or ("analysis-error", prop + ": " + str(e)[:160])
        except Exception as e:  # noqa
            err = err or ("crash", "%s %s: %s" % (prop, type(e).__name__, str(e)[:160]))
    if err:
        return (i, err[0], err[1])
    return (i, "silent", "")


def survey(props, repo, funcs=None, jobs=16, kinds=None):
    if not ATTR_SIBS:
        build_attr_sibs(repo)
    if isinstance(props, str):
        props = [props]
    analysed, base_keys = set(), set()
    for prop in props:
        mod = importlib.import_module("sa.rules.%s" % prop.lower())
        base = Check(prop, "quick", repo, quiet=True)
        run_rules(mod, base)
        analysed |= set(base.funcs_analysed)
        base_keys |= {v["key"] for v in base.violations}
    idents = []
    for x in (funcs or sorted(analysed)):
        if "::" in x and not x.endswith("::*"):
            idents.append(x)
        else:                      # a whole module or 'path::Class.*'
            rel = x.split("::")[0]
            m = repo.modules[rel]
            for fn in m.all_funcs():
                idents.append(fn.ident)
    idents = sorted(set(idents))
    items, btexts = [], {}
    per_func = {}
    for ident in idents:
        rel, qual = ident.split("::", 1)
        f = repo.try_func(rel, qual)
        if f is None:
            continue
        if rel not in btexts:
            btexts[rel] = _offsets(repo.modules[rel].text)
        b, offs = btexts[rel]
        ss = sites_in(f.node, b, offs)
        if kinds:
            ss = [s for s in ss if s.kind in kinds]
        per_func[ident] = len(ss)
        for s in ss:
            items.append((rel, s, ident))
    _G.update(props=props, repo=repo, base_keys=base_keys,
              items=[(rel, s) for rel, s, _ in items], btexts={k: v[0] for k, v in btexts.items()})
    ctx = mp.get_context("fork")
    with ctx.Pool(min(jobs, max(1, len(items)))) as pool:
        res = pool.map(_run_one, range(len(items)), chunksize=4)
    rows = []
    for (i, status, info) in res:
        rel, s, ident = items[i]
        rows.append({"func": ident, "line": s.line, "kind": s.kind, "desc": s.desc, "status": status, "info": info,
                     "rel": rel, "start": s.start, "end": s.end, "new": s.new})
    return rows, per_func


NOISE = ("debug_log", "info_log", "warning_log", "error_log", "self._debug", "self._info", "configure_logging", "`del kwargs`",
         "`del mode`", "`self._debug`", "raise AssertionError", "raise ConfigFileError", "self.log.", "raise_config_error",
         "ignorable_runtime_exception", "send_driver_event", "`self._info`", "debug_to_console")


def _noise(r):
    d = r["desc"]
    if any(x in d for x in NOISE):
        return True
    if r["kind"] == "ARGSWAP" and (".format(" in d or "isinstance(" in d or "hasattr(" in d or "getattr(" in d):
        return True
    if r["func"].endswith(".__init__") and r["kind"] in ("DEL", "CONST"):
        return True
    if r["kind"] == "DROPKW" and ("ticks" in d and "events.post" in d):
        return True
    return False


def recheck(props, repo, path, jobs=16):
    d = json.load(open(path))
    rows = [r for r in d["rows"] if r.get("tests") != "tests-fail"]
    base_keys = set()
    for prop in props:
        mod = importlib.import_module("sa.rules.%s" % prop.lower())
        base = Check(prop, "quick", repo, quiet=True)
        run_rules(mod, base)
        base_keys |= {v["key"] for v in base.violations}
    btexts = {}
    items = []
    for r in rows:
        if r["rel"] not in btexts:
            btexts[r["rel"]] = repo.modules[r["rel"]].text.encode("utf-8")
        items.append((r["rel"], Site(r["kind"], r["start"], r["end"], r["new"], r["line"], r["desc"])))
    _G.update(props=props, repo=repo, base_keys=base_keys, items=items, btexts=btexts)
    with mp.get_context("fork").Pool(jobs) as pool:
        res = pool.map(_run_one, range(len(items)), chunksize=2)
    tot = {}
    for i, status, info in res:
        tot[status] = tot.get(status, 0) + 1
        r = rows[i]
        if status != "fired" and not _noise(r):
            print("%-3s %s:%d [%s] %s %s" % (status[:3], r["func"].split("::")[1], r["line"], r["kind"], r["desc"], info[:70]))
    print("recheck of %d test-surviving mutants: %s" % (len(rows), tot))
    return 0


def summarise(rows):
    tot = {}
    for r in rows:
        tot[r["status"]] = tot.get(r["status"], 0) + 1
    return tot


def main(argv=None):
    ap = argparse.ArgumentParser()
    ap.add_argument("prop", help="one property or several joined with + (a mutant counts as noticed if any fires)")
    ap.add_argument("--repo", default=None)
    ap.add_argument("--out")
    ap.add_argument("--funcs", nargs="*")
    ap.add_argument("--show", type=int, default=0)
    ap.add_argument("--kinds", nargs="*")
    ap.add_argument("--recheck", help="a survivor_tests.py --out file: re-run the rules on the mutants the tests did not kill")
    a = ap.parse_args(argv)
    repo = Repo(a.repo)
    if a.recheck:
        return recheck(a.prop.upper().split("+"), repo, a.recheck)
    rows, per_func = survey(a.prop.upper().split("+"), repo, a.funcs, kinds=set(a.kinds) if a.kinds else None)
    tot = summarise(rows)
    n = sum(v for k, v in tot.items() if k != "noparse")
    print("%s: %d functions, %d mutants: %s" % (a.prop, len(per_func), n, tot))
    byf = {}
    for r in rows:
        d = byf.setdefault(r["func"], {})
        d[r["status"]] = d.get(r["status"], 0) + 1
    for f in sorted(byf):
        print("  %-90s %s" % (f, byf[f]))
    if a.show:
        k = 0
        for r in rows:
            if r["status"] in ("silent", "crash"):
                print("   SURVIVOR %s:%d [%s] %s %s" % (r["func"], r["line"], r["kind"], r["desc"], r["info"]))
                k += 1
                if k >= a.show:
                    break
    if a.out:
        with open(a.out, "w") as fh:
            json.dump({"property": a.prop, "totals": tot, "per_function": byf, "rows": rows}, fh, indent=1)
    return 0


if __name__ == "__main__":
    sys.exit(main())
