"""Per-property claim texts for MANIFEST.json (single source)."""

NOTE = ("Trusted base: CPython's ast module, the sa/ engine (AST model, statement CFG with dominators/facts, "
        "whole-repo use index) and the frozen allow-lists in sa/rules (each entry carries its reason). "
        "Tests and benchmarks under mpf/ are out of scope. Only the structural clauses named are decided; "
        "the behaviour over all histories/schedules/inputs is NOT decided.")

CLAIMS = {
    "C01": dict(
        text="Static analysis (every path / every caller in the repository) of structural necessary conditions of "
             "serial, priority-ordered dispatch: only process_event_queue invokes handlers and it has only deferred or "
             "run-loop callers (no nesting); posting never dispatches synchronously and always enqueues; FIFO/LIFO ends "
             "of the three deques; handler lists iterated as snapshots; sort by priority descending after every "
             "insert; handler kwargs merged after posted kwargs; condition evaluated on the merged kwargs before each "
             "call; completion callback queued once, run only between full drains. Depth-first order for every posting "
             "tree and exactly-once delivery are not decided.",
        technique="who-may-call over a whole-repo use index; CFG dominance/must-pass; deque end discipline; merge-order normalisation",
        ref="4/C01"),
}
