"""Per-property claim texts for MANIFEST.json (single source)."""

NOTE = ("Trusted base: CPython's ast module, the sa/ engine (AST model, statement CFG with dominators/facts, "
        "whole-repo use index) and the frozen allow-lists in sa/rules (each entry carries its reason). "
        "Tests and benchmarks under mpf/ are out of scope. Only the structural clauses named are decided; "
        "the behaviour over all histories/schedules/inputs is NOT decided.")

CLAIMS = {
    "C01": dict(
        text="Static analysis (every path / every caller in the repository) of structural necessary conditions of "
             "serial, priority-ordered dispatch: only process_event_queue invokes handlers and it has only deferred or "
             "run-loop callers (no nesting); posting never dispatches synchronously and always enqueues; FIFO/LIFO ends "
             "of the three deques; handler lists iterated as snapshots; sort by priority descending after every "
             "insert; handler kwargs merged after posted kwargs; condition evaluated on the merged kwargs before each "
             "call; completion callback queued once, run only between full drains. Depth-first order for every posting "
             "tree and exactly-once delivery are not decided. Also: the deque being drained is never the deque posts append to (fresh deque installed before any dispatch); the public wrappers forward event, callback, priority, facility and **kwargs; the stored priority is the caller's plus additive adjustments; the blocking skip needs a strictly higher posted minimum. Also: a handler's condition is evaluated in that handler's own iteration of the dispatch loop (never once ahead of it); the priority sort follows every insertion also through local aliases of the handler list. Also: handler removal scans (remove_handler / by key / by keys) are never left early and match exactly the handler or key asked for; the dispatch loop anchor is a verdict. Also: replace_handler removes exactly the old registrations of that handler (with these kwargs when kwargs are given) and always registers; an event's entry is dropped only when empty; a group of waiters (wait_for_any_event) is removed as a whole by the first that fires. Also: removal by key finds the registration (returned key carries the parsed event name and the stored key); the dispatch loop is left before the last handler only by a boolean event whose handler returned False. Also: when the drained batch runs empty the suspended one is resumed before anything is stacked on it (no emptied batch above a suspended one); the queue runner calls the completion callback at most once on any path. Also: the `.N` priority suffix is the whole text after the dot. Also: the done-callback of a coroutine handler releases the queue event on every returning path, cancellation included.",
        technique="who-may-call over a whole-repo use index; CFG dominance/must-pass; deque end discipline; merge-order normalisation",
        ref="4/C01"),
    "C02": dict(
        text="Static analysis of structural necessary conditions of queue/relay/boolean events: no handler forwards "
             "its own **kwargs (and with it an outer QueuedEvent) into another queue event (all post_queue sites of "
             "the repository); the async-handler adapter waits before starting its task and clears on every "
             "non-raising path incl. cancellation; the sequential dispatcher awaits an outstanding wait inside the "
             "handler loop, after the call, with a fresh Event and a fresh QueuedEvent per handler; relay update and "
             "boolean early-exit are guarded by exactly their type/result tests and the callback gets the dict the "
             "handlers updated; every internal QueuedEvent.wait() site in the repository is cleared, parked in a "
             "field that a tabled completion method clears, or captured by a clearing callback on every path; the "
             "counting waits clear at zero; event-type tokens and namedtuple indices agree between poster and "
             "dispatcher; QueuedEvent wait/clear typestate. Lost wake-ups of arbitrary user handlers and the "
             "relative timing of clears are not decided. Also: the handlers' result reaches the completion callback as ev_result, stored before the callback is queued. Also: sufficiency of the boolean abort and the relay merge (nothing but type and result decide); a clearing callback whose registration key is stored per wait is removed only through that key and clears its own queue on every path; the game-end and ball-end stop loops stop every matching mode (no further condition, whole collection, no early exit, bookkeeping before stop()). Also: the queue-event handler loop is never left early (every registered handler is asked before the queue decides); the relay/queue dispatch of _run_handlers merges kwargs and evaluates conditions the same way as the plain dispatch; game and ball stop loops select exactly the modes flagged to stop, with their book-keeping done before the stop is requested. Also: Mode.start touches the queue of the starting event only once the request is accepted (after every refusal exit). Also: the queue-event runner evaluates a handler's condition at that handler's turn, on the merged kwargs; replace_handler registers with the priority it was given. Also: every returning path of the queue-event runner fires the completion callback (also when the handlers vanished before its first step: F21, fixed); the handler list is re-sorted after every insertion (shared with C01). Also: no loop over the stop callbacks (or any walked container of the analysed functions) changes the container it walks (generic ITERMUT-0). Also: the relay player forgets the waits of a context after releasing them. Also: the completion callback fires at most once on any path of the queue runner.",
        technique="taint of **kwargs into post_queue; CFG must-pass/dominance/facts for wait-clear typestate; table agreement",
        ref="4/C02"),
    "C03": dict(
        text="Static analysis of structural necessary conditions in the switch controller: every time expression is "
             "dimensionally consistent (clock seconds vs. milliseconds; deadline = last change + hold/1000; the "
             "mid-interval catch-up test compares clock seconds and arms only deadlines still ahead, for the current "
             "state); every effect of a report (state/hw_state/last_change stores, cancel, handler calls, monitors) "
             "is dominated by the not-a-duplicate side of the state test; the two NC inversion branches flip exactly "
             "one variable each, before the duplicate test; timed handlers of the old state are cancelled before the "
             "new state's handlers are armed/called; handler lists are iterated as snapshots with cancelled / "
             "membership re-checks; due test, delete-after-fire and earliest-deadline rescheduling; a scheduled "
             "wake-up is only replaced after unscheduling it; remove purges both stores with the exact match key; "
             "switch events are posted for the new state. Exactly-once over arbitrary timelines, coincident "
             "deadlines and recycle windows are not decided. Also: entry points and removal wrappers hand their arguments to the worker unchanged; is_state/is_active/is_inactive compare the logical state and the elapsed ms; the initial hardware read applies NC inversion to every switch of the platform read; switch events are registered for the state their source names; the earliest deadline is armed on every path; no container is mutated while it is iterated. Also: every live handler of the new state is called or armed (exact selection), every due timed handler fires and every fired deadline is forgotten, removal matches exactly (callback, ms), the next wake-up is the running minimum of the pending deadlines, hold-time strings are parsed by the millisecond parser and never rescaled. Also: the raw hardware level (hw_state) is read only where hardware reports are compared (never by logical-state consumers). Also (ignore_window_ms): outside a window a change opens one, books its end and is announced; at the end the window is closed first and the current state announced exactly when it differs from the announced one. Also: loops that act on every registration matching (callback, ms) are left only by exhaustion. Also: a call that forwards a parameter by name forwards every other parameter the callee shares (the waiter's immediate answer takes the hold time; generic DROP-0). Also: the pending hold-time deadlines of a switch are dropped wholesale only by a state change, never by a removal.",
        technique="unit (dimension) inference; CFG dominance/guards; feasible-path enumeration; snapshot-iteration rule",
        ref="4/C03"),
    "C08": dict(
        text="Static analysis (whole repository) of structural necessary conditions of the coil safety limits: only the "
             "tabled Driver paths (and the tabled non-coil DigitalOutput / software-EOS re-use of verified settings) "
             "actuate a platform driver, the hw_driver object does not escape, Driver's private actuation paths are "
             "used only by Driver; platform rule setters are called only by the verifying controller methods with "
             "DriverSettings from the verifying helpers; every PulseSettings/HoldSettings field in driver.py and "
             "platform_controller.py derives (def-use through private-method parameters and delay.add keywords) from "
             "the getter of the matching kind applied to the caller's value; on every feasible path to a getter's "
             "return the upper-limit test and the negative-value test were false, exceeding raises DriverLimitsError, "
             "configured maxima take precedence over fallbacks, no limit guard is unsatisfiable; software-timed pulse "
             "arms self.disable with ms=pulse_ms on the enabling path; the max_hold_duration watchdog is armed on "
             "every enabling path, in milliseconds, not restartable, removed by disable; hold power 0 is refused; "
             "control events map parameters one-to-one onto the verifying API. PSU wait arithmetic and timer "
             "interleavings are not decided. Also: the constant full-power hold fallback is granted only by allow_enable. Also: the software-timed switch-off is armed before the coil is switched on. Also: DelayManager.add never runs the delayed callback itself and registers with the clock on every path (the switch-off armed before the switch-on cannot run first). Also: no coil-driving device bounds a value with min / max against a max_* limit (refused, never clamped). Also: disable() switches the coil off before it forgets the max_hold_duration watchdog.",
        technique="who-may-call/escape analysis; def-use provenance across call sites; feasible-path guard analysis; dead-guard interval check; unit inference",
        ref="4/C08"),
    "C13": dict(
        text="Static analysis of structural necessary conditions of delays and periodic timers: every delay.add/reset/"
             "add_if_doesnt_exist call in the repository whose duration has a known dimension passes milliseconds and "
             "DelayManager.add schedules ms/1000 seconds; every path that takes a record out of the delay table "
             "cancels its scheduled call (add-replace, remove, clear, reset); a firing delay is deleted before its "
             "callback runs and the queue is drained after; the delay record keeps the callback bound to its kwargs "
             "and run_now saves, cancels, then runs exactly that; PeriodicTask reschedules with call_at on the fixed "
             "grid (clock read only at creation, grid advanced before the callback, cancel tested before callback and "
             "before rescheduling); the Timer device's start/stop/pause keep one periodic task, cancel a pending timed "
             "pause on stop/start, count only while running, complete exactly at the end value; an accepted Mode.stop "
             "clears the mode's delays. Firing instants and check() truthfulness over histories are not decided. Also: whoever changes a timer's count checks for completion afterwards and the check reports what it did; reset/add_if_doesnt_exist hand everything to add(), unnamed delays get unique keys. Also: whoever (re)creates the periodic tick of a timer leaves it armed (no removal after the creation). Also: every store to Timer.ticks is classified (start value, +-tick, explicit set/add/subtract/jump) and mode-scoped delays are armed on the mode's own delay manager. Also: a timed pause arms the resume for exactly the given length in ms, scaled inside the truncation. Also: loading a timer sets tick interval, start value and count from the configuration unconditionally. Also: DelayManager.add only schedules; a timer control event is registered with arguments built from its own entry whenever its handler reads one. Also: a change of the tick interval is stored on every path, running or not.",
        technique="unit inference over all delay call sites; CFG must-pass/dominance pairing; def-use of the stored callback record",
        ref="4/C13"),
    "C12": dict(
        text="Static analysis of structural necessary conditions of config validation: each of the ~1700 entries of "
             "config_spec.yaml uses an item type validate_config_item handles and validator tokens present in "
             "validator_list, gives a (param) only to validators that consume it (and the right shape: min,max / "
             "enum members incl. the default / existing device collection / existing sub-spec) and none to validators "
             "that require one; validate_item forwards the param and rejects unknown tokens; numeric validators reach "
             "the range helper on every value-returning path and the helper raises on both bounds; unknown keys are "
             "checked on every path unless the spec allows others and raise unless the permissive machine option is "
             "set; provided values are validated against the spec of their own key, missing ones get their own "
             "default, required ones raise; build_spec deep-copies, a section overrides its bases, nothing but "
             "load_mode_config_spec stores into the shared spec and validation never writes the cached merged spec; "
             "the time-suffix cascade strips len(suffix), has no shadowed branch and the SI multipliers; secs/ms "
             "sibling validators use the converter of their unit. Type soundness over all YAML values is not decided. Also: no validator falls off its end and None is answered only for an absent value; template validators assert the raw type before building. Also: a validator that checks membership in the declared value set returns the very value it checked; in _validate_config exactly the provided keys are validated and exactly the missing ones defaulted, only `ignore` / private keys are left alone, every key that is not in the spec is rejected; no time string in the repository is parsed in the other unit and rescaled. Also: int() is the outermost (last) operation of string_to_ms / string_to_secs conversions (rounded once). Also: a validator returns the given value unconverted only under an isinstance / predicate test on it; text recognisers used by validators match the whole string. Also: a dict setting reaches key/value validation only as a mapping (the event-list form is for event_handler settings); is_power2 is the bit test on a non-zero number. Also: the colour validator returns exactly three components on every path; event_handler strings are split by the condition-aware splitter. Also: a text recognised by one pattern and cut by another (hex colours) meets a cutter that knows every character the recogniser accepts after the case folding applied. Also: X_or_token validates a plain value like X including the spec's range; no method fills a class-level container (generic SHARED-0: the merged-spec cache stays per validator). Also: the event-list pattern's brace group ends at the first closing brace (lazy).",
        technique="table agreement (spec file vs validator table vs signatures); CFG must-pass; who-may-write; suffix-shadowing and constant folding",
        ref="4/C12"),
    "C14": dict(
        text="Static analysis of structural necessary conditions of the serial links: the primitive the FAST writer awaits "
             "after a confirmed command is armed by pause_sending and woken by the confirmation handler (known finding "
             "F11: it is not); bytes reach the port only through the single writer task (plus the tabled pre-task "
             "flush), all send helpers only enqueue on a FIFO asyncio.Queue; retry loop shape and whether the timeout "
             "covers the wait for the response (known finding F15: it does not); the three incremental parsers append "
             "first, take [:pos] and keep [pos+1:] (delimiter framing) or use one and the same length in completeness "
             "test, dispatched slice, kept suffix and mirrored counter (OPP), leaving incomplete frames untouched; OPP "
             "frame lengths agree between parser, handlers' length test, CRC range and CRC index; every switch effect "
             "and remembered-state store is dominated by the CRC-equal and complete-frame sides; CRC8 table equals the "
             "polynomial 0x07 table; OPP resync only on a gen2 address byte, one byte at a time; FAST message "
             "processors apply switch data synchronously (no deferral). Split-invariance as such and switch states "
             "after arbitrary valid streams are not decided. Also: OPP input bits are the data bytes assembled big-endian and each changed bit is reported once with its index and polarity; every round of a parser loop consumes input; every known frame type is dispatched. Also: every changed OPP input bit is reported (exact selection) and the FAST full switch report is unpacked completely (8 bits per byte, number = offset * 8 + bit, state = that bit). Also: the OPP resync scan regains sync on every gen2 frame start that the in-sync branch dispatches (a command-byte test in the scan must name all of them). Also: every trip of the OPP poll loop sends a poll, also after a timed-out wait; the answer flag is cleared only after an answer. Also: the incremental decoders leave their decode loop only when no complete frame is buffered (or at shutdown), never because of a frame's content. Also: a full FAST switch report is applied with the logical state (raw xor invert) for every switch of the platform whose logical state differs. Also: each OPP input reader (initial and running) accepts a report from exactly the cards of the table it takes the card from; every connected chain is registered inside the port loop (generic LASTONLY-0). Also: every full switch report is applied (no comparison with the remembered report); a framed decoder dispatches the frame it cut out, never the raw chunk.",
        technique="wake-up/arm agreement of asyncio primitives; who-may-call; CFG guards; slice/length constant agreement; generated CRC table oracle",
        ref="4/C14"),
    "C07": dict(
        text="Static analysis of structural necessary conditions of the mode lifecycle: start/_started and stop/_stopped "
             "post will_start, starting(queue), started and will_stop, stopping(queue), stopped in that order with the "
             "chained callbacks; a start is accepted only when neither active nor starting, the flag is set before the "
             "first event and no exit lies between setting it and posting the starting event; _started/_stopped flip "
             "the flags on every path; inside Mode every event handler goes through add_mode_event_handler (key "
             "recorded) except the tabled permanent start-event handlers; every clean-up step (switch handlers, "
             "delays, stop methods, mode handlers, mode devices, stop callbacks) lies on the stop chain and empties its "
             "container after visiting all entries; every ConfigPlayer subclass that stores per-context state "
             "overrides clear_context, resets that state and uses the same context key; mode_stop unloads handlers, "
             "cancels subscriptions and clears the mode's context; every event/switch handler a mode device registers "
             "permanently while being loaded is removed (by stored keys or by callback) when the mode unloads it; "
             "enable/disable idempotence guards read the state they write; active_modes is mutated only by "
             "set_mode_state and sorted by (priority, name) descending after every change. Registry equality for "
             "arbitrary user mode code and overlapping requests beyond the flag guards are not decided. Also: switch handlers are removed by key; add_mode_event_handler forwards kwargs and returns the key; clear_context loops act on their records. Also: every non-empty result of a start method is recorded as a stop method and every recorded stop method runs unconditionally. Also: the returned EventHandlerKey carries the parsed event name and the stored key; removal by key is exact; mode delays live on the mode's own DelayManager; clear_context never removes handlers by method or by event. Also: the start queue a mode parks is released and forgotten when it has stopped (shared with C02); every clean-up step of a device_removed_from_mode is unconditional or guarded only by the presence of the object it acts on. Also: a config player plays for a mode only while that mode is active, under the mode's own context. Also: the game waits for every active game mode when it stops, also one already stopping. Also: removal of a key list removes every key of the list through the by-key removal. Also: a mode device that owns a delay manager and arms delays clears them on every path of its unload (tabled: timer, ball save, drop target bank with reasons; logic block by required name) - F23 and F24 found by this rule and fixed. Also: a sequence shot drops its sequences in progress on unload. Also: every accepted start stores the callback of that request (no callback survives into a later start). Also: the tilt mode removes exactly the (switch tag, callback) pairs it registered.",
        technique="event-chain extraction; CFG must-pass typestate; who-may-write; sibling agreement over ConfigPlayer/ModeDevice subclasses",
        ref="4/C07"),
    "C05": dict(
        text="Static analysis of narrow structural necessary conditions of eject progress: every EjectTracker obtained from "
             "start_eject is ended by end_eject on every non-cancelled path (handled timeouts included) before the "
             "coroutine loops, returns or falls into the retry loop, and a cancelled eject cancels its tracker; the "
             "count lock and the incoming-timeout lock are released on every path of an iteration / by end_eject on "
             "every path; the future upstream devices await (_eject_future) is resolved before it is replaced, cleared "
             "or the coroutine returns; a failed eject loops back only after reporting retry=True and gives up only at "
             "max_tries after setting eject_broken, reporting retry=False and posting balldevice_<name>_broken; "
             "requests are queued (FIFO) only when no ball is available and are re-served on balldevice_balls_available, "
             "which its handlers never veto. Also: requests are sized by the unclaimed balls of a device; the answer of a "
             "query-style call on the eject path is never discarded; the ball announced at the target is resolved on "
             "every outcome of the confirm handlers (failure only after did_not_arrive, done only after eject success "
             "or after the ball-missing timeout declared the ball lost with retry and loss handling for the eject's "
             "target; a returned ball clears already_left; a playfield timeout confirm only when no ball returned); ball save conservation "
             "(balls kept out of the drain = balls scheduled; every schedule path has exactly one sink; the pending count "
             "is only added to or reset after the hand-over; the hand-over requests exactly the scheduled number; a mode "
             "end flushes it); the wait for the ball to leave is unbounded only for a player-controlled request on a "
             "hand-operated device and otherwise bounded by the eject timeout, as are the confirm waits. "
             "Liveness in general and cancellation races are not decided. Also: every list of waiters (futures) of the ball-device classes is resolved completely and emptied only afterwards; wake-up flags are consumed right after the wake-up; exactly the timed-out incoming balls are removed and reported lost. Also: a request for balls split over several sources adds up to the requested total; waiter lists are swapped out before their futures are woken; BallDevice decides by its own book-keeping and never by the physical count read-back. Also: BallDevice.eject makes one request per requested ball and never leaves its loop early; a handler coroutine that cancels its own task awaits nothing afterwards; the ball searches over sources / targets say no only after every candidate was asked. Also: every site that fills a request's eject time-out scales the configured ms value to seconds. Also: every attempt drives the mechanism (each coil ejector's eject_one_ball reaches a coil call on every returning path, the event ejector posts every event); Playfield.add_ball asks for the requested number of balls on the direct and on the player-controlled route. Also: every player-controlled eject of a device with an ejector also waits for tilt; each delayed delivery of saved balls is a delay of its own.",
        technique="typestate pairing on the coroutine CFG (trackers, locks, futures); guard analysis; boolean-event handler return check",
        ref="4/C05"),
    "C04": dict(
        text="Narrow static claim: (1) in the eject loop every attempt awaits the *target's* wait_for_ready_to_receive "
             "before the ball is fired, with no other wait in between; that gate answers ready only when capacity minus "
             "counted balls exceeds the balls already on their way (re-read every round) and counter and outgoing handler "
             "can take a ball; (2) ejectors are fired only by the eject coroutine and the device count is written only by "
             "the count handler (plus one tabled recount), together with its mirror and has-balls event; (3) count "
             "transfers are paired: +1/-1 around an already-left eject, exactly (new-old) arrivals announced, the exact "
             "difference handed to the missing-ball logic, an eject chain debits the source and credits the last hop by "
             "one on every completed path and never without an available ball, playfield counts move by `balls` only for "
             "ejects aimed at that playfield; (4) each lost-ball handler (idle, ejected, incoming) on every non-raising path hands "
             "exactly one ball to the ball_missing_target and reports one missing ball, takes one available ball off "
             "exactly when a replacement was found on the path and is requested for the device that lost it; the arrival "
             "callback sets up one eject per unclaimed ball and announces balls_available once per new ball. Equality with the physical machine, conservation and bounds over all "
             "schedules - the bulk of the property - are NOT decided (runtime arithmetic over interleavings). Also: a ball assumed to have jumped between playfields leaves both counts of the source and enters both of the target, only towards a playfield with a negative count, one ball per deficit. Also: lost/ejected/incoming ball handlers and the arrival loops move exactly one ball per event. Also: the count handler's old-count snapshot is read after the await that delivers the new count and nothing is awaited before the new count is stored; the switch counter distrusts a jam-only count of one exactly when it had balls before; end_eject is told the awaited confirmation outcome (or False), never an assumed True; ball-search give-up writes off exactly the playfield's count read before it is zeroed. Also: a ball put into another device's unclaimed pool is taken out of the device's own pool on the same path (CLAIM-4, exposed defect F19, fixed). Also: an eject is tracked from a settled count (EjectTracker.will_eject and the entrance counter wait for a stable count first); the entrance counter keeps one ignore window per switch and never clears the whole table. Also: balls that left together with an ejected one are reported one by one and the recount is stored on every path after the report (F22, fixed); the configured ball switches are never edited (generic CONFIG-0), so the capacity stays the configured one. Also: the ball-left timer lowers a switch counter's count exactly when the count is reliable; a hold-coil release always ends its release state; an entrance during an eject is announced and counted together on every path. Also: a skipping ball is added to the target's claim only on the unqueued route; the switch counter watches exactly the switches it counts.",
        technique="CFG must-pass / guard analysis; who-may-call / who-may-write; paired-delta extraction",
        ref="4/C04"),
    "C06": dict(
        text="Static analysis of structural necessary conditions of the game lifecycle: the regular abstraction of "
             "Game._run with all callees inlined (if=alternation, loops=star) is included in the grammar game_will_start "
             "game_starting game_started (turn)* game_will_end game_ending game_ended with turn = three start events, "
             "one ball plus any number of extra balls, three end events, and ball = will_start starting started extras "
             "will_end ending ended; each lifecycle event has one posting site, *ing events are awaited queue events, the "
             "three ball events carry the same player/ball/balls_remaining/is_extra_ball dict and turn events the current "
             "player and number; the ball number grows by one between turn_starting and turn_started and nowhere else, an "
             "extra ball is consumed before it is played; end-or-rotate is decided after the turn ended on live state with "
             "exactly the terms slam-tilt / last ball / last player; every store to balls-in-play is 0 or guarded into "
             "[0, balls known], the ball ends exactly on the positive-to-zero transition or on request; the end-ball flag "
             "is cleared before anything is awaited; players are created only on the non-vetoed add path gated by "
             "ending / max players / ball 1; machine.game is set during the run and cleared on stop. Requests arriving "
             "inside queue events are only decided as far as these ordering rules go. Also: each game resets the reused mode object's state before anything is awaited; configured end_ball/end_game events are wired to methods that request the end; the wait for the first player is always preceded by a set or a request and released by a completed add. Also: the game end stops and waits for every active game mode (no further condition, whole collection, noted as awaited before stop() is called). Also: an async mode's task is created in _started and cancelled in _stopped and on machine stop; the task's end stops the mode. Also: the drain chain (drain/trough-tagged devices -> ball_drain relay with the unclaimed balls -> Game.ball_drained through the clamping setter, listener registered per ball before the first ball counts); nobody outside the game mode stops the game mode object directly. Also: a request to end the game or the ball is never swallowed (end_game marks and asks for the ball end on every path, end_ball always releases the wait). Also: every game evaluates balls_per_game and max_players afresh before its first turn. Also: a slam tilt marks the game whenever there is one. Also: each poll of the empty-playfield wait starts with a fresh flag.",
        technique="regular event-trace abstraction + language inclusion (product construction); CFG dominance/guards; who-may-write",
        ref="4/C06"),
    "C09": dict(
        text="Narrow static claim on the light path: the stack is mutated only by Light, every insertion is followed by the "
             "descending sort and entries order by (priority, key); in _schedule_update every channel iteration assigns both "
             "brightnesses (from their own colour, /255, after gamma+colour correction) before set_fade(start, start_time, "
             "target, target_time) on every driver, then light_sync on every platform; every mutator refreshes the "
             "hardware under a visibility flag computed from the stack before the change, and the scans that decide "
             "whether something opaque lies *above* a key stop at the key; fade arithmetic is in consistent units and a "
             "fade-out entry is removed after exactly fade_ms; every concrete light driver implements what its base "
             "requires, software fade steps are clamped and end on the target; a running software fade is cancelled "
             "before a newer command takes effect; the batch system records every value it sends and skips only "
             "finished fades equal to the recorded state. Correctness of the suppression shortcuts over histories, "
             "interpolated values and batching are not decided. Also: colour read from stack[0] and a transparent entry defers to exactly stack[1:]; both colours gamma/colour corrected before the channel split, white = min(r,g,b); set_fade ends in a command for the target or a fade task whose last command is the target; every dirty light ends up in a sent batch, unfinished fades are rescheduled and the scheduler is woken; the blend ratio of a running fade is (t - start) / (end - start), used only where start < t <= end, with the endpoint itself returned outside (interpolation never leaves the endpoints); a new fade starts from the colour shown below the new entry, read before the old entry of the same key is removed. Also: start and target brightness of every channel come from the same formula under the same conditions; a light joins a running batch exactly when it directly succeeds the previous one and a brightness joins the running list exactly within the fade tolerance and batch size; the dirty flag is consumed right after the wake-up; stack scans match the key / opaque entries exactly; each key's fade-out has its own clean-up timer and starts from the colour of the removed key's own layer. Also: the per-key fade timer name is shared by arm and cancel sites; the suppression shortcuts index the remembered (colour, fade, done) tuple by its layout. Also: the handle of the running software fade is written only where fades are started or replaced, never by the fade coroutine. Also: a light uses its own colour-correction profile when it names one, the machine default only otherwise. Also: removing a key that is in the stack always takes its entry out (also while it fades out) and updates the light; the brightness subscription is renewed on every path (generic REARM-0). Also: every colour command becomes a stack entry (color / on / off never return before _add_to_stack; arguments handed on); the light player addresses stacks under one key expression, walks every light, records every colour it set and removes exactly those; the update shortcuts read the remembered fade by its stored layout, also through an unpacking. Also: the default fade stands in only for a fade that was not given (None). Also: an already realised light is skipped only at the beginning of a batch; a fade-out starts from the colour of the sub-stack beginning at the removed key.",
        technique="who-may-write; CFG must-pass / definite assignment; guard analysis; unit inference; sibling interface completeness",
        ref="4/C09"),
    "C10": dict(
        text="Static analysis of structural necessary conditions of rule management: every rule a flipper or autofire installs "
             "through the platform controller has its handle stored where disable() reads it, and disable clears each stored "
             "handle and forgets them; each controller setter returns a HardwareRule listing every switch it configured on "
             "the platform plus platform, driver settings, PSU switch-handler key and software EOS handler, and clear_hw_rule "
             "releases all of these; enable/disable follow the flag protocol (no second install, rules and flag cleared only "
             "when enabled, complete on every path), a software flip energises coils only when enabled and is released by "
             "disable, an autofire/kickback hit has no effect at all while disabled (no hit counting, no self re-enable) and "
             "every disable cancels a pending timeout re-enable; only flipper.py and autofire.py install/clear rules; "
             "config_spec defaults: flippers and autofire coils enable exactly on ball_started, flippers/autofires/kickbacks "
             "disable on ball_will_end and service_mode_entered; every X_events key of a device section has an event_X "
             "method and disable outranks enable on the same event; a tilt always ends the ball. Equality of the platform's "
             "rule table with the enabled set over histories and timeout timing are not decided. Also: the flags that make tilt() return early are reset in Game._run before its first await; the end-ball flag is cleared before any await of _run_ball and end_ball sets it. Also: a running game is ended only through end_game() / end_ball(): no caller stops the game mode directly. Also: the end of a tilt clears the game's tilted flag whenever a game exists, releases a held ball_ending queue and removes the tilt's handlers. Also: sw_release switches the main coil off on every returning path; the tilt switch handlers are registered by every start of the tilt mode (and only there), in the pairs mode_stop removes. Also: a slam tilt marks the game whenever there is one and goes on to tilt; no extra ball is played on a slam tilted machine.",
        technique="handle-flow pairing; CFG guards/must-pass; who-may-call; config-spec table checks",
        ref="4/C10"),
    "C11": dict(
        text="Static analysis of structural necessary conditions of player isolation: player.vars is written only inside "
             "Player (every other module goes through __setattr__/__setitem__ and hence the change event); in "
             "Player.__setattr__ the previous value is read before the store, change = value - previous (or 'differs'), and "
             "player_<name> is posted after the store with (name, new value, previous, change, that player's number) mapped "
             "one to one; every attribute a mode device binds to the player (or to player[...]) in device_loaded_in_mode - "
             "discovered over all ModeDevice subclasses - is reset to None on every path of device_removed_from_mode (through "
             "unconditional super() chains), except the tabled Timer.player whose harmlessness depends on stop() and "
             "_remove_control_events() running on every path, which is checked; device state stored into a player is a "
             "fresh object (LogicBlockState() created only when the player has none) and never an alias of a mutable "
             "config container; a new game starts with no players and each Player owns a new variable dict. Value equality "
             "across turns for arbitrary devices is not decided. Bindings inherited through super() chains are included. Also: "
             "coroutines that write to the current player after an await fence ball_ending until their queue is empty; "
             "VariablePlayer.clear_context examines every block entry; which player is addressed: variable_player "
             "writes (var, value) through add/set_with_kwargs to the current player or to player_list[N - 1] for a "
             "configured number N, machine variables only for *_machine actions, and both access paths of the player "
             "placeholder index player_list[N] after an existence check or read the current player. Also: at turn start every game mode is re-bound (nothing but is_game_mode selects, all modes visited) and the ball-end barrier waits for every game mode that stops at ball end. Also: a new player's variable events are switched on (all values sent) by the completion callback of player_added; score-queue additions are conserved; a lazily remembered selection of a mode device is dropped on every unload path (MEMO-11); the generic mode-start auto-enable is never in effect for a device whose enable() writes persisted enable flags, its own or its members' (RESTORE-11). Also: every clean-up step of a device_removed_from_mode runs whenever the device is unloaded; the per-player restart list is filled at ball end for exactly the active game modes that ask for it, started completely and replaced by an empty list at the player's next ball. Also: the previous value in the change event is the stored value itself (0 only for a new variable); a mode loads its devices with its own player. Also: a new turn resets only the per-ball extra-ball count; the timer's per-run values are set from the configuration at every load; send_all_variable_events posts every simple variable. Also: stopping a mode clears its delays (a delayed control event never reaches the next player's devices); what is stored in a player variable is not a shallow copy or element of an object that outlives the player. Also: a bonus run starts its total from zero; a new player joins the list in the step that numbered him. Also: no method of a logic block wipes all its delays (the hit window's exit is device state shared by all players).",
        technique="who-may-write; CFG must-pass through super() chains; def-use discovery of player-bound attributes; freshness of stored values",
        ref="4/C11"),
    "C15": dict(
        text="Static analysis of structural necessary conditions of data persistence: FileManager.save resets is_busy on "
             "every exit including exceptional ones; it writes through the interface to a sibling temp file and renames "
             "(temp, filename) only on the path where the write returned normally; the YAML writer closes the file and "
             "uses a dumper object of its own per write; the writer thread clears the dirty flag, then deep-copies the "
             "live data, then writes that copy, never clears after the write in the same round, waits while another "
             "manager writes, and a failing write is caught inside the loop; after the loop a flush guarded only by the "
             "dirty flag writes the live data; save_all stores before it marks dirty; the persisted machine-variable "
             "record contains every key the loader reads, only persistent variables are written, expired or malformed "
             "records are skipped; FileManager.save is called only by the writer thread. Known finding F6b: nothing waits "
             "for the daemon writer thread at shutdown. Crash points (no fsync reasoning) and value equality after reload "
             "are not decided. Also: the writer loop runs while the machine is not stopped and writes exactly when the dirty flag was raised; every well-formed, unexpired record is restored and a record is skipped only when malformed or expired. Also: the record fields are updated before the disk write is requested and expiry = now + expire_secs; the temp file location and per-target name; the YAML writer and reader open with the same explicitly named text encoding; the writer threads are told to stop only in MachineController.shutdown, which _do_stop reaches after the `shutdown` event was posted and the queue drained. Also: the shutdown flush depends on nothing but the dirty flag (a busy file manager is waited for); every expiry deadline is wall-clock now + expire_secs and the loader is handed the wall clock. Also: the handler of a failed write only logs (nothing in it can raise and end the writer thread); loading converts exactly maps to dict and sequences to list. Also: every normal way out of the writer thread passes the shutdown flush test; a restarted expiry deadline is written to disk on every path. Also: an operator setting's variable is marked persistent before its value is set (the set is what writes). Also: the finished temp file replaces the target in one step (no remove / rename of the target); a removed machine variable is removed on disk by rewriting the whole set. Also: a removal by pattern rewrites the persisted set on every path; a save is refused only for an unknown file type. Also: after the dirty flag was cleared every path of the writer loop reaches the write (no snapshot, empty or not, is skipped).",
        technique="CFG pairing on normal and exceptional paths; order/dominance; dead-guard check; record-key table agreement",
        ref="4/C15"),
    "C16": dict(
        text="Static analysis of structural necessary conditions of template evaluation: every entry of OPERATORS and "
             "COMPARISONS maps its ast operator class to the operator-module function that invokes the same special "
             "method as Python's syntax (oracle: CPython evaluating the checker's own probe expressions), boolean operators "
             "are Python `and`/`or` lambdas, every node type of the supported grammar dispatches to its own evaluator, "
             "operands are applied (left, right), conditional expressions pick body/else by the test; every evaluator "
             "returns a (value, subscription list) pair on every path; the subscription list of every sub-evaluation that "
             "dominates a result or a TemplateEvalError is contained in it (directly or through an accumulator), attribute "
             "and name access add their own subscription, a failed evaluation still subscribes to everything it read; the "
             "events placeholders wait for have the prefix the owners post (player_, machine_var_) and exist in the game; "
             "the config-player subscription loop re-evaluates, re-subscribes with the same binding and ends only on "
             "cancellation or shutdown. Semantic equivalence over all expressions and freshness over all histories are not decided. Also: boolean operators fold left to right, chained comparisons are refused not truncated, tuple and subscript forms use their evaluated parts, subscriptions of sub-evaluations inside loops are accumulated, failures are never swallowed and are TemplateEvalErrors while subscribing; settings are read and subscribed through the machine variable they live in and every *_placeholder subscription re-arms itself; producer side: set_machine_var stores the new value on every path before posting machine_var_<name>, guarded only by the computed change; the DeviceMonitor setter stores on every path, then notifies under the public attribute name exactly when the attribute already had a different value, and the notification resolves every future filed under (device, attribute) - the key subscribe_attribute files under - before forgetting them. Also: conditions of conditional handlers are evaluated in the handler's own iteration of the dispatch loop; a failed, incomplete or empty evaluation yields the template's default on the plain and the subscribing path, a missing variable is passed on only in strict mode. Also: a setting placeholder takes its value from the settings controller's get_setting_value; PlayerPlaceholder subscriptions are woken by player_turn_started and player_turn_ended. Also: a text with several placeholders is woken by the first of its subscriptions; item and attribute access of a numbered player use the same index, checked against the list length. Also: a player variable posts its change event for every simple value (isinstance) that changed or is new. Also: no function on the evaluation path that is memoised by argument value answers from changeable state (generic MEMO-0). Also: enable() / disable() wake the subscribers of `enabled` whichever way the state is stored (in the method, or in the setter on every path). Also: machine.time subscriptions wake when the field changes (sleep expressions compared as linear forms). Also: a shot reads its old state and state name before it stores the new state and announces both afterwards.",
        technique="table oracle against CPython operator semantics; evaluator contract; def-use flow of subscription lists on the CFG",
        ref="4/C16"),
    "C17": dict(
        text="Static analysis of structural necessary conditions of show timing and clean-up: each step is scheduled with "
             "call_at at an accumulator that is advanced by exactly duration(current step)/speed (no rounding, no clock read, "
             "no relative scheduling on the step path) before scheduling; the accumulator is re-based on the clock only in "
             "resume/advance/step_back; sync start arithmetic is in consistent units; finite loops decrement once per wrap, "
             "infinite loops wrap, the show ends exactly at its end with no loops left, one step per run; every player a step "
             "used is remembered and steps are played under the show's own context/priority/tokens/time; stop() is "
             "idempotent, cancels the pending step, clears the show's context in every remembered player on every path and "
             "runs before completion events; pause/advance/step_back cancel the pending step first; LightPlayer colours under "
             "key=full_context and clear_context/remove use the same key and record, the light's removal scans are left early "
             "only at the key; ShowPlayer and CoilPlayer clear what they started. k-th step instants under speed updates, "
             "token substitution and concurrent shows on one light are not decided. Also: played/looped/completed/stopped events are queued and posted at their moments; start-step table and negative index wrap; the light player honours the stop colour and forwards the step's start time. Also: advance() / step_back() cancel the pending step, rebase the clock and move the index before they run the step (once, last). Also: a per-show token cache is keyed by the token values (CACHE-17); the events list of a step is fresh per play; replace_or_advance_show keeps or advances the running instance only when it has already run a step and stands exactly at / one step before the requested step (SYNC-17); RunningShow.update applies every value that is not None (UPD-17). Also: every play parameter reaches the RunningShow under its own name on every route (Show.play, play_show_with_config, replace_or_advance_show, ShowPlayer._play/_queue, ShowConfig field order), defaults replace only None; a replaced running show is stopped on every path that starts its successor; the show player's action table and instance actions; config players change handed settings only in a private copy. Also: the show-pool pass-throughs hand every parameter on under its own name. Also: at its start a show runs its start callback (stopping the replaced show) before its first step; each key's fade-out entry has a clean-up timer of its own. Also: a show started by a condition is stopped by it under the same key, instance dict and show name. Also: the light's hardware-update shortcuts read the remembered fade correctly (shared with C09), so stopped shows leave the hardware as they found it. Also: a show step hands its nominal time to the players it drives. Also: a fade-out starts from what the removed key showed (shared with C09). Also: a stopping show clears its players' contexts before its stop callback runs.",
        technique="expression-shape and CFG dominance on the step path; loop-account guards; key-agreement between register and clear sites",
        ref="4/C17"),
    "C18": dict(
        text="Static analysis of structural necessary conditions of logic blocks: in Counter.count, Accrual.hit, "
             "Accrual.event_advance_random and Sequence.hit every state store, hit-event post and completion is dominated by "
             "the enabled guard; complete() runs only when not completed, marks completed before posting the completion "
             "events, cancels the timeout on every path, then resets and then disables under their config flags, and is "
             "called exactly under each block's goal test; entering the multiple-hit window always arms a delay of "
             "multiple_hit_window ms that calls stop_ignoring_hits, hits inside the window neither count nor post, and no "
             "method of the block clears all delays or removes the window's delay; the hit value's sign is normalised "
             "against the direction, an accepted hit adds it once, completion compares >= (up) / <= (down); a sequence "
             "advances by one only for the current step, an accrual records and reports a step on its first hit; the block "
             "timeout is armed on enable/reset, cancelled on disable/complete and resets the block. The counting equation "
             "over histories and timeout races are not decided. Also: the multiple-hit window timer is (re)started only by an accepted hit. Also: Counter.count moves the value for every hit on an enabled counter outside the multiple-hit window; delayed control events are scheduled as anonymous delays of their own. Also: a logic block forgets its state object on every unload path; delays under fixed names live on a DelayManager the block owns. Also: an explicit start_enabled (yes or no) decides, only a missing one falls back to the enable_events rule; every accepted hit opens the configured hit window (also the completing one). Also: after completion reset and disable each follow their own flag alone; the block's timeout is removed when its mode unloads it (F23, fixed).",
        technique="CFG guard dominance; must-pass pairing of window entry/exit; who-may-cancel a named delay; unit inference",
        ref="4/C18"),
    "C19": dict(
        text="Static analysis of structural necessary conditions of BCP encoding and framing: the encoder percent-encodes "
             "str(v) and names exactly once with no safe characters and prefixes the four type tags (bool tested before "
             "int); the decoder splits the raw query on '&' and the first '=', applies its tag tests to that wire form, "
             "strips exactly len(tag), converts with the tag's type and removes exactly one encoding layer on every typed "
             "branch and on the string branch; encoder and decoder tag sets agree; the JSON form is chosen iff a value is a "
             "dict/list and is recognised before pair parsing; both socket readers consume the stream only through "
             "readline() and a single readexactly(n) whose n is the integer after the byte marker of the same line, raise "
             "on end of stream and hand out commands one by one in arrival order; one command per line is sent. "
             "Round-trip equality over all values (floats, nested JSON types) is not decided. Also: read_message strips exactly the line terminator, takes the payload branch iff the byte marker is present, hands text (and payload) to the decoder and returns every decoded command. Also: the decoded command and parameters reach the command handler unchanged (no rebinding or in-place edit in process_bcp_message, the receive loop passes them as decoded); the encoder's type dispatch and the decoder's tag dispatch are exact (one test per branch, earlier tests negated, nothing added) and every non-empty pair with a new name is decoded. Also: the JSON form is dumped with the MPF encoder and no narrowing option. Also: the JSON body is the dump itself and is loaded as it arrived (no rewriting on either side). Also: the decoder is not memoised (it hands out a dict it built: generic MEMO-0); each tagged branch converts the text once, directly to its type. Also: the wire form of every kind of value is decided by evaluating the encoder's string expressions along every path (tag + quote(str(v), '') once; None: the tag alone; strings: encoded once), so the verdict does not depend on how the encoder spells the tagging. Also: the payload marker is the whole parameter `bytes` with its separators, and lines are cut at the marker they were tested for. Also: no function on the **kwargs route into the encoder names a parameter that the framework sends as a message parameter.",
        technique="layer counting of quote/unquote calls per CFG branch; tag table agreement; stream-primitive who-may-call",
        ref="4/C19"),
    "C20": dict(
        text="Static analysis of structural necessary conditions of credit play: the credit_units machine variable is written "
             "only by the credits mode; every store is 0, the cap under a configured cap, a re-store of the current balance, "
             "a rounding down to whole games, a subtraction of one game price clamped at zero, or (adding credits) a total "
             "that on every feasible path is either known not to exceed the cap, was capped as the last assignment, or the "
             "cap is unlimited; both gates approve iff the balance covers credit_units_per_game and a started player is "
             "charged that same attribute, only in credit play; gates and charge are registered after removing earlier "
             "registrations and removed as a set on free play; a coin is audited once with its value and takes part in the "
             "pricing tiers while event and service credits are audited as such and never advance the tiers; expiration "
             "delays use millisecond-typed settings with the right callbacks and are removed while a game runs. Also: coin, "
             "service and credit-event handlers are registered and removed as a set (by handler identity); on every path "
             "of the unit computation, for every ordering of smallest coin and game price, the credit unit is bounded by "
             "both (ordering-only abstract walk) and units per game is price / unit. The pricing-table arithmetic (tier "
             "bonuses) as such is not decided. Also: the credit-unit tiers are evaluated against the running total (TIER-1); the per-switch flags reset together (FLAG-20); both credit timers are armed with reset semantics and by every path that adds a fraction (UNIT-7); pricing settings come from the settings controller. Also: every coin through a credit switch is credited, audited and re-arms the time-outs unconditionally, audits are saved on every path; the pricing table is rebuilt from scratch. Also: the coin handlers are registered only after removing a previous registration (exposed defect F20, fixed) and every registered switch handler is remembered for removal; each audit counter is created with the first figure and added to afterwards. Also: a restarted expiry deadline of an expiring machine variable (the credit balance) is written to disk also when the value is unchanged. Also: free or paid play is decided from the live operator setting everywhere; the configured value is only the setting's default. Also: the credit expiry is suspended and resumed on the start and the stop of the game mode itself (every way out of a game). Also: no method of the credits mode wipes all its delays (the expiry timers are stopped by name when a game starts).",
        technique="classification + feasible-path bound check of every store; ordering-domain abstract walk of the unit computation; table agreement gate/price; who-may-write; unit check against the config spec",
        ref="4/C20"),
}
