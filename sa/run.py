#!/usr/bin/env python3
"""CLI:  run.py Cnn [--tier quick|thorough] [--replay file] [--repo DIR]

exit 0  all obligations hold (listed known findings are printed, not failed)
exit 1  VIOLATION property=Cnn replay=<file>
exit 2  ANALYSIS-ERROR (the analysis could not run; never a verdict on /repo)
"""
import argparse
import importlib
import json
import os
import sys
import traceback

HERE = os.path.dirname(os.path.abspath(__file__))
sys.path.insert(0, os.path.dirname(HERE))

from sa.model import Repo, AnalysisError  # noqa: E402
from sa.report import Check, run_rules  # noqa: E402

ALL = ["C%02d" % i for i in range(1, 21)]


def run_property(prop, tier, repo, seed=0, quiet=False, write=True):
    mod = importlib.import_module("sa.rules.%s" % prop.lower())
    chk = Check(prop, tier, repo, seed=seed, quiet=quiet)
    run_rules(mod, chk)
    if tier == "thorough" and hasattr(mod, "thorough"):
        mod.thorough(chk)
        from sa.report import load_known
        listed = {k.get("key") for k in load_known()["known"] if k.get("property") == prop}
        unlisted = [v for v in chk.violations if v["key"] not in listed]
        if not unlisted and os.environ.get("SA_NO_DEEP") != "1":
            _deep(chk, prop, repo)
    return chk


def _deep(chk, prop, repo):
    """Thorough-only robustness and sensitivity figures over every function the rules analysed:
    * twins (sa/twins.py): mechanical behaviour-preserving rewrites must leave the verdict unchanged -- a rewrite that
      raises a report is a defect of the checker (ANALYSIS-ERROR), never of the repository;
    * syntactic mutants (sa/survey.py): how many single-site mutants of those functions the rules notice (a figure,
      not a verdict: most unnoticed mutants are irrelevant to the property)."""
    from sa import twins, survey
    rows = twins.run([prop], repo)
    bad = [r for r in rows if r["status"] not in ("silent", "noparse")]
    kinds = {}
    for r in rows:
        if r["status"] == "silent":
            kinds[r["kind"]] = kinds.get(r["kind"], 0) + 1
    chk.extra["twins"] = {"generated": len(rows), "silent": sum(kinds.values()), "by_kind": kinds,
                          "not_silent": ["%s %s:%s [%s] %s -> %s" % (r["status"], r["func"], r["line"], r["kind"], r["desc"], r["info"][:120]) for r in bad[:20]]}
    srows, per_func = survey.survey([prop], repo)
    tot = survey.summarise(srows)
    chk.extra["syntactic_mutants"] = {"functions": len(per_func), "generated": sum(v for k, v in tot.items() if k != "noparse"),
                                      "reported_as_violation": tot.get("fired", 0), "analysis_refused": tot.get("analysis-error", 0) + tot.get("crash", 0),
                                      "unnoticed": tot.get("silent", 0),
                                      "note": "unnoticed includes mutants that are equivalent or irrelevant to the property (logging, messages, other features)"}
    if not chk.quiet:
        print("  twins: %d generated, %d silent; syntactic mutants: %s" % (len(rows), sum(kinds.values()), chk.extra["syntactic_mutants"]))
    if bad:
        raise AnalysisError("behaviour-preserving rewrites changed the verdict (checker too strict): %s" % chk.extra["twins"]["not_silent"][:3])


def main(argv=None):
    ap = argparse.ArgumentParser()
    ap.add_argument("prop")
    ap.add_argument("--tier", default=os.environ.get("VERIF_TIER", "quick"), choices=["quick", "thorough"])
    ap.add_argument("--replay")
    ap.add_argument("--repo", default=None)
    ap.add_argument("--quiet", action="store_true")
    a = ap.parse_args(argv)
    seed = int(os.environ.get("VERIF_SEED", "0") or 0)
    props = ALL if a.prop == "all" else [a.prop.upper()]
    rc = 0
    if (a.repo and os.path.realpath(a.repo) != os.path.realpath("/repo")) or os.environ.get("VERIF_SCRATCH_EVIDENCE"):
        # a scratch copy is being analysed: /verif/evidence only ever describes /repo itself
        import sa.report as _rep
        import tempfile
        scratch = tempfile.mkdtemp(prefix="sa_scratch_evidence_")
        _rep.EVIDENCE_DIR = scratch
        _rep.REPLAY_DIR = os.path.join(scratch, "replay")
    try:
        repo = Repo(a.repo)
    except AnalysisError as e:
        print("ANALYSIS-ERROR property=%s %s" % (a.prop, e))
        return 2
    for prop in props:
        try:
            chk = run_property(prop, a.tier, repo, seed, a.quiet, write=not a.replay)
            if a.replay:
                with open(a.replay) as fh:
                    rp = json.load(fh)
                hit = [v for v in chk.violations if v["key"] == rp["key"]]
                if hit:
                    print("replay: still violated: %s %s @ %s" % (hit[0]["rule"], hit[0]["instance"], hit[0]["where"]))
                    for p in hit[0].get("path", []):
                        print("      | " + p)
                    print("VIOLATION property=%s replay=%s" % (prop, a.replay))
                    rc = max(rc, 1)
                else:
                    print("replay: instance no longer violated: %s" % rp["key"])
                continue
            r = chk.finish()
            rc = max(rc, r)
        except AnalysisError as e:
            print("ANALYSIS-ERROR property=%s %s" % (prop, e))
            rc = max(rc, 2)
        except ModuleNotFoundError as e:
            print("ANALYSIS-ERROR property=%s no rules: %s" % (prop, e))
            rc = max(rc, 2)
        except Exception:  # noqa
            traceback.print_exc()
            print("ANALYSIS-ERROR property=%s internal error in the checker (see traceback)" % prop)
            rc = max(rc, 2)
    return rc


if __name__ == "__main__":
    sys.exit(main())
