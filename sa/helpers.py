"""Rule-building helpers shared by the per-property rule files."""
import ast

from sa.model import (AnalysisError, dotted, src, short, call_attr, call_recv, kwarg, arg,
                      walk_local, calls_in, assigned_targets, const_value, FUNC_TYPES)
from sa.index import get_index

SNAPSHOT_CALLS = {"list", "tuple", "sorted", "copy", "deepcopy", "set", "frozenset", "dict", "reversed_copy"}


# --------------------------------------------------------------- ownership
def own(chk, rule, name, allowed, relevant=None, what=None, kinds=("call", "ref", "store"), names=False,
        instance_prefix=""):
    """Who-may-use rule.  Every syntactic use of attribute `name` for which
    relevant(use) is not False must sit in a scope listed in `allowed`
    ({(relpath, scope) or relpath-with-* : reason}).  relevant(use) may return
    True (ours), False (some other object's attribute of the same name) or
    None (unknown receiver: treated as ours = fail closed).
    Returns the list of relevant uses."""
    idx = get_index(chk.repo)
    out = []
    for u in idx.uses(name, names=names):
        kind = "call" if u.call is not None else ("store" if u.store else "ref")
        if kind not in kinds:
            continue
        rel = relevant(u) if relevant else True
        if rel is False:
            continue
        out.append(u)
        ok = False
        for key in allowed:
            if isinstance(key, tuple):
                if key[0] == u.relpath and (key[1] == u.scope or key[1] == "*" or
                                            (key[1].endswith(".*") and u.scope.startswith(key[1][:-1]))):
                    ok = True
                    break
            elif key.endswith("/**"):
                if u.relpath.startswith(key[:-2]):
                    ok = True
                    break
            elif key == u.relpath:
                ok = True
                break
        chk.ob(rule, "%s%s of %s in %s" % (instance_prefix, kind, what or name, u.scope), ok, u.where(),
               detail="" if ok else "not in the allowed set for %s (receiver %s%s)" % (
                   what or name, u.recv_text or src(u.recv) if u.recv is not None else "-",
                   "" if rel else ", unresolved: treated as may-use"),
               construct=u.ident, text="%s %s %s" % (kind, name, short(u.parent if u.call is None else u.call, 80)))
    return out


def recv_is(*suffixes):
    """relevant()-predicate: receiver's dotted text ends with one of suffixes
    -> True; receiver is `self` -> decided by class membership elsewhere (None);"""
    def pred(u):
        t = u.recv_text
        if t is None:
            return None
        for s in suffixes:
            if t == s or t.endswith("." + s):
                return True
        return False
    return pred


def self_in_classes(repo, class_idents):
    """relevant()-predicate for `self.<name>` uses: True when the enclosing
    class is (a subclass of) one of the classes; False for other classes."""
    def pred(u):
        t = u.recv_text
        if t in ("self", "cls"):
            if u.cls is None:
                return None
            c = u.module.classes.get(u.cls)
            if c is None:
                return None
            for k in repo.mro(c):
                if k.ident in class_idents:
                    return True
            return False
        return None
    return pred


# ------------------------------------------------------------ expressions
def is_snapshot(expr):
    """Is `expr` a copy of a container (so that mutation of the original
    during iteration is harmless)?"""
    if isinstance(expr, ast.Subscript) and isinstance(expr.slice, ast.Slice):
        s = expr.slice
        if s.lower is None and s.upper is None and s.step is None:
            return True
    if isinstance(expr, ast.Call):
        n = call_attr(expr)
        if isinstance(expr.func, ast.Name) and n in SNAPSHOT_CALLS and expr.args:
            return True
        if isinstance(expr.func, ast.Attribute) and n in ("copy", "deepcopy") :
            return True
        if isinstance(expr.func, ast.Attribute) and n in ("items", "values", "keys"):
            return False
    if isinstance(expr, (ast.ListComp, ast.SetComp, ast.DictComp, ast.List, ast.Tuple)):
        return True
    return False


def base_container(expr):
    """The container expression a (possibly snapshotted) iterable is taken from."""
    e = expr
    while True:
        if isinstance(e, ast.Subscript) and isinstance(e.slice, ast.Slice):
            e = e.value
        elif isinstance(e, ast.Call) and isinstance(e.func, ast.Name) and e.func.id in SNAPSHOT_CALLS and e.args:
            e = e.args[0]
        elif isinstance(e, ast.Call) and isinstance(e.func, ast.Attribute) and e.func.attr in (
                "copy", "items", "values", "keys"):
            e = e.func.value
        else:
            return e


def merge_sources(expr):
    """Ordered list of dict sources (later wins) of a dict-merge expression,
    or None when the expression is not a recognised builder."""
    if isinstance(expr, (ast.Name, ast.Attribute)):
        return [src(expr)]
    if isinstance(expr, ast.Dict):
        out = []
        for k, v in zip(expr.keys, expr.values):
            if k is None:
                s = merge_sources(v)
                if s is None:
                    return None
                out += s
            else:
                out.append("<literal>")
        return out
    if isinstance(expr, ast.BinOp) and isinstance(expr.op, ast.BitOr):
        a, b = merge_sources(expr.left), merge_sources(expr.right)
        return None if a is None or b is None else a + b
    if isinstance(expr, ast.BinOp) and isinstance(expr.op, ast.Add):
        # list(a.items()) + list(b.items())
        a, b = merge_sources(expr.left), merge_sources(expr.right)
        return None if a is None or b is None else a + b
    if isinstance(expr, ast.Call):
        n = call_attr(expr)
        if isinstance(expr.func, ast.Name) and n in ("dict", "list", "tuple", "copy", "deepcopy", "OrderedDict"):
            out = []
            for a in expr.args:
                s = merge_sources(a)
                if s is None:
                    return None
                out += s
            for k in expr.keywords:
                if k.arg is None:
                    s = merge_sources(k.value)
                    if s is None:
                        return None
                    out += s
                else:
                    out.append("<literal>")
            return out
        if isinstance(expr.func, ast.Attribute) and n in ("items", "copy"):
            return merge_sources(expr.func.value)
        if isinstance(expr.func, ast.Attribute) and n == "chain" and expr.args:
            out = []
            for a in expr.args:
                s = merge_sources(a)
                if s is None:
                    return None
                out += s
            return out
    return None


# ------------------------------------------------------------------ paths
def feasible_paths(cfg, start, ends, limit=3000, max_visits=1, ignore_exc=True):
    """Paths start->ends pruned of contradictory branch outcomes (the same
    atomic test text with opposite outcomes and no store to its names in
    between).  Returns list of (path, outcomes) with outcomes a dict
    test_src -> bool holding at the end of the path."""
    from sa.cfg import CFG  # noqa
    ends = set(ends)
    out = []
    count = {}

    def names_of(text, cache={}):
        if text not in cache:
            from sa.cfg import maximal_names
            try:
                cache[text] = maximal_names(ast.parse(text, mode="eval"))
            except SyntaxError:
                cache[text] = set()
        return cache[text]

    def rec(n, path, facts):
        if len(out) >= limit:
            return
        node = cfg.nodes[n]
        facts_in = facts
        if node.kind == "branch" and node.tag not in ("iter", "exhausted"):
            t = src(node.ast)
            from sa.cfg import equiv_forms
            for t2, v2 in equiv_forms(t, node.value):
                if t2 in facts and facts[t2] != v2:
                    return      # contradiction (also through an equivalent spelling of the same test)
            facts = dict(facts)
            facts[t] = node.value
        elif node.kind in ("stmt", "loop", "with"):
            stores = assigned_targets(node.ast) if node.kind != "stmt" or not isinstance(
                node.ast, (ast.FunctionDef, ast.AsyncFunctionDef, ast.ClassDef)) else []
            if stores:
                st = []
                for t in stores:
                    st.append(dotted(t) or src(t))
                    if isinstance(t, ast.Subscript):
                        d = dotted(t.value)
                        if d:
                            st.append(d)
                kill = [f for f in facts
                        if any(nm == s or nm.startswith(s + ".") or s.startswith(nm + ".")
                               for nm in names_of(f) for s in st)]
                if kill:
                    facts = {k: v for k, v in facts.items() if k not in kill}
                # constant flag assignment: `flag = True/False/None/0/1` becomes a fact
                if isinstance(node.ast, ast.Assign) and isinstance(node.ast.value, ast.Constant) \
                        and not isinstance(node.ast.value.value, str):
                    facts = dict(facts)
                    for t in node.ast.targets:
                        d = dotted(t)
                        if d:
                            facts[d] = bool(node.ast.value.value)
        path.append(n)
        count[n] = count.get(n, 0) + 1
        if n in ends and len(path) > 1:
            # facts holding when the end node is *reached* (its own stores do not count)
            from sa.cfg import expand_equiv
            out.append((list(path), expand_equiv(dict(facts if node.kind == "branch" else facts_in))))
        else:
            for s in cfg.succs(n, ignore_exc):
                if count.get(s, 0) < max_visits:
                    rec(s, path, facts)
        count[n] -= 1
        path.pop()
    import sys
    old = sys.getrecursionlimit()
    sys.setrecursionlimit(max(old, 20000))
    try:
        rec(start, [], {})
    finally:
        sys.setrecursionlimit(old)
    return out


def truthy_fact(facts, expr_text, value):
    """Does the outcome dict establish truthiness `value` of expr_text?
    Recognises `x`, `not x` (decomposed by the CFG), `x is None`, `x is not None`,
    `len(x) > 0` style facts are not interpreted."""
    if expr_text in facts:
        return facts[expr_text] == value
    return False


# ------------------------------------------------------------- statements
def stmt_calls(node, *names):
    """Calls (by last name) evaluated at a CFG node."""
    return [c for c in node.calls() if call_attr(c) in names]


def find_nodes_calling(cfg, pred):
    out = []
    for n in cfg.nodes_where(lambda n: n.kind != "branch"):
        for c in n.calls():
            if pred(c):
                out.append((n, c))
    return out


def enclosing_loops(cfg, node):
    """Loop header node ids whose body contains `node` (innermost first)."""
    out = []
    for h in cfg.nodes:
        if h.kind == "loop" or (h.kind == "join" and isinstance(h.ast, ast.While)):
            body = h.ast.body
            for st in body:
                for x in ast.walk(st):
                    if x is node.ast or any(x is r for r in node.roots()):
                        out.append(h.id)
                        break
                else:
                    continue
                break
    # innermost = largest lineno
    out.sort(key=lambda i: -(cfg.nodes[i].lineno or 0))
    return out


def self_attr_stores(func_node, attr):
    """Assignment statements in func that store to self.<attr> (plain, aug, subscript)."""
    out = []
    for n in walk_local(func_node):
        if isinstance(n, (ast.Assign, ast.AugAssign, ast.AnnAssign, ast.Delete)):
            for t in assigned_targets(n):
                base = t
                while isinstance(base, ast.Subscript):
                    base = base.value
                if dotted(base) == "self." + attr:
                    out.append(n)
    return out


def method_of(repo, cls, name):
    f = repo.lookup_method(cls, name)
    if f is None:
        raise AnalysisError("anchor method vanished: %s.%s" % (cls.ident, name))
    return f


MUTATORS = {"append", "appendleft", "extend", "extendleft", "insert", "remove", "pop", "popleft", "clear",
            "sort", "reverse", "update", "setdefault", "add", "discard", "rotate", "popitem", "__setitem__",
            "__delitem__"}


def container_ops(func_node, is_container):
    """[(op, call_or_stmt)] of mutating uses of containers for which
    is_container(expr) holds inside func_node (method calls, subscript stores,
    del, augmented assignment)."""
    out = []
    for n in walk_local(func_node, include_lambda=True):
        if isinstance(n, ast.Call) and isinstance(n.func, ast.Attribute) and n.func.attr in MUTATORS:
            if is_container(n.func.value):
                out.append((n.func.attr, n))
        elif isinstance(n, (ast.Assign, ast.AugAssign, ast.AnnAssign, ast.Delete)):
            for t in assigned_targets(n):
                if isinstance(t, ast.Subscript) and is_container(t.value):
                    out.append(("del[]" if isinstance(n, ast.Delete) else "[]=", n))
                elif is_container(t):
                    out.append(("del" if isinstance(n, ast.Delete) else
                                ("aug=" if isinstance(n, ast.AugAssign) else "="), n))
    return out


def bind_call(call, callee_node, skip_self=True):
    """Map callee parameter name -> argument expression for a call, or None when the call uses * / ** in a way
    that cannot be bound statically."""
    a = callee_node.args
    params = [x.arg for x in a.posonlyargs + a.args]
    if skip_self and params and params[0] in ("self", "cls"):
        params = params[1:]
    out = {}
    for i, arg in enumerate(call.args):
        if isinstance(arg, ast.Starred):
            return None
        if i < len(params):
            out[params[i]] = arg
        elif a.vararg is None:
            out["<extra %d>" % i] = arg
    for k in call.keywords:
        if k.arg is None:
            out["**"] = k.value
        else:
            out[k.arg] = k.value
    return out


def forwarded(chk, rule, wrapper, call, callee, same=(), mapping=None, what=None, require_all=False):
    """FWD rule: in `wrapper` the call `call` to `callee` passes, for every parameter name in `same`, the wrapper's
    own value of that name (a Name `p`, or an attribute/subscript ending in `.p` / `['p']` of a record) to the
    callee's parameter of the same name.  `mapping` = {callee_param: accepted expression texts} for renamed ones."""
    b = bind_call(call, callee.node)
    label = what or "%s -> %s" % (wrapper.qualname, callee.qualname)
    if b is None:
        chk.observe(rule, "call with * arguments not bound: %s" % short(call, 60), wrapper.where(call))
        return
    for p in same:
        e = b.get(p)
        if e is None:
            # falls back to the callee's default: the wrapper's value is dropped
            has = require_all or p in wrapper.params()
            chk.ob(rule, "%s passes `%s` on" % (label, p), not has, wrapper.where(call),
                   detail="the wrapper's `%s` is not handed to %s (its default is used instead)" % (p, callee.qualname),
                   construct=wrapper.ident, text="%s: %s not forwarded" % (label, p))
            continue
        t = src(e)
        ok = t == p or t.endswith("." + p) or t.endswith("['%s']" % p) or t.endswith('["%s"]' % p)
        if mapping and p in mapping:
            ok = ok or t in mapping[p]
        chk.ob(rule, "%s passes `%s` as `%s`" % (label, p, p), ok, wrapper.where(call),
               detail="parameter `%s` of %s receives `%s`" % (p, callee.qualname, t), construct=wrapper.ident,
               text="%s: %s receives %s" % (label, p, t))
    if mapping:
        for p, accepted in mapping.items():
            if p in same:
                continue
            e = b.get(p)
            t = src(e) if e is not None else None
            chk.ob(rule, "%s passes `%s`" % (label, p), t in accepted, wrapper.where(call),
                   detail="parameter `%s` of %s receives `%s`" % (p, callee.qualname, t), construct=wrapper.ident,
                   text="%s: %s receives %s" % (label, p, t))


def batch_conservation(chk, rule, f, listname, send, itervar, iter_text, skip_ok=None):
    """Loop-conservation rule for "collect items into a batch list, flush the list when it is full / broken, flush the
    rest after the loop":
      (1) every pass of the loop either puts the item into the list (append, or a fresh list holding it) or leaves by a
          `continue` that `skip_ok(guards)` accepts;
      (2) a list that is replaced inside the loop was sent first (or is known to be empty);
      (3) when the loop is over a non-empty list is sent on every path;
      (4) what is sent is the list itself.
    `send` = name of the (awaited) call that transmits the list."""
    cfg = f.cfg()
    loops = [h for h in cfg.nodes if h.kind == "loop" and iter_text in src(h.ast.iter)]
    if not loops:
        chk.missing(rule, "%s loops over %s" % (f.qualname, iter_text), f)
        return
    head = loops[0]
    it = [b for b in cfg.nodes if b.kind == "branch" and b.test == head.id and b.tag == "iter"]
    ex = [b for b in cfg.nodes if b.kind == "branch" and b.test == head.id and b.tag == "exhausted"]
    if not it or not ex:
        return

    def in_loop(n):
        return n.ast is not None and any(x is n.ast for st in head.ast.body for x in ast.walk(st))

    def mentions(e, name):
        return any(isinstance(x, ast.Name) and x.id == name for x in ast.walk(e))
    puts = [n.id for n, c in cfg.calls_named("append") if src(c.func.value) == listname and c.args and mentions(c.args[0], itervar)]
    fresh = [n for n in cfg.nodes if n.kind == "stmt" and isinstance(n.ast, ast.Assign) and src(n.ast.targets[0]) == listname and in_loop(n)]
    fresh_with = [n.id for n in fresh if mentions(n.ast.value, itervar)]
    sends = [(n, c) for n, c in cfg.calls_named(send)]
    send_ids = [n.id for n, c in sends if c.args and src(c.args[0]) == listname]
    for n, c in sends:
        chk.ob(rule, "%s sends the batch list itself" % f.qualname, bool(c.args) and src(c.args[0]) == listname, f.where(c),
               construct=f.ident, text="%s(%s)" % (send, src(c.args[0]) if c.args else ""))
    if not send_ids:
        chk.missing(rule, "%s transmits the batch (%s(%s))" % (f.qualname, send, listname), f)
    # (1)
    skips = [n for n in cfg.nodes if n.kind == "stmt" and isinstance(n.ast, ast.Continue) and in_loop(n)]
    ok_skips = []
    for n in skips:
        g = cfg.guards_at(n.id)
        good = bool(skip_ok and skip_ok(g))
        chk.ob(rule, "%s: an item is left out of the batch only for the tabled reason" % f.qualname, good, f.where(n.ast),
               detail="guards %s" % sorted(g.items()), construct=f.ident, text="skip of an item")
        if good:
            ok_skips.append(n.id)
    w = cfg.path_avoiding(it[0].id, [head.id], puts + fresh_with + ok_skips, ignore_exc=True)
    chk.ob(rule, "%s: every item of %s ends up in a batch" % (f.qualname, iter_text), w is None and bool(puts or fresh_with), f.where(head.ast),
           path=cfg.fmt_path(w, f.relpath) if w else None, detail="an item that is never put into the list is never transmitted",
           construct=f.ident, text="item dropped from batch")
    # (2)
    for n in fresh:
        g = cfg.guards_at(n.id)
        known_empty = g.get("not " + listname) is True or g.get(listname) is False
        w = None if known_empty else cfg.path_avoiding(it[0].id, [n.id], send_ids, ignore_exc=True)
        chk.ob(rule, "%s: a batch is sent before the list is started afresh" % f.qualname, w is None, f.where(n.ast),
               path=cfg.fmt_path(w, f.relpath) if w else None, detail="the items collected so far would be lost", construct=f.ident,
               text="batch replaced unsent")
    # (3)
    empties = [b.id for b in cfg.nodes if b.kind == "branch" and src(b.ast) == listname and b.value is False] + \
              [b.id for b in cfg.nodes if b.kind == "branch" and src(b.ast) == "not " + listname and b.value is True]
    outer = [h.id for h in cfg.nodes if h.kind == "loop" and h.id != head.id] + [h.id for h in cfg.nodes if h.kind == "join" and isinstance(h.ast, ast.While)]
    after_send = [i for i in send_ids if not in_loop(cfg.nodes[i])]
    w = cfg.path_avoiding(ex[0].id, [cfg.exit.id] + [n.id for n in cfg.nodes if n.kind == "stmt" and not in_loop(n) and isinstance(n.ast, ast.Expr)
                                                     and n.has_await() and n.id not in after_send and n.lineno > head.ast.end_lineno],
                          after_send + empties, ignore_exc=True)
    chk.ob(rule, "%s: what is left in the list when the loop ends is sent" % f.qualname, bool(after_send) and w is None, f.where(head.ast),
           path=cfg.fmt_path(w, f.relpath) if w else None, construct=f.ident, text="final flush")


def mutation_while_iterating(func_node):
    """[(loop, stmt, what)] for loops that iterate a list/dict *directly* (no snapshot) while their body deletes from /
    removes from / inserts into that same container: `for i, e in enumerate(L): del L[i]`, `for e in L: L.remove(e)`,
    `for k in D: del D[k]`.  Elements are skipped (lists) or RuntimeError is raised (dicts)."""
    out = []
    alias = {}
    for a in ast.walk(func_node):
        if isinstance(a, ast.Assign) and len(a.targets) == 1 and isinstance(a.targets[0], ast.Name) and \
                isinstance(a.value, (ast.Attribute, ast.Subscript, ast.Name)):
            alias.setdefault(a.targets[0].id, set()).add(src(a.value))

    def same(a_text, b_text):
        return a_text == b_text or b_text in alias.get(a_text, ()) or a_text in alias.get(b_text, ())
    for loop in [x for x in ast.walk(func_node) if isinstance(x, (ast.For, ast.AsyncFor))]:
        it = loop.iter
        if isinstance(it, ast.Call) and isinstance(it.func, ast.Name) and it.func.id in ("enumerate", "reversed") and it.args:
            if it.func.id == "reversed":
                continue            # deleting while walking backwards is the safe idiom
            it = it.args[0]
        if isinstance(it, ast.Call) and isinstance(it.func, ast.Attribute) and it.func.attr in ("items", "keys", "values") and not it.args:
            it = it.func.value
        if is_snapshot(it) or not isinstance(it, (ast.Name, ast.Attribute, ast.Subscript)):
            continue
        base = src(it)
        for st in loop.body:
            for x in ast.walk(st):
                if isinstance(x, ast.Delete):
                    for t in x.targets:
                        if isinstance(t, ast.Subscript) and same(src(t.value), base):
                            out.append((loop, x, "del %s[...]" % base))
                if isinstance(x, ast.Call) and isinstance(x.func, ast.Attribute) and same(src(x.func.value), base) and \
                        x.func.attr in ("remove", "pop", "insert", "append", "clear", "popitem", "discard", "add"):
                    # leaving the loop right after the mutation is fine (break / return follows in the same block)
                    out.append((loop, x, "%s.%s(...)" % (base, x.func.attr)))
    # drop mutations that are immediately followed by break/return in the same block
    res = []
    for loop, x, what in out:
        safe = False
        for blk in [n.body for n in ast.walk(loop) if hasattr(n, "body") and isinstance(getattr(n, "body"), list)] + \
                   [n.orelse for n in ast.walk(loop) if hasattr(n, "orelse") and isinstance(getattr(n, "orelse"), list)]:
            for i, st in enumerate(blk):
                if any(y is x for y in ast.walk(st)) and not isinstance(st, (ast.For, ast.While, ast.If, ast.Try, ast.With)):
                    rest = blk[i + 1:]
                    if rest and isinstance(rest[0], (ast.Break, ast.Return)):
                        safe = True
        if not safe:
            res.append((loop, x, what))
    return res


def loop_progress(chk, rule, f, is_progress, label, implied_nonempty=True):
    """PROGRESS: every trip round a `while` loop of a stream parser makes progress: each path from the loop head back to
    the head passes a node for which `is_progress(node)` holds (the buffer is cut / the mirrored length drops).  A path
    that goes round without consuming input spins for ever on the same bytes."""
    cfg = f.cfg()
    heads = [h for h in cfg.nodes if h.kind == "join" and isinstance(h.ast, ast.While)]
    if not heads:
        chk.missing(rule, "%s loops over the buffered input" % label, f)
        return
    prog = [n.id for n in cfg.nodes if n.kind == "stmt" and is_progress(n)]
    if implied_nonempty:
        # an inner `while X > a` directly inside an outer `while X > b` with b >= a runs at least once per entry: its
        # zero-trip exit is infeasible, so reaching its false branch implies the body (and its progress) was executed
        def gt(test):
            if isinstance(test, ast.Compare) and len(test.ops) == 1 and isinstance(test.ops[0], (ast.Gt, ast.GtE)) and isinstance(test.left, ast.Name) \
                    and isinstance(test.comparators[0], ast.Constant) and isinstance(test.comparators[0].value, (int, float)):
                return test.left.id, test.comparators[0].value, isinstance(test.ops[0], ast.Gt)
            return None

        def implies(b, a):
            """outer bound b holds => inner bound a holds (over the reals)"""
            if a[2] and not b[2]:           # x >= b  =>  x > a
                return b[1] > a[1]
            return b[1] >= a[1]
        whiles = [h.ast for h in heads]
        for outer in whiles:
            for inner in whiles:
                if inner is outer or not any(x is inner for st in outer.body for x in ast.walk(st)):
                    continue
                a, b = gt(inner.test), gt(outer.test)
                if a and b and a[0] == b[0] and implies(b, a):
                    # no store to the variable between the outer test and the inner loop on the way in
                    prog += [br.id for br in cfg.nodes if br.kind == "branch" and br.value is False and src(br.ast) == src(inner.test)
                             and br.lineno == inner.lineno]
    for h in heads:
        # successors inside the loop body: start from the true-branch of the loop test (or the head itself for `while True`)
        starts = [b.id for b in cfg.nodes if b.kind == "branch" and getattr(b, "owner", None) is h.ast and b.value is True]
        if not starts:
            starts = [s for s in cfg.succs(h.id, True)]
        w = None
        for st in starts:
            w = w or cfg.path_avoiding(st, [h.id], prog, ignore_exc=True, include_start=False)
        chk.ob(rule, "%s: every trip round the loop at line %s consumes input (or leaves the loop)" % (label, h.lineno), w is None and bool(prog),
               f.where(h.ast), path=cfg.fmt_path(w, f.relpath) if w else None,
               detail="a round that consumes nothing repeats for ever on the same bytes", construct=f.ident,
               text="loop without progress at while `%s`" % short(h.ast.test, 40))


QUERY_PREFIXES = ("find_", "is_", "has_", "get_", "can_", "_find_", "_is_", "_has_", "_get_", "_can_", "check_", "_check_")


def query_methods(repo, prefix="mpf/"):
    """name -> [Func]: methods that are queries by shape: every return carries a value, no yield, and the body stores nothing
    into attributes or subscripts (locals only) -- calling one and dropping its result is always a slip."""
    out = {}
    for f in repo.all_funcs(prefix):
        if "/tests/" in f.relpath or not f.name.startswith(QUERY_PREFIXES):
            continue
        rets = [x for x in walk_local(f.node) if isinstance(x, ast.Return)]
        if not rets or any(r.value is None or (isinstance(r.value, ast.Constant) and r.value.value is None) for r in rets):
            continue
        impure = False
        for x in walk_local(f.node):
            if isinstance(x, (ast.Yield, ast.YieldFrom, ast.Raise, ast.Await)):
                impure = True       # raising / awaiting is an effect a caller may want without the value
            if isinstance(x, ast.Expr) and isinstance(x.value, ast.Call):
                t_ = src(x.value.func)
                if not (t_.endswith(("debug_log", "info_log", "warning_log", "error_log")) or ".log." in t_ or t_.startswith("log.")):
                    impure = True   # calls something for its effect
            if isinstance(x, (ast.Assign, ast.AugAssign, ast.Delete)):
                tg = x.targets if isinstance(x, (ast.Assign, ast.Delete)) else [x.target]
                if any(isinstance(t, (ast.Attribute, ast.Subscript)) for t in tg):
                    impure = True
        # falls off the end without return?
        cfg = f.cfg()
        preds = [cfg.nodes[p_] for p_ in cfg.nodes[cfg.exit.id].pred]
        if any(not (p_.kind == "stmt" and isinstance(p_.ast, ast.Return)) for p_ in preds):
            impure = True
        if not impure:
            out.setdefault(f.name, []).append(f)
    return out


def discarded_query_calls(repo, func, queries):
    """Expression statements in func that call a query method (by attribute name) and drop the result."""
    out = []
    for st in walk_local(func.node):
        if not isinstance(st, ast.Expr):
            continue
        v = st.value
        if isinstance(v, ast.Await):
            v = v.value
        if isinstance(v, ast.Call) and isinstance(v.func, ast.Attribute) and v.func.attr in queries:
            out.append((st, v.func.attr))
    return out


def inloop_guards(cfg, nid, head_id, compound=False):
    """Branch outcomes (canonical spelling) that dominate node `nid` and were decided inside the loop whose header is `head_id`:
    what *selects* the node among the iterations.  Used by the exact-selection rules ("for every item with P, and only those")."""
    from sa.cfg import canon_set
    out = set(canon_set(cfg.guards_at(nid))) - set(canon_set(cfg.guards_at(head_id)))
    if compound:
        out |= set(canon_set(cfg.compound_guards_at(nid))) - set(canon_set(cfg.compound_guards_at(head_id)))
    return out


def positive(gset):
    """Normalise `not X` True/False to X False/True so that sets of guards compare by meaning."""
    out = set()
    for k, v in gset:
        if k.startswith("not ") and not (" and " in k or " or " in k):
            out.add((k[4:], not v))
        else:
            out.add((k, v))
    return out


def early_exits(cfg, head):
    """Edges that leave the body of the `for` loop headed by `head` other than through exhaustion of the iterator: (from, to) node
    pairs of break / return (exceptional edges are not counted)."""
    inside = set()
    for st in head.ast.body:
        inside.update(id(x) for x in ast.walk(st))
    body = {n.id for n in cfg.nodes if n.ast is not None and id(n.ast) in inside}
    live = cfg.live(True)
    out = []
    for b in body & live:
        for s in cfg.succs(b, True):
            if s not in body and s != head.id:
                out.append((b, s))
    return out


def exact_selection(chk, rule, what, f, cfg, node, head, want, text=None, every=True):
    """Obligation: inside the loop, `node` is selected exactly by the outcomes in `want` (set of (test text, bool)).  With `every`
    (the rule says "every item with P"), the loop is also left only when the iterator is exhausted."""
    from sa.cfg import canon_fact
    if every and head.kind == "loop":
        ee = early_exits(cfg, head)
        chk.ob(rule, what + " (the loop visits every item: it is left only by exhaustion)", not ee, f.where(head.ast),
               detail="left early at %s" % ", ".join(cfg.nodes[a].text(40) + " -> " + cfg.nodes[b].text(30) for a, b in ee[:3]) if ee else None,
               construct=f.ident, text="loop runs to exhaustion: " + (text or node.text(50)))
    got = positive(inloop_guards(cfg, node.id, head.id))
    want = {canon_fact(k, v) for k, v in want}
    chk.ob(rule, what, got == positive(set(want)), f.where(node.ast), detail="selected by %s, expected exactly %s" % (sorted(got), sorted(want)),
           construct=f.ident, text=text or ("selection of " + node.text(50)))
    return got


def running_min_ifs(func_node, var, item):
    """The `if` statements that implement a running minimum of `item` into `var`:  if not var or var > item: var = item  (any spelling
    of the comparison, operands in either order).  Returns (exact, inexact): ifs whose test is exactly that disjunction and whose body
    assigns item to var, and ifs that assign item to var under some other test."""
    exact, inexact = [], []
    for n in ast.walk(func_node):
        if not isinstance(n, ast.If):
            continue
        asg = [x for x in n.body if isinstance(x, ast.Assign) and len(x.targets) == 1 and src(x.targets[0]) == var and src(x.value) == item]
        if not asg:
            continue
        t = n.test
        ok = isinstance(t, ast.BoolOp) and isinstance(t.op, ast.Or) and len(t.values) == 2
        if ok:
            a, b = t.values
            if not (isinstance(a, ast.UnaryOp) and isinstance(a.op, ast.Not)):
                a, b = b, a
            ok = isinstance(a, ast.UnaryOp) and isinstance(a.op, ast.Not) and src(a.operand) == var and isinstance(b, ast.Compare) and len(b.ops) == 1 and (
                (isinstance(b.ops[0], ast.Gt) and src(b.left) == var and src(b.comparators[0]) == item) or
                (isinstance(b.ops[0], ast.Lt) and src(b.left) == item and src(b.comparators[0]) == var))
        (exact if ok and not n.orelse else inexact).append(n)
    return exact, inexact


def waiter_lists(chk, rule, cls, min_fields=1):
    """Future lists of a class: a method creates a Future, appends it to self.<F> and returns it (somebody awaits it).  Every loop that
    resolves the waiters of <F> must resolve all of them (only futures already done are skipped, no early exit) and the list is
    emptied only after they were resolved.  A waiter that is never resolved is a coroutine that sleeps for ever."""
    fields = {}
    for m in cls.methods.values():
        futs = {src(a.targets[0]) for a in walk_local(m.node) if isinstance(a, ast.Assign) and isinstance(a.value, ast.Call) and src(a.value.func).endswith("Future")
                and isinstance(a.targets[0], ast.Name)}
        for c in m.calls():
            if call_attr(c) == "append" and src(c.func.value).startswith("self.") and c.args and src(c.args[0]) in futs and \
                    any(isinstance(r, ast.Return) and r.value is not None and src(r.value) == src(c.args[0]) for r in walk_local(m.node)):
                fields.setdefault(src(c.func.value), []).append(m)
    n_res = 0
    for fld, makers in sorted(fields.items()):
        resolvers = []
        for m in cls.methods.values():
            cfg = None
            for lp in [x for x in walk_local(m.node) if isinstance(x, ast.For) and src(x.iter) in (fld, "list(%s)" % fld, "%s[:]" % fld)]:
                sets = [c for c in ast.walk(lp) if isinstance(c, ast.Call) and call_attr(c) in ("set_result", "set_exception", "cancel") and
                        isinstance(lp.target, ast.Name) and src(c.func.value) == lp.target.id]
                if not sets:
                    continue
                cfg = cfg or m.cfg()
                chk.analysed(m)
                n_res += 1
                resolvers.append(m)
                head = [h for h in cfg.nodes if h.kind == "loop" and h.ast is lp][0]
                node = [x for x in cfg.nodes if x.kind == "stmt" and any(y is sets[0] for y in x.walk())][0]
                v = lp.target.id
                exact_selection(chk, rule, "%s.%s wakes every waiter of %s (only futures already done are skipped)" % (cls.name, m.name, fld), m, cfg, node, head,
                                {("%s.done()" % v, False)}, text="waiters of %s woken exactly" % fld)
                ok = not any(isinstance(y, (ast.Break, ast.Return)) for y in ast.walk(lp))
                chk.ob(rule, "%s.%s does not stop waking waiters of %s early" % (cls.name, m.name, fld), ok, m.where(lp), construct=m.ident,
                       text="waiter loop of %s left early" % fld)
                resets = [x for x in cfg.nodes if x.kind == "stmt" and isinstance(x.ast, ast.Assign) and any(src(t_) == fld for t_ in x.ast.targets) and src(x.ast.value) in ("[]", "list()")] + \
                    [x for x, c in cfg.calls_named("clear") if src(c.func.value) == fld]
                for r in resets:
                    after = r.id in cfg.reachable([head.id], include_start=False) and head.id not in cfg.reachable([r.id], include_start=False)
                    chk.ob(rule, "%s.%s forgets the waiters of %s only after it woke them" % (cls.name, m.name, fld), after, m.where(r.ast), construct=m.ident,
                           text="waiters of %s forgotten before woken" % fld)
        chk.ob(rule, "waiters filed in %s.%s (by %s) have a resolver" % (cls.name, fld[5:], ", ".join(x.name for x in makers)), bool(resolvers),
               makers[0].where(), construct=makers[0].ident, text="waiters of %s never resolved" % fld)
    return len(fields), n_res


def rescaled_time_strings(repo, prefixes=("mpf/",)):
    """[(func, node, text)] where the result of Util.string_to_secs / string_to_ms is multiplied or divided by 1000.  The two parsers
    differ in what a bare number means (seconds vs milliseconds): `string_to_secs(x) * 1000` is dimensionally ms but reads `250` as
    250 s.  The only legitimate rescaling is inside string_to_secs itself, for strings that carry a unit."""
    out = []
    n = 0
    for f in repo.all_funcs():
        if not any(f.relpath.startswith(p) for p in prefixes):
            continue
        for x in walk_local(f.node):
            if isinstance(x, ast.Call) and call_attr(x) in ("string_to_secs", "string_to_ms"):
                n += 1
        if f.qualname.endswith("Util.string_to_secs"):
            continue
        for x in walk_local(f.node):
            if isinstance(x, ast.BinOp) and isinstance(x.op, (ast.Mult, ast.Div, ast.FloorDiv)):
                sides = [x.left, x.right]
                k = [y for y in sides if isinstance(y, ast.Constant) and y.value in (1000, 1000.0, 0.001)]
                c = [y for s_ in sides for y in ast.walk(s_) if isinstance(y, ast.Call) and call_attr(y) in ("string_to_secs", "string_to_ms")]
                if k and c:
                    out.append((f, x, src(x)))
    return out, n


STOP_LOOPS = {
    "game": ("mpf/modes/game/code/game.py", "Game._stop_game_modes", {("mode.is_game_mode", True), ("mode.active", True)}, "self.machine.modes.values()"),
    "ball": ("mpf/core/mode_controller.py", "ModeController._ball_ending", {("mode.is_game_mode", True), ("mode.auto_stop_on_ball_end", True)}, "self.active_modes"),
}


def stop_loop_selection(chk, rule, which, why):
    """The loops that stop modes and wait for them (game end, ball end): every mode matching the stated condition is stopped with a
    completion callback -- no further condition exempts a mode (one that is already stopping still has to finish), the loop ranges
    over the whole collection and is never left early."""
    rel, qual, want, coll = STOP_LOOPS[which]
    f = chk.repo.func(rel, qual)
    chk.analysed(f)
    cfg = f.cfg()
    st = [(n, c) for n, c in cfg.calls_named("stop") if src(c.func.value) == "mode" and kwarg(c, "callback") is not None]
    chk.need(len(st) == 1, rule, "%s stops the modes with a completion callback" % qual, f)
    lh = [h for h in cfg.nodes if h.kind == "loop" and any(y is st[0][1] for y in ast.walk(h.ast))]
    chk.need(lh, rule, "%s stops the modes in a loop" % qual, f)
    g = positive(inloop_guards(cfg, st[0][0].id, lh[-1].id))
    chk.ob(rule, "%s waits for every mode that matches %s - no further condition exempts a mode (%s)" % (qual, sorted(k for k, _ in want), why), g == want,
           f.where(st[0][1]), detail="selection %s" % sorted(g), construct=f.ident, text="stop loop selection")
    lp = lh[-1].ast
    ok = src(lp.iter) == coll and not any(isinstance(y, (ast.Break, ast.Return)) for y in ast.walk(lp))
    chk.ob(rule, "%s looks at all of %s and never leaves the loop early" % (qual, coll), ok, f.where(lp), detail=src(lp.iter), construct=f.ident,
           text="stop loop range")
    # the bookkeeping (list of modes waited for / counter) is updated before stop() is called: a mode that is not running any more
    # calls the completion callback from inside stop(), and the callback takes the mode off the books
    books = [n for n in cfg.nodes if n.kind == "stmt" and any(y is n.ast for y in ast.walk(lp)) and (
        (isinstance(n.ast, ast.AugAssign) and isinstance(n.ast.op, ast.Add)) or
        any(call_attr(c) == "append" and src(c.func.value).startswith("self.") for c in n.calls()))]
    sel = inloop_guards(cfg, st[0][0].id, lh[-1].id)
    books = [b for b in books if inloop_guards(cfg, b.id, lh[-1].id) == sel]        # the bookkeeping of *this* selection
    ok = bool(books) and all(cfg.dominates(b.id, st[0][0].id) for b in books)
    chk.ob(rule, "%s notes the mode as awaited before it asks it to stop" % qual, ok, f.where(st[0][1]), construct=f.ident, text="stop before bookkeeping")


def elif_chain_exact(cfg, nodes):
    """`nodes`: the effect statements of an if / elif / ... / else chain, in source order.  The chain is exact when, beyond the guards
    all of them share, the i-th is selected by exactly {own test True} + {tests of the earlier branches False} (the last may be the
    bare else: no test of its own).  Returns [] or a list of (node, reason): an extra conjunct on a branch, a branch reachable past
    an alternative, a branch whose own test does not dominate it (an `or` alternative was added)."""
    from sa.cfg import canon_set, canon_fact
    gs = [set(canon_set(cfg.guards_at(n.id))) for n in nodes]
    if not gs:
        return []
    base = set.intersection(*gs)
    bad = []
    earlier = []
    for i, (n, g) in enumerate(zip(nodes, gs)):
        ex = g - base
        want_neg = {canon_fact(k, not v) for k, v in earlier}
        if not want_neg <= ex:
            bad.append((n, "reachable although an earlier alternative matched: missing %s" % sorted(want_neg - ex)))
        mine = ex - want_neg
        last = i == len(nodes) - 1
        if len(mine) > 1 or (len(mine) == 0 and not last):
            bad.append((n, "selected by %s instead of one test of its own" % sorted(mine)))
        earlier.extend(mine)
    return bad


def consume_after_wake(chk, rule, f, event, what):
    """An asyncio.Event used as a wake-up flag of a loop: the coroutine sleeps on it (directly, or through a future made from its
    wait()) and then *consumes* it.  The clear must follow the wake-up at once: cleared before the sleep, a request that was set
    while the previous round was being processed is lost (the loop sleeps although work is pending); with an await between wake-up
    and clear, a request raised during that await is wiped."""
    cfg = f.cfg()
    wake = []
    futs = {src(a.targets[0]) for a in walk_local(f.node) if isinstance(a, ast.Assign) and ("%s.wait()" % event) in src(a.value) and isinstance(a.targets[0], ast.Name)}
    for n in cfg.nodes:
        if n.kind not in ("stmt", "test") or not n.has_await():
            continue
        t = src(n.ast)
        if ("%s.wait()" % event) in t or any(fu in t for fu in futs):
            wake.append(n)
    clears = [n for n, c in cfg.calls_named("clear") if src(c.func.value) == event]
    chk.need(wake and clears, rule, "%s sleeps on %s and consumes it" % (f.qualname, event), f)
    w = wake[-1]
    heads = [h.id for h in cfg.nodes if h.kind in ("loop",) or (h.kind == "join" and isinstance(h.ast, ast.While))]
    ok = True
    why = ""
    for c in clears:
        if not cfg.dominates(w.id, c.id):
            # a clear that can run before the sleep in the same round
            ok, why = False, "cleared before the sleep"
            continue
        p = cfg.path_avoiding(w.id, [c.id], [], ignore_exc=True)
        between = [x for x in cfg.reachable([w.id], avoid=[c.id] + heads, include_start=False) if x != c.id and cfg.nodes[x].has_await()
                   and c.id in cfg.reachable([x], avoid=heads, include_start=False)]
        if between:
            ok, why = False, "an await lies between the wake-up and the clear"
    chk.ob(rule, "%s: %s is consumed right after the wake-up (%s)" % (f.qualname, event, what), ok, f.where(clears[0].ast), detail=why, construct=f.ident,
           text="wake flag %s %s" % (event, why or "consumed after wake-up"))


def split_request(chk, rule, f, total, what):
    """"Take from each device what it has but not more than is still missing, then request the rest": inside the loop the amount is
    max(min(device.available_balls, TOTAL - ADDED), 0), ADDED is *added to* by exactly that amount after it was used, and after the
    loop the remainder TOTAL - ADDED is requested.  Overwriting ADDED, or sizing by something else, requests more or fewer balls
    than were promised."""
    cfg = f.cfg()
    accs = [x for x in walk_local(f.node) if isinstance(x, ast.AugAssign) and isinstance(x.op, ast.Add) and isinstance(x.target, ast.Name) and isinstance(x.value, ast.Name)]
    asg = [x for x in walk_local(f.node) if isinstance(x, ast.Assign) and isinstance(x.targets[0], ast.Name) and isinstance(x.value, ast.Name) and
           any(isinstance(y, ast.For) and x in ast.walk(y) for y in walk_local(f.node))]
    ok = False
    detail = "no `added += amount` accumulation found"
    for x in accs:
        added, amount = x.target.id, x.value.id
        d = [a for a in walk_local(f.node) if isinstance(a, ast.Assign) and src(a.targets[0]) == amount]
        lp = [y for y in walk_local(f.node) if isinstance(y, ast.For) and any(z is x for z in ast.walk(y))]
        if len(d) != 1 or not lp:
            continue
        dev = src(lp[-1].target)
        want = "max(min(%s.available_balls,%s-%s),0)" % (dev, total, added)
        got = src(d[0].value).replace(" ", "")
        rest = [c for c in f.calls() if not (isinstance(c.func, ast.Name) and c.func.id in ("max", "min")) and any(src(a).replace(" ", "") in ("%s-%s" % (total, added), "max(%s-%s,0)" % (total, added))
                                            for a in list(c.args) + [k.value for k in c.keywords]) and not any(z is c for z in ast.walk(lp[-1]))]
        used = [c for c in ast.walk(lp[-1]) if isinstance(c, ast.Call) and any(src(a) == amount for a in list(c.args) + [k.value for k in c.keywords])]
        init = [a for a in walk_local(f.node) if isinstance(a, ast.Assign) and src(a.targets[0]) == added]
        only_acc = len(init) == 1 and const_value(init[0].value) == 0 and not any(z is init[0] for z in ast.walk(lp[-1]))
        ok = got == want.replace(" ", "") and len(rest) == 1 and bool(used) and only_acc
        detail = "amount %s; remainder requested %d time(s); %s starts at 0 and is only added to: %s" % (got, len(rest), added, only_acc)
        break
    chk.ob(rule, "%s: every source gives what it has but not more than is still missing, the running total is added to, the remainder is requested (%s)" %
           (f.qualname, what), ok, f.where(), detail=detail, construct=f.ident, text="split request in " + f.name)


def mode_delays_own(chk, rule):
    """Every delay armed inside class Mode goes to the mode's own DelayManager (`self.delay`), which Mode.stop clears; a delay armed on
    another manager (the machine-wide one) survives the mode and fires into a stopped mode."""
    repo = chk.repo
    mode = repo.cls("mpf/core/mode.py", "Mode")
    n = 0
    for m in mode.methods.values():
        for c in m.calls():
            if call_attr(c) in ("add", "reset", "add_if_doesnt_exist") and isinstance(c.func, ast.Attribute) and src(c.func.value).endswith("delay") and \
                    (kwarg(c, "ms") is not None or kwarg(c, "callback") is not None or len(c.args) >= 2):
                n += 1
                chk.analysed(m)
                chk.ob(rule, "a delay armed inside Mode.%s is the mode's own (self.delay), which Mode.stop clears" % m.name, src(c.func.value) == "self.delay", m.where(c),
                       detail="armed on %s" % src(c.func.value), construct=m.ident, text="mode delay armed on " + src(c.func.value))
    chk.ob(rule, "delays armed inside Mode examined", n >= 1, mode.where(), detail=str(n), nontrivial=False)


def setting_value_source(chk, rule):
    """SettingsController.get_setting_value: the stored value is used whenever the setting's machine variable *exists* (is_machine_var);
    only a missing variable, or a stored value that is not one of the setting's legal values, yields the default.  A test on the
    value's truthiness turns every legal falsy selection (0, False, '') into the default."""
    f = chk.repo.func("mpf/core/settings_controller.py", "SettingsController.get_setting_value")
    chk.analysed(f)
    cfg = f.cfg()
    defs = [n for n in cfg.nodes if n.kind == "stmt" and isinstance(n.ast, ast.Assign) and src(n.ast.targets[0]) == "value"]
    dflt = [n for n in defs if src(n.ast.value).endswith(".default")]
    stored = [n for n in defs if isinstance(n.ast.value, ast.Call) and call_attr(n.ast.value) == "get_machine_var"]
    chk.need(stored and dflt, rule, "get_setting_value reads the stored value and knows the default", f)
    from sa.cfg import canon_set
    ok = True
    why = []
    for n in dflt:
        g = set(canon_set(cfg.guards_at(n.id)))
        texts = {k for k, v in g}
        legit = any("is_machine_var" in k for k in texts) or any(" not in " in k and ".values" in k for k in texts) or any(" in " in k and ".values" in k for k in texts)
        truthy = [k for k, v in g if k in ("value", "not value") or k.replace(" ", "") in ("valueisNone", "value==None")]
        if not legit or truthy:
            ok = False
            why.append("default chosen under %s" % sorted(g))
    for n in stored:
        g = set(canon_set(cfg.guards_at(n.id)))
        if not any("is_machine_var" in k for k, v in g):
            # reading first and deciding afterwards is fine only if the decision is `is_machine_var` / membership, checked above
            pass
    uses_exists = any(call_attr(c) == "is_machine_var" for c in f.calls())
    chk.ob(rule, "a setting's stored value is used whenever its machine variable exists; the default only for a missing variable or an illegal stored value",
           ok and uses_exists, f.where(), detail="; ".join(why) or ("is_machine_var consulted: %s" % uses_exists), construct=f.ident, text="setting value source")


def game_ended_only_through_its_api(chk, rule):
    """Nobody outside the game mode stops the game mode object directly (`<...>.game.stop()`): a running game is ended through
    end_game() / end_ball(), which run the ball-end and game-end sequences (ball_will_end disables flippers and autofires, the
    lifecycle events are posted, players are closed).  A direct stop leaves machine.game None with the rules of the last ball installed."""
    from sa.index import get_index
    idx = get_index(chk.repo)
    n_api = 0
    for name in ("end_game", "end_ball"):
        for u in idx.uses(name):
            if u.call is not None and (u.recv_text or "").endswith("game") and "/tests/" not in u.relpath:
                n_api += 1
    bad = [u for u in idx.uses("stop") if u.call is not None and "/tests/" not in u.relpath and u.relpath.startswith("mpf/") and
           ((u.recv_text or "") == "game" or (u.recv_text or "").endswith(".game")) and not u.relpath.endswith("modes/game/code/game.py")]
    for u in bad:
        chk.ob(rule, "a running game is ended through end_game() / end_ball(), never by stopping the game mode directly", False, "%s:%d" % (u.relpath, u.node.lineno),
               detail="`%s.stop()` in %s skips ball_will_end / ball_ending / game_ended: flipper and autofire rules stay installed with no game running" % (u.recv_text, u.scope),
               construct=u.func.ident if u.func is not None else u.relpath, text="game mode stopped directly in " + (u.scope or u.relpath))
    chk.ob(rule, "callers that end the game go through end_game() / end_ball() (%d call sites), none stops the game mode directly" % n_api, n_api >= 2 and not bad,
           "mpf/modes/game/code/game.py:1", nontrivial=False)


UNLOAD_TABLED = {
    # (class, call text) -> reason
    ("Multiball", "self.stop()"): "a running multiball is stopped with its mode only while shoot-again still adds balls; otherwise it ends by its balls draining",
    ("LogicBlock", "delay.clear"): "NAMES timeout: the timeout is removed by name; the hit window's exit delay must survive the unload (it only clears ignore_hits; C18 PAIR-21)",
    ("Timer", "delay.clear"): "the timer arms one delay only ('pause') and stop(), which the unload always calls, removes it",
    ("BallSave", "delay.clear"): "disable() removes the three named delays; the anonymous eject_delay hands back balls that are already owed to the playfield (C05)",
    ("DropTargetBank", "delay.clear"): "a pending reset of the physical targets (reset_on_complete, ball search) is left to finish",
}
_CLEANUP_WORDS = ("remove", "clear", "disable", "stop", "cancel")


def unload_cleanup_unconditional(chk, rule):
    """When a mode unloads a device, every clean-up step of its device_removed_from_mode (removing handlers, clearing delays, disabling,
    stopping, resetting per-player references) runs on every path: it is unconditional, or guarded only by the presence of the very
    object it acts on (`if self._show: self._show.stop()`).  A step that depends on anything else (a config flag, the persisted state)
    leaves handlers of the previous player's turn registered when that condition fails: they keep changing state during another
    player's turn and the next game."""
    from sa.model import src as _src, walk_local as _wl, call_attr as _ca
    repo = chk.repo
    md = repo.cls("mpf/core/mode_device.py", "ModeDevice")
    n = 0
    for c in repo.subclasses(md, strict=False):
        m = c.methods.get("device_removed_from_mode")
        if m is None:
            continue
        chk.analysed(m)
        cfg = m.cfg()
        for node in cfg.nodes:
            if node.kind == "branch":
                continue
            items = []
            for call in node.calls():
                nm = _ca(call) or (call.func.id if isinstance(call.func, ast.Name) else "")
                if any(w in nm for w in _CLEANUP_WORDS) or nm == "device_removed_from_mode":
                    recv = _src(call.func.value) if isinstance(call.func, ast.Attribute) else ""
                    items.append((_src(call), recv, call))
            if node.kind == "stmt" and isinstance(node.ast, ast.Assign) and _src(node.ast.value) in ("None", "[]", "False", "{}", "set()", "list()", "dict()") and \
                    isinstance(node.ast.targets[0], ast.Attribute):
                items.append((_src(node.ast), _src(node.ast.targets[0]), node.ast))
            for text, recv, where in items:
                n += 1
                g = cfg.guards_at(node.id)
                extra = {k: v for k, v in g.items() if not (v is True and (k == recv or recv.startswith(k + ".") or k == "%s is not None" % recv)) and
                         not (v is False and k in ("not " + recv, "%s is None" % recv, "None is " + recv))}
                tab = UNLOAD_TABLED.get((c.name, text))
                chk.ob(rule, "%s.device_removed_from_mode: `%s` runs whenever the device is unloaded" % (c.name, short(where, 50)), not extra or tab is not None,
                       m.where(where), detail=("tabled: " + tab) if tab else "depends on %s" % sorted(extra.items()), construct=m.ident,
                       text="conditional unload step %s in %s" % (text[:50], c.name))
    # a device with a delay manager of its own that arms delays forgets all of them when it is unloaded: delay.clear() (not a list of names,
    # which misses the names added later) is reached on every path of device_removed_from_mode, directly or through a helper it calls
    k = 0
    for c in repo.subclasses(md, strict=False):
        m = c.methods.get("device_removed_from_mode")
        if m is None:
            continue
        owns = any(isinstance(x, ast.Assign) and any(_src(t) == "self.delay" for t in x.targets) and isinstance(x.value, ast.Call) and
                   _src(x.value.func).split(".")[-1] == "DelayManager" for kls in repo.mro(c) for mm in kls.methods.values() for x in _wl(mm.node))
        arms = any(isinstance(x, ast.Call) and _ca(x) in ("add", "reset", "add_if_doesnt_exist") and isinstance(x.func, ast.Attribute) and _src(x.func.value) == "self.delay"
                   for mm in c.methods.values() for x in _wl(mm.node))
        if not (owns and arms):
            continue
        k += 1
        cfg = m.cfg()

        def clears(fn):
            return [nd.id for nd, cl in fn.cfg().calls_named("clear") if _src(cl.func.value) == "self.delay"]
        via = list(clears(m))
        for nd, cl in [(nd, cl) for nd in cfg.nodes if nd.kind == "stmt" for cl in nd.calls()]:
            if isinstance(cl.func, ast.Attribute) and _src(cl.func.value) == "self":
                h = repo.lookup_method(c, cl.func.attr)
                if h is not None and h is not m:
                    hc = h.cfg()
                    hv = clears(h)
                    if hv and hc.must_pass(hc.entry.id, hv) is None:
                        via.append(nd.id)
            if isinstance(cl.func, ast.Attribute) and _src(cl.func.value) == "super()" and cl.func.attr == "device_removed_from_mode":
                for kls in repo.mro(c)[1:]:
                    sm = kls.methods.get("device_removed_from_mode")
                    if sm is not None:
                        sv = clears(sm)
                        if sv and sm.cfg().must_pass(sm.cfg().entry.id, sv) is None:
                            via.append(nd.id)
                        break
        w = cfg.must_pass(cfg.entry.id, via) if via else [cfg.entry.id]
        tab = UNLOAD_TABLED.get((c.name, "delay.clear"))
        if tab is not None and tab.startswith("NAMES "):
            # tabled with the names that must go: each is removed on every path of the unload (directly, or in a helper / disable() it always calls)
            for nm_ in tab.split(":")[0].split()[1:]:
                def removes(fn, nm=nm_):
                    return [nd.id for nd, cl in fn.cfg().calls_named("remove") if _src(cl.func.value) == "self.delay" and cl.args and
                            isinstance(cl.args[0], ast.Constant) and cl.args[0].value == nm]
                rv = list(removes(m))
                for nd, cl in [(nd, cl) for nd in cfg.nodes if nd.kind == "stmt" for cl in nd.calls()]:
                    if isinstance(cl.func, ast.Attribute) and _src(cl.func.value) == "self":
                        h = repo.lookup_method(c, cl.func.attr)
                        if h is not None and h is not m and removes(h) and h.cfg().must_pass(h.cfg().entry.id, removes(h)) is None:
                            rv.append(nd.id)
                w2 = cfg.must_pass(cfg.entry.id, rv) if rv else [cfg.entry.id]
                chk.ob(rule, "%s: unloading the device removes its `%s` delay on every path" % (c.name, nm_), w2 is None, m.where(), construct=m.ident,
                       detail="the delay fires after the mode has stopped, on a device that has no state any more", text="delay %s survives unload of %s" % (nm_, c.name))
        chk.ob(rule, "%s: unloading the device clears every delay it armed (delay.clear() on every path)" % c.name, w is None or tab is not None, m.where(),
               detail=("tabled: " + tab) if tab else "delays armed under names the clean-up does not list survive the mode and fire in its name", construct=m.ident,
               text="delays survive unload of " + c.name)
    chk.ob(rule, "devices with delays of their own examined for the unload clean-up (%d)" % k, k >= 3, "mpf/core/mode_device.py:1", nontrivial=False)
    chk.ob(rule, "unload clean-up steps examined (%d)" % n, n >= 25, "mpf/core/mode_device.py:1", nontrivial=False)


def delay_add_only_schedules(chk, rule):
    """DelayManager.add never runs what it is asked to delay: the callback (and the delay's own completion routine) is only bound with
    partial() and handed to the clock, whatever the delay length; every returning path registers the delay with clock.schedule_once.
    Callers arm a delay *before* the action it undoes (Driver._pulse_now arms the switch-off, then enables the coil): run at once, the
    undo would come first and nothing would be left to undo the action."""
    repo = chk.repo
    f = repo.func("mpf/core/delays.py", "DelayManager.add")
    chk.analysed(f)
    cfg = f.cfg()
    params = {a.arg for a in f.node.args.args}
    direct = []
    for x in walk_local(f.node):
        if isinstance(x, ast.Call):
            fn = x.func
            if (isinstance(fn, ast.Name) and fn.id == "callback" and "callback" in params) or \
                    (isinstance(fn, ast.Attribute) and fn.attr in ("_process_delay_callback", "run_now") and dotted(fn.value) == "self"):
                direct.append(x)
    chk.ob(rule, "DelayManager.add never runs the delayed callback itself", not direct, f.where(direct[0]) if direct else f.where(),
           detail="a delay of 0 ms still runs from the clock, after the caller has finished (the caller arms the undo before the action)",
           construct=f.ident, text="delayed callback run inside add: " + (short(direct[0], 60) if direct else "none"))
    sched = [n.id for n, c in cfg.calls_named("schedule_once")]
    path = cfg.must_pass(cfg.entry.id, sched) if sched else [cfg.entry.id]
    chk.ob(rule, "every returning path of DelayManager.add registers the delay with the clock", path is None, f.where(), construct=f.ident,
           text="add schedules on every path", path=cfg.fmt_path(path, f) if path and len(path) > 1 else None, nontrivial=True)


def mode_stop_clears_delays(chk, rule):
    """An accepted Mode.stop clears the mode's delays (a delayed device control event of the ending turn must not fire into the next
    player's turn), and each mode owns its DelayManager."""
    repo = chk.repo
    f = repo.func("mpf/core/mode.py", "Mode.stop")
    chk.analysed(f)
    cfg = f.cfg()
    mark = [n for n in cfg.nodes_where(lambda n: n.kind == "stmt" and isinstance(n.ast, ast.Assign) and
                                       src(n.ast.targets[0]) == "self.stopping" and src(n.ast.value) == "True")]
    clr = [n.id for n, c in cfg.calls_named("clear") if src(c.func.value) == "self.delay"]
    if not mark:
        # the stop protocol itself is C07's subject; here only: whatever path gets past the guards clears the delays
        mark = [cfg.entry]
    w = cfg.must_pass(mark[0].id, clr) if not any(cfg.dominates(c, mark[0].id) for c in clr) else None
    chk.ob(rule, "an accepted Mode.stop clears the mode's delays", bool(clr) and w is None, f.where(),
           path=cfg.fmt_path(w, "mpf/core/mode.py") if w else None, construct=f.ident, text="mode stop clears delays")
    init = repo.func("mpf/core/mode.py", "Mode.__init__")
    ok = any(isinstance(n, ast.Assign) and src(n.targets[0]) == "self.delay" and "DelayManager" in src(n.value) for n in walk_local(init.node))
    chk.ob(rule, "each mode owns its DelayManager", ok, init.where(), construct=init.ident, text="mode delay manager")
